// D37: an alarm whose timer fires a few milliseconds early (monotonic clock ahead of the wall clock — the case alarm.cpp itself describes) and whose callback
// causes a refresh() — a WorkdayAlarm that updates the calendar it is subscribed to does — fires a second time for the same instant.
#include "fake_env.h"
#include <tbox/alarm/weekly_alarm.h>
#include <tbox/alarm/workday_alarm.h>
#include <tbox/alarm/workday_calendar.h>
#include <cstdio>
#include <vector>

using namespace tbox::alarm;

// both clocks advance to `early_usec` before the timer's dead line on the monotonic clock, the monotonic clock alone covers the rest: the timer expires while the
// wall clock still reads `early_usec` before the instant
static void FireEarlyOnce(FakeTimer *t, int64_t early_usec) {
  int64_t dt = t->deadline_mono() - g_mono_usec;
  Advance(dt - early_usec);
  g_mono_usec += early_usec;
  t->fire();
}

int main() {
  FakeLoop loop;
  std::vector<uint32_t> fired_at;     // wall-clock second at which the callback ran

  // (a) the plain case: the application refreshes its alarms from the alarm's callback
  WeeklyAlarm daily(&loop);
  FakeTimer *daily_timer = loop.last_timer;
  g_timers.push_back(daily_timer);
  daily.setTimezone(0);
  daily.initialize(10 * 3600, "1111111");         // every day 10:00:00 UTC
  daily.setCallback([&] {
    fired_at.push_back(static_cast<uint32_t>(g_wall_usec / 1000000));
    daily.refresh();                                // e.g. the rule was re-read from the configuration
  });
  SetWall(4 * 86400 + 9 * 3600 + 59 * 60, 0);      // Monday 09:59:00
  daily.enable();
  FireEarlyOnce(daily_timer, 5000);                 // the timer expires 5 ms early on the wall clock (monotonic clock ahead)
  RunFor(5 * 60 * 1000000LL);                       // five more minutes pass, clocks in step
  std::printf("daily 10:00 alarm, 5 minutes around 10:00: callback ran %zu time(s)\n", fired_at.size());
  int bad = (fired_at.size() != 1);

  // (b) the designed case: a workday alarm whose callback updates the calendar (WorkdayCalendar refreshes every subscribed alarm)
  fired_at.clear();
  WorkdayCalendar cal;
  WorkdayAlarm wd(&loop);
  FakeTimer *wd_timer = loop.last_timer;
  g_timers.push_back(wd_timer);
  wd.setTimezone(0);
  wd.initialize(10 * 3600, &cal, true);
  wd.setCallback([&] {
    fired_at.push_back(static_cast<uint32_t>(g_wall_usec / 1000000));
    cal.updateWeekMask(0x3e);                       // Monday..Friday, as before: the update still refreshes the subscribers
  });
  SetWall(11 * 86400 + 9 * 3600 + 59 * 60, 0);     // a Monday 09:59:00
  wd.enable();
  FireEarlyOnce(wd_timer, 5000);
  RunFor(5 * 60 * 1000000LL);
  std::printf("workday 10:00 alarm whose callback updates the calendar: callback ran %zu time(s)\n", fired_at.size());
  bad |= (fired_at.size() != 1);

  std::printf(bad ? "FAIL: an instant fired twice\n" : "PASS\n");
  return bad;
}
