/*
 * D25 stress: one Loop object is run again and again (each run ended by an exitLoop() task)
 * while several threads keep calling runInLoop().  Every task must run exactly once on the
 * loop thread and the loop must never miss a wake-up.  Intended to be run under TSan too.
 *
 * usage: stress [engine] [producers] [tasks-per-producer]
 * exit: 0 ok, 2 hang (30 s watchdog), 3 wrong count / wrong thread
 */
#include <tbox/event/loop.h>

#include <atomic>
#include <chrono>
#include <cstdio>
#include <cstdlib>
#include <string>
#include <thread>
#include <vector>
#include <unistd.h>

using namespace tbox::event;

int main(int argc, char **argv) {
    std::string engine = argc > 1 ? argv[1] : "epoll";
    int producers = argc > 2 ? atoi(argv[2]) : 4;
    int per = argc > 3 ? atoi(argv[3]) : 3000;

    Loop *loop = Loop::New(engine);
    if (!loop) return 4;

    std::atomic<long> executed{0};
    std::atomic<long> wrong_thread{0};
    std::atomic<bool> done{false};
    std::atomic<bool> finished{false};
    std::atomic<long> runs{0};
    const std::thread::id loop_tid = std::this_thread::get_id();

    std::thread watchdog([&] {
        for (int i = 0; i < 3000 && !finished; ++i)
            std::this_thread::sleep_for(std::chrono::milliseconds(10));
        if (!finished) {
            printf("HANG engine=%s runs=%ld executed=%ld/%ld\n", engine.c_str(),
                   runs.load(), executed.load(), (long)producers * per);
            fflush(stdout);
            _exit(2);
        }
    });

    std::vector<std::thread> ths;
    for (int p = 0; p < producers; ++p) {
        ths.emplace_back([&, p] {
            unsigned seed = 1234u + p;
            for (int i = 0; i < per; ++i) {
                loop->runInLoop([&] {
                    ++executed;
                    if (std::this_thread::get_id() != loop_tid) ++wrong_thread;
                });
                unsigned r = rand_r(&seed);
                if (r % 7 == 0)     //! frequently stop the loop, often with a wake-up still pending
                    loop->runInLoop([&] { loop->exitLoop(); });
                if (r % 5 == 0)
                    std::this_thread::sleep_for(std::chrono::microseconds(r % 200));
            }
        });
    }

    std::thread controller([&] {
        for (auto &t : ths) t.join();
        done = true;
        loop->runInLoop([&] { loop->exitLoop(); });
    });

    for (;;) {
        loop->runLoop(Loop::Mode::kForever);
        ++runs;
        if (done) break;
    }
    controller.join();
    loop->cleanup();    //! whatever was submitted after the last stop
    finished = true;
    watchdog.join();

    long want = (long)producers * per;
    printf("engine=%s runs=%ld executed=%ld/%ld wrong_thread=%ld\n", engine.c_str(),
           runs.load(), executed.load(), want, wrong_thread.load());
    delete loop;
    return (executed == want && wrong_thread == 0) ? 0 : 3;
}
