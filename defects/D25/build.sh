#!/bin/sh
# usage: build.sh <tree> [libdir] [extra compiler flags...]
#   <tree>   : cpp-tbox source tree (headers taken from <tree>/modules)
#   [libdir] : build dir holding modules/<m>/libtbox_<m>.a
#              (default: <tree>/_build, falling back to /repo/_build)
# output: ./repro next to this script
set -e
TREE=${1:?usage: build.sh <tree> [libdir] [extra flags]}
HERE=$(cd "$(dirname "$0")" && pwd)
LIBDIR=${2:-}
[ $# -ge 1 ] && shift
[ $# -ge 1 ] && shift
if [ -z "$LIBDIR" ]; then
    if [ -f "$TREE/_build/modules/event/libtbox_event.a" ]; then LIBDIR=$TREE/_build
    elif [ -f "$TREE/_b/modules/event/libtbox_event.a" ]; then LIBDIR=$TREE/_b
    else LIBDIR=/repo/_build; fi
fi
echo "headers: $TREE/modules   libs: $LIBDIR" >&2
g++ -std=gnu++11 -O1 -g -DNDEBUG -DMODULE_ID='"x"' \
    -I"$TREE/modules" -I"$TREE/3rd-party" -pthread "$@" \
    "$HERE/repro.cpp" -o "$HERE/repro" \
    "$LIBDIR/modules/event/libtbox_event.a" \
    "$LIBDIR/modules/util/libtbox_util.a" \
    "$LIBDIR/modules/base/libtbox_base.a" \
    -lpthread -ldl
