/*
 * D25 reproduction: CommonLoop::has_commit_run_req_ is left 'true' when the loop stops
 * with a committed-but-unconsumed wake-up; on the next runLoop() of the same Loop object
 * every runInLoop() skips the eventfd write and the loop is never woken.
 *
 * Each scenario is executed in a forked child for each back-end ("epoll", "select").
 *   first run : leaves (or, for the control, does not leave) a committed wake-up at loop exit
 *   second run: runLoop(kForever); another thread calls runInLoop(task) after 50 ms;
 *               task sets a flag and calls exitLoop().
 * A watchdog thread (plain std::thread, does not touch the loop) gives the task 3 s and
 * then reports the hang and _exit()s the child.
 *
 * exit status of the program: 0 = every scenario passed, 1 = at least one failed.
 */
#include <tbox/event/loop.h>
#include <tbox/event/timer_event.h>

#include <atomic>
#include <chrono>
#include <cstdio>
#include <cstring>
#include <functional>
#include <string>
#include <thread>
#include <vector>

#include <sys/types.h>
#include <sys/wait.h>
#include <unistd.h>

using namespace tbox::event;
using std::chrono::milliseconds;

namespace {

struct Ctx {
    Loop *loop = nullptr;
    std::atomic<int> x_count{0};            //! times 'x' (the task left pending at exit) ran
    std::atomic<bool> x_on_loop_thread{true};
    std::thread::id run_thread;             //! thread that calls runLoop()
};

Loop::Func makeX(Ctx &c) {
    return [&c] {
        ++c.x_count;
        if (std::this_thread::get_id() != c.run_thread)
            c.x_on_loop_thread = false;
    };
}

//! ---------- first-run variants -------------------------------------------------------

//! control: nothing committed after the last handleRunInLoopFunc()
void first_control(Ctx &c) {
    c.loop->runInLoop([&c] { c.loop->exitLoop(); });
    c.x_count = 1;  //! no x in this variant
    c.loop->runLoop();
}

//! a runInLoop task does: runInLoop(x); exitLoop();
void first_runinloop_task(Ctx &c) {
    c.loop->runInLoop([&c] {
        c.loop->runInLoop(makeX(c));
        c.loop->exitLoop();
    });
    c.loop->runLoop();
}

//! a runNext task does: runInLoop(x); exitLoop();
void first_runnext_task(Ctx &c) {
    c.loop->runNext([&c] {
        c.loop->runInLoop(makeX(c));
        c.loop->exitLoop();
    });
    c.loop->runLoop();
}

//! another thread calls runInLoop(x) while the loop thread is in its last iteration.
//! Made deterministic: the loop-thread task joins the submitting thread, then exits.
void first_cross_thread(Ctx &c) {
    c.loop->runInLoop([&c] {
        std::thread t([&c] { c.loop->runInLoop(makeX(c)); });
        t.join();
        c.loop->exitLoop();
    });
    c.loop->runLoop();
}

//! genuinely racy version: another thread submits x and then asks for exit through runInLoop
//! as well; whether the flag is left set depends on timing, x must run once anyway.
void first_cross_thread_racy(Ctx &c) {
    std::thread t([&c] {
        std::this_thread::sleep_for(milliseconds(20));
        c.loop->runInLoop([&c] {
            c.loop->exitLoop();
            //! give the other thread time to submit during this (last) iteration
            std::this_thread::sleep_for(milliseconds(30));
        });
        std::this_thread::sleep_for(milliseconds(10));
        c.loop->runInLoop(makeX(c));
    });
    c.loop->runLoop();
    t.join();
}

//! a task executed by the shutdown drain (cleanupDeferredTasks) calls runInLoop(x)
void first_drain_task(Ctx &c) {
    c.loop->runNext([&c] {
        c.loop->exitLoop();
        c.loop->runNext([&c] { c.loop->runInLoop(makeX(c)); });   //! runs in the drain
    });
    c.loop->runLoop();
}

//! a timer callback does: runInLoop(x); exitLoop();
void first_timer_cb(Ctx &c) {
    TimerEvent *t = c.loop->newTimerEvent();
    t->initialize(milliseconds(10), Event::Mode::kOneshot);
    t->setCallback([&c] {
        c.loop->runInLoop(makeX(c));
        c.loop->exitLoop();
    });
    t->enable();
    c.loop->runLoop();
    delete t;
}

//! runLoop(kOnce): the single iteration's runInLoop task submits x
void first_once(Ctx &c) {
    c.loop->runInLoop([&c] { c.loop->runInLoop(makeX(c)); });
    c.loop->runLoop(Loop::Mode::kOnce);
}

//! ---------- second run -----------------------------------------------------------------

enum SecondKind {
    kCrossThread,       //! task submitted from another thread 50 ms after the loop started
    kQueuedBeforeRun,   //! task submitted (loop stopped) before runLoop(): needs the start-time commit
    kCrossWithTimer     //! as kCrossThread, but the loop is also woken every 100 ms by a timer
};

int second_run(Ctx &c, SecondKind kind) {
    std::atomic<bool> ran{false};
    std::atomic<bool> ran_on_loop_thread{false};
    std::atomic<bool> done{false};
    std::atomic<int>  timer_ticks{0};

    auto task = [&] {
        ran = true;
        ran_on_loop_thread = (std::this_thread::get_id() == c.run_thread);
        c.loop->exitLoop();
    };

    std::thread watchdog([&] {
        for (int i = 0; i < 300 && !done; ++i)
            std::this_thread::sleep_for(milliseconds(10));
        if (!done) {
            printf("HANG: task submitted to the re-run loop not executed within 3 s "
                   "(ran=%d, timer_ticks=%d)\n", (int)ran.load(), timer_ticks.load());
            fflush(stdout);
            _exit(2);
        }
    });

    TimerEvent *timer = nullptr;
    if (kind == kCrossWithTimer) {
        timer = c.loop->newTimerEvent();
        timer->initialize(milliseconds(100), Event::Mode::kPersist);
        timer->setCallback([&] { ++timer_ticks; });
        timer->enable();
    }

    std::thread submitter;
    if (kind == kQueuedBeforeRun) {
        c.loop->runInLoop(task);
    } else {
        submitter = std::thread([&] {
            std::this_thread::sleep_for(milliseconds(50));
            c.loop->runInLoop(task);
        });
    }

    c.loop->runLoop(Loop::Mode::kForever);
    done = true;

    if (submitter.joinable())
        submitter.join();
    watchdog.join();
    delete timer;

    if (!ran || !ran_on_loop_thread) {
        printf("BAD: ran=%d on_loop_thread=%d\n", (int)ran.load(), (int)ran_on_loop_thread.load());
        return 3;
    }
    return 0;
}

struct Scenario {
    const char *name;
    void (*first)(Ctx &);
    SecondKind second;
};

const Scenario scenarios[] = {
    { "control: no pending commit at exit",               first_control,           kCrossThread },
    { "runInLoop-task{runInLoop(x);exitLoop()}",          first_runinloop_task,    kCrossThread },
    { "runNext-task{runInLoop(x);exitLoop()}",            first_runnext_task,      kCrossThread },
    { "cross-thread runInLoop(x) in last iteration",      first_cross_thread,      kCrossThread },
    { "cross-thread runInLoop(x) racing exit (timing)",   first_cross_thread_racy, kCrossThread },
    { "drain-task{runInLoop(x)}",                         first_drain_task,        kCrossThread },
    { "timer-cb{runInLoop(x);exitLoop()}",                first_timer_cb,          kCrossThread },
    { "runLoop(kOnce) task{runInLoop(x)}",                first_once,              kCrossThread },
    { "runInLoop-task{..}; 2nd: task queued before run",  first_runinloop_task,    kQueuedBeforeRun },
    { "runInLoop-task{..}; 2nd: loop has 100ms timer",    first_runinloop_task,    kCrossWithTimer },
};

int child_main(const std::string &engine, const Scenario &s) {
    Ctx c;
    c.loop = Loop::New(engine);
    if (c.loop == nullptr) {
        printf("no such engine\n");
        return 4;
    }
    c.run_thread = std::this_thread::get_id();

    s.first(c);

    //! the callable pending at loop stop must have been run exactly once, by the drain, on this thread
    if (c.x_count != 1 || !c.x_on_loop_thread) {
        printf("BAD first run: x_count=%d on_loop_thread=%d\n", c.x_count.load(), (int)c.x_on_loop_thread.load());
        return 5;
    }

    int ret = second_run(c, s.second);
    delete c.loop;
    return ret;
}

}

int main(int argc, char **argv) {
    std::vector<std::string> engines = { "epoll", "select" };
    if (argc > 1) {
        engines.clear();
        for (int i = 1; i < argc; ++i)
            engines.push_back(argv[i]);
    }

    //! the parent stays single-threaded, so fork() is fine (also under TSan)
    int fails = 0;
    for (const auto &engine : engines) {
        for (const auto &s : scenarios) {
            fflush(stdout);
            pid_t pid = fork();
            if (pid == 0) {
                int r = child_main(engine, s);
                fflush(stdout);
                _exit(r);
            }
            int status = 0;
            waitpid(pid, &status, 0);
            bool ok = WIFEXITED(status) && WEXITSTATUS(status) == 0;
            printf("[%s] %-6s %s", ok ? "PASS" : "FAIL", engine.c_str(), s.name);
            if (!ok) {
                if (WIFEXITED(status))
                    printf("  (exit %d)", WEXITSTATUS(status));
                else
                    printf("  (signal %d)", WTERMSIG(status));
                ++fails;
            }
            printf("\n");
        }
    }
    printf("%d failure(s)\n", fails);
    return fails == 0 ? 0 : 1;
}
