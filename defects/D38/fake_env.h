// Test doubles shared by the C20 demos (round 4):
//  * a virtual wall clock (gettimeofday() is defined in the demo executable, so
//    the statically linked alarm code reads the virtual time);
//  * a virtual monotonic clock, advanced together with the wall clock by
//    Advance(); StepWall() moves the wall clock alone (NTP step / settimeofday);
//  * a fake event::Loop whose TimerEvent records the requested delay on the
//    monotonic clock and is fired by RunFor() when that clock reaches its
//    dead line.
#ifndef C20_FAKE_ENV_H
#define C20_FAKE_ENV_H

#include <sys/time.h>
#include <cstdint>
#include <cstdio>
#include <chrono>
#include <string>
#include <vector>

#include <tbox/event/loop.h>
#include <tbox/event/timer_event.h>

//////////////////////////////////////////////////////////////////////
// virtual clocks
//////////////////////////////////////////////////////////////////////
static int64_t g_wall_usec = 0;   //!< micro-seconds since epoch (UTC), what gettimeofday() reports
static int64_t g_mono_usec = 0;   //!< monotonic clock the loop timers run on

static inline void SetWall(uint32_t sec, uint32_t usec = 0) {
  g_wall_usec = static_cast<int64_t>(sec) * 1000000 + usec;
}
static inline void StepWall(int64_t delta_usec) { g_wall_usec += delta_usec; }   //!< wall clock adjusted, monotonic clock unaffected
static inline void Advance(int64_t usec) { g_wall_usec += usec; g_mono_usec += usec; }

extern "C" int gettimeofday(struct timeval *tv, void *) noexcept {
  if (tv != nullptr) {
    tv->tv_sec  = g_wall_usec / 1000000;
    tv->tv_usec = g_wall_usec % 1000000;
  }
  return 0;
}

//////////////////////////////////////////////////////////////////////
// fake loop + timer
//////////////////////////////////////////////////////////////////////
class FakeLoop;

class FakeTimer : public tbox::event::TimerEvent {
  public:
    FakeTimer(FakeLoop *loop, const std::string &what) : TimerEvent(what), loop_(loop) { }

    bool initialize(const std::chrono::milliseconds &span, Mode mode) override {
      enabled = false;  /* like TimerEventImpl::initialize(): disable() first */
      span_ms = span.count(); mode_ = mode; ++init_count;
      return true;
    }
    void setCallback(CallbackFunc &&cb) override { cb_ = std::move(cb); }
    bool isEnabled() const override { return enabled; }
    bool enable() override {
      if (!enabled) { enabled = true; armed_at_mono = g_mono_usec; armed_at_wall = g_wall_usec; }
      return true;
    }
    bool disable() override { enabled = false; return true; }
    tbox::event::Loop* getLoop() const override;

    bool fire() {
      if (!enabled) return false;
      if (mode_ == Mode::kOneshot) enabled = false;
      if (cb_) cb_();
      return true;
    }

    int64_t span_ms = -1;
    int64_t armed_at_mono = 0;    //!< monotonic clock when the timer was started
    int64_t armed_at_wall = 0;    //!< wall clock at that moment
    int64_t deadline_mono() const { return armed_at_mono + span_ms * 1000; }
    //! wall-clock reading at which the timer will expire if the wall clock is not touched any more
    int64_t expiry_wall() const { return g_wall_usec + (deadline_mono() - g_mono_usec); }
    bool enabled = false;
    int init_count = 0;

  private:
    FakeLoop *loop_;
    Mode mode_ = Mode::kOneshot;
    CallbackFunc cb_;
};

class FakeLoop : public tbox::event::Loop {
  public:
    void runLoop(Mode) override { }
    void exitLoop(const std::chrono::milliseconds &) override { }
    bool isInLoopThread() override { return true; }
    bool isRunning() const override { return true; }
    RunId runInLoop(Func &&f, const std::string &) override { f(); return 1; }
    RunId runInLoop(const Func &f, const std::string &) override { f(); return 1; }
    RunId runNext(Func &&f, const std::string &) override { f(); return 1; }
    RunId runNext(const Func &f, const std::string &) override { f(); return 1; }
    RunId run(Func &&f, const std::string &) override { f(); return 1; }
    RunId run(const Func &f, const std::string &) override { f(); return 1; }
    bool  cancel(RunId) override { return false; }
    tbox::event::FdEvent* newFdEvent(const std::string &) override { return nullptr; }
    tbox::event::TimerEvent* newTimerEvent(const std::string &what) override {
      last_timer = new FakeTimer(this, what);   //! owned (deleted) by the alarm
      return last_timer;
    }
    tbox::event::SignalEvent* newSignalEvent(const std::string &) override { return nullptr; }
    tbox::event::Stat getStat() const override { return tbox::event::Stat(); }
    void resetStat() override { }
    WaterLine& water_line() override { return wl_; }
    void cleanup() override { }

    FakeTimer *last_timer = nullptr;

  private:
    WaterLine wl_;
};

inline tbox::event::Loop* FakeTimer::getLoop() const { return loop_; }

static std::vector<FakeTimer*> g_timers;

//! let `usec` micro-seconds pass on both clocks; timers expire `early_usec` before their
//! dead line (0: exactly on time; >0 models a monotonic clock that runs ahead of the wall clock)
static inline void RunFor(int64_t usec, int64_t early_usec = 0) {
  const int64_t until_mono = g_mono_usec + usec;
  for (;;) {
    FakeTimer *next = nullptr;
    for (auto t : g_timers)
      if (t->enabled && (next == nullptr || t->deadline_mono() < next->deadline_mono()))
        next = t;
    if (next == nullptr || next->deadline_mono() - early_usec > until_mono)
      break;
    int64_t at = next->deadline_mono() - early_usec;
    if (at > g_mono_usec)
      Advance(at - g_mono_usec);
    next->fire();
  }
  if (until_mono > g_mono_usec)
    Advance(until_mono - g_mono_usec);
}

//////////////////////////////////////////////////////////////////////
static int g_fail = 0;
#define CHECK(cond, ...) \
  do { if (!(cond)) { if (++g_fail <= 25) { printf("FAIL %s:%d  %s  | ", __FILE__, __LINE__, #cond); printf(__VA_ARGS__); printf("\n"); } \
                      else if (g_fail == 26) printf("... (further failures not printed)\n"); } } while (0)

#endif
