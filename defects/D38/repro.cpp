// D38: after the wall clock was stepped back over an instant that has fired, disable() + enable() arms the alarm for the instant after the one that fired last
// instead of the earliest instant after the current time (the instants in between are skipped).
#include "fake_env.h"
#include <tbox/alarm/weekly_alarm.h>
#include <cstdio>

using namespace tbox::alarm;

int main() {
  FakeLoop loop;
  int fired = 0;
  WeeklyAlarm daily(&loop);
  FakeTimer *timer = loop.last_timer;
  g_timers.push_back(timer);
  daily.setTimezone(0);
  daily.initialize(10 * 3600, "1111111");           // every day 10:00:00 UTC
  daily.setCallback([&] { ++fired; });
  SetWall(4 * 86400 + 9 * 3600 + 59 * 60, 0);       // 09:59:00
  daily.enable();
  RunFor(2 * 60 * 1000000LL);                        // 10:01:00, the alarm has fired once
  daily.disable();
  StepWall(-700 * 1000000LL);                        // the clock is corrected: it is 09:49:20 now
  daily.enable();
  uint32_t now = static_cast<uint32_t>(g_wall_usec / 1000000);
  uint32_t remain = daily.remainSeconds();
  std::printf("fired %d time(s); re-enabled at 09:49:20: the alarm waits %u s (10:00 today is %u s away)\n", fired, remain, 4 * 86400 + 10 * 3600 - now);
  int bad = (remain != 4 * 86400 + 10 * 3600 - now);
  std::printf(bad ? "FAIL: the alarm skips today's 10:00\n" : "PASS\n");
  return bad;
}
