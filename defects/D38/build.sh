#!/bin/sh
# usage: ./build.sh <source-tree>   (builds ./repro from the alarm sources of that tree; base library from /repo/_build)
set -e
TREE=${1:-/repo}
HERE=$(cd "$(dirname "$0")" && pwd)
[ -e "$TREE/modules/tbox" ] || ln -s . "$TREE/modules/tbox" 2>/dev/null || true
FLAGS="-std=gnu++11 -O1 -g -DNDEBUG -DMODULE_ID=\"tbox.alarm\" -DTBOX_VERSION_MAJOR=1 -DTBOX_VERSION_MINOR=12 -DTBOX_VERSION_REVISION=5 -I$TREE/modules -I$TREE/3rd-party -pthread"
A=$TREE/modules/alarm
g++ $FLAGS -I"$HERE" -o "$HERE/repro" "$HERE/repro.cpp" $A/alarm.cpp $A/weekly_alarm.cpp $A/oneshot_alarm.cpp $A/cron_alarm.cpp $A/workday_alarm.cpp $A/workday_calendar.cpp \
    $A/3rd-party/ccronexpr.cpp /repo/_build/modules/base/libtbox_base.a -lpthread -lrt -ldl
