// A response whose id is 4294967297 (= 2^32 + 1) must be ignored as an unknown id; it must not complete pending request 1.
#include <cstddef>
#include <tbox/base/json.hpp>
#include <tbox/event/loop.h>
#include <tbox/jsonrpc/rpc.h>
#include <tbox/jsonrpc/protos/raw_stream_proto.h>
#include <cstdio>
#include <string>
using namespace tbox; using namespace tbox::jsonrpc;
int main() {
    event::Loop *loop = event::Loop::New();
    { Rpc rpc(loop); RawStreamProto proto; rpc.initialize(&proto, 5);
      std::string sent; proto.setSendCallback([&](const void *p, size_t n) { sent.assign((const char*)p, n); });
      int calls = 0; std::string got;
      rpc.request("ping", Json(), [&](int errcode, const Json &r) { ++calls; got = "errcode=" + std::to_string(errcode) + " result=" + r.dump(); });
      printf("sent: %s\n", sent.c_str());        // {"id":1,...}
      const std::string bogus = R"({"jsonrpc":"2.0","id":4294967297,"result":"bogus"})";
      proto.onRecvData(bogus.data(), bogus.size());
      printf("after the response with id 4294967297: callback calls=%d %s\n", calls, got.c_str());
      int bad = calls != 0;
      puts(bad ? "FAIL: an unknown-id response completed pending request 1" : "PASS");
      rpc.cleanup(); delete loop; return bad; }
}
