// D31: Alarm::disable() left the armed-but-unfired instant in target_utc_sec_; the next enable() searched from
// max(now, that instant) and "strictly after" pushed the alarm to the following day: the instant was skipped.
#include <tbox/event/loop.h>
#include <tbox/event/timer_event.h>
#include <tbox/alarm/oneshot_alarm.h>
#include <tbox/alarm/weekly_alarm.h>
#include <sys/time.h>
#include <cstdio>
using namespace tbox;
int main() {
    auto loop = event::Loop::New();
    struct timeval tv; gettimeofday(&tv, nullptr);
    int sod = (tv.tv_sec + 2) % 86400;          // two seconds from now, time zone offset 0
    int fired_one = 0, fired_week = 0;
    alarm::OneshotAlarm one(loop);
    one.setTimezone(0);
    one.initialize(sod);
    one.setCallback([&] { ++fired_one; });
    alarm::WeeklyAlarm week(loop);
    week.setTimezone(0);
    week.initialize(sod, "1111111");
    week.setCallback([&] { ++fired_week; });
    one.enable();  week.enable();
    printf("armed:            oneshot remain=%us weekly remain=%us\n", one.remainSeconds(), week.remainSeconds());
    one.disable(); week.disable();
    one.enable();  week.enable();               // the same instant is still in the future
    unsigned r1 = one.remainSeconds(), r2 = week.remainSeconds();
    printf("disable+enable:   oneshot remain=%us weekly remain=%us\n", r1, r2);
    auto t = loop->newTimerEvent();
    t->initialize(std::chrono::seconds(4), event::Event::Mode::kOneshot);
    t->setCallback([&] { loop->exitLoop(); });
    t->enable();
    loop->runLoop();
    printf("after 4 s:        oneshot fired %d time(s), weekly fired %d time(s)\n", fired_one, fired_week);
    bool ok = fired_one == 1 && fired_week == 1 && r1 <= 2 && r2 <= 2;
    printf("%s\n", ok ? "PASS: the instant two seconds ahead fired once after disable()+enable()" :
                        "FAIL: the instant was skipped (next trigger moved to the following day)");
    one.cleanup(); week.cleanup();
    delete t; delete loop;
    return ok ? 0 : 1;
}
