// D30: util::base64::Decode(const char*, size_t, void*, size_t) writes one byte past an exactly sufficient output buffer
// whenever the input ends with padding.  Build with ASan (see README.md).
#include <tbox/util/base64.h>
#include <cstdio>
#include <cstdlib>
#include <cstring>
int main() {
    using namespace tbox::util::base64;
    const char *in = "QQ==";                                  // one byte: 'A'
    size_t need = DecodeLength(in);                           // 1
    unsigned char *heap = static_cast<unsigned char*>(malloc(need + 1));
    heap[need] = 0x5a;                                        // canary just behind the advertised size
    size_t n = Decode(in, strlen(in), heap, need);            // capacity exactly DecodeLength()
    printf("DecodeLength=%zu returned=%zu byte0=%c canary=0x%02x (%s)\n", need, n, heap[0], heap[need], heap[need] == 0x5a ? "intact" : "OVERWRITTEN");
    int bad = heap[need] != 0x5a;
    free(heap);
    unsigned char *exact = static_cast<unsigned char*>(malloc(2));  // "QUI=" -> 2 bytes; ASan reports the write to exact[2]
    Decode("QUI=", 4, exact, 2);
    free(exact);
    return bad;
}
