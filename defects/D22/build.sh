#!/bin/sh
# usage: build.sh <tree> [<build-dir>] [<output>]
#   <tree>       source tree (e.g. /repo, or a worktree)
#   <build-dir>  cmake build dir holding modules/<m>/libtbox_<m>.a (default: <tree>/_build, else <tree>/_b)
#   <output>     binary to produce (default: ./repro next to this script)
set -e
HERE=$(cd "$(dirname "$0")" && pwd)
TREE=${1:?usage: build.sh <tree> [<build-dir>] [<output>]}
BLD=${2:-}
if [ -z "$BLD" ]; then
    if [ -d "$TREE/_build/modules" ]; then BLD=$TREE/_build; else BLD=$TREE/_b; fi
fi
OUT=${3:-$HERE/repro}

LIBS=""
for m in http network eventx event util base; do
    LIBS="$LIBS $BLD/modules/$m/libtbox_$m.a"
done

g++ -std=gnu++11 -O1 -g -DNDEBUG -DMODULE_ID='"x"' \
    -I"$TREE/modules" -I"$TREE/3rd-party" -pthread \
    "$HERE/repro.cpp" -o "$OUT" $LIBS -lpthread -ldl
echo "built $OUT (libs from $BLD)"
