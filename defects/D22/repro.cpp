/*
 * D22 reproduction: HTTP server loses / truncates the response to a request that
 * asked for the connection to be closed.
 *
 * Uses the real tbox http::server::Server on a loopback TCP port, driven by an
 * event loop in the main thread.  A blocking raw-socket client runs in a second
 * thread and executes the scenarios one after another.  alarm() is the watchdog.
 *
 * Scenarios (each prints PASS/FAIL, exit status = number of failed scenarios):
 *   late_keepalive   control: handler answers 50 ms later, no "close"      -> response delivered
 *   late_close       (1) same, with "Connection: close"                     -> response delivered, then EOF
 *   late_http10      (1) same, HTTP/1.0 without keep-alive                  -> response delivered, then EOF
 *   big_keepalive    control: 16 MiB body answered at once, no "close"     -> whole body delivered
 *   big_close        (2) same, with "Connection: close"                     -> whole body delivered, then EOF
 *   pipeline_close   A(keep-alive, answered late) B(close, answered at once) C(pipelined after B)
 *                    -> A then B on the wire, C never reaches a handler, then EOF
 *   trailing_data    close request, 20 ms later more bytes on the same connection, handler answers late
 *                    -> response delivered, trailing request never handled, then EOF
 *   peer_abort       close request, client closes before the late handler answers
 *                    -> server cleans up, no crash, still serves the next connection
 */
#include <arpa/inet.h>
#include <netinet/in.h>
#include <netinet/tcp.h>
#include <signal.h>
#include <sys/socket.h>
#include <sys/time.h>
#include <unistd.h>

#include <atomic>
#include <chrono>
#include <cstdarg>
#include <cstdio>
#include <cstdlib>
#include <cstring>
#include <functional>
#include <list>
#include <string>
#include <thread>

#include <tbox/base/log_output.h>
#include <tbox/event/loop.h>
#include <tbox/event/timer_event.h>
#include <tbox/network/sockaddr.h>
#include <tbox/http/server/server.h>
#include <tbox/http/server/context.h>

using namespace tbox;
using namespace tbox::http;
using namespace tbox::http::server;
using Clock = std::chrono::steady_clock;

namespace {

const size_t kBigSize = 16u << 20;

//! things the handlers postpone: run `func` at/after `when` (loop thread only)
struct Pending { Clock::time_point when; std::function<void()> func; };
std::list<Pending> g_pending;

std::atomic<int> g_handled_total(0);
std::atomic<int> g_handled_never(0);  //!< handler invocations for "/never": must stay 0

void Later(int ms, std::function<void()> f)
{
    g_pending.push_back(Pending{ Clock::now() + std::chrono::milliseconds(ms), std::move(f) });
}

void Handler(ContextSptr ctx, const NextFunc &)
{
    ++g_handled_total;
    const std::string path = ctx->req().url.path;
    ctx->res().status_code = StatusCode::k200_OK;

    if (path == "/late") {          //! answer 50 ms later by keeping the context alive
        Later(50, [ctx] { ctx->res().body = "late-ok"; });
    } else if (path == "/later") {  //! 120 ms
        Later(120, [ctx] { ctx->res().body = "later-ok"; });
    } else if (path == "/big") {    //! answer at once, 16 MiB
        std::string &b = ctx->res().body;
        b.resize(kBigSize);
        for (size_t i = 0; i < kBigSize; ++i)
            b[i] = static_cast<char>('a' + (i % 23));
    } else if (path == "/now") {
        ctx->res().body = "now-ok";
    } else if (path == "/never") {
        ++g_handled_never;
        ctx->res().body = "never";
    } else {
        ctx->res().status_code = StatusCode::k404_NotFound;
    }
}

//////////////////////////////////////////////////////////////////////////////
// blocking client
//////////////////////////////////////////////////////////////////////////////

uint16_t g_port = 0;

int Connect()
{
    int fd = ::socket(AF_INET, SOCK_STREAM, 0);
    struct sockaddr_in a; memset(&a, 0, sizeof(a));
    a.sin_family = AF_INET; a.sin_port = htons(g_port); a.sin_addr.s_addr = htonl(INADDR_LOOPBACK);
    if (::connect(fd, (struct sockaddr*)&a, sizeof(a)) != 0) { perror("connect"); ::close(fd); return -1; }
    struct timeval tv = { 5, 0 };   //! per-read watchdog
    setsockopt(fd, SOL_SOCKET, SO_RCVTIMEO, &tv, sizeof(tv));
    int one = 1;
    setsockopt(fd, IPPROTO_TCP, TCP_NODELAY, &one, sizeof(one));
    return fd;
}

bool SendAll(int fd, const std::string &s)
{
    size_t off = 0;
    while (off < s.size()) {
        ssize_t n = ::send(fd, s.data() + off, s.size() - off, MSG_NOSIGNAL);
        if (n <= 0) return false;
        off += n;
    }
    return true;
}

enum class End { kEof, kTimeout, kError, kEnough };
const char* ToStr(End e) {
    switch (e) { case End::kEof: return "EOF"; case End::kTimeout: return "TIMEOUT";
                 case End::kError: return "ERROR"; default: return "ENOUGH"; }
}

//! read until EOF/timeout/error, or until `enough` bytes have been received (0 = until EOF)
End ReadSome(int fd, std::string &out, size_t enough)
{
    static char buf[1 << 16];
    for (;;) {
        if (enough != 0 && out.size() >= enough) return End::kEnough;
        ssize_t n = ::recv(fd, buf, sizeof(buf), 0);
        if (n > 0) out.append(buf, n);
        else if (n == 0) return End::kEof;
        else if (errno == EAGAIN || errno == EWOULDBLOCK) return End::kTimeout;
        else if (errno == EINTR) continue;
        else return End::kError;
    }
}

//! one parsed response taken from the front of `wire`
struct Res { bool ok = false; int status = 0; size_t clen = 0; std::string body; };

Res TakeResponse(std::string &wire)
{
    Res r;
    size_t he = wire.find("\r\n\r\n");
    if (he == std::string::npos) return r;
    std::string head = wire.substr(0, he + 2);
    if (sscanf(head.c_str(), "HTTP/1.%*d %d", &r.status) != 1) return r;
    size_t p = head.find("Content-Length:");
    if (p == std::string::npos) return r;
    r.clen = strtoul(head.c_str() + p + 15, nullptr, 10);
    if (wire.size() < he + 4 + r.clen) {  //! truncated
        r.body = wire.substr(he + 4);
        wire.clear();
        return r;
    }
    r.body = wire.substr(he + 4, r.clen);
    wire.erase(0, he + 4 + r.clen);
    r.ok = true;
    return r;
}

std::string Req(const char *path, const char *ver, const char *conn)
{
    //! Content-Length is given explicitly: without it the request parser takes everything that
    //! follows the head as the body, which would swallow pipelined requests
    std::string s = std::string("GET ") + path + " HTTP/" + ver + "\r\nHost: x\r\nContent-Length: 0\r\n";
    if (conn) s += std::string("Connection: ") + conn + "\r\n";
    return s + "\r\n";
}

int g_failed = 0;
void Verdict(const char *name, bool pass, const std::string &detail)
{
    printf("%-16s %s  %s\n", name, pass ? "PASS" : "FAIL", detail.c_str());
    fflush(stdout);
    if (!pass) ++g_failed;
}

bool BigBodyOk(const std::string &b)
{
    if (b.size() != kBigSize) return false;
    for (size_t i = 0; i < b.size(); ++i)
        if (b[i] != static_cast<char>('a' + (i % 23))) return false;
    return true;
}

std::string Fmt(const char *fmt, ...) __attribute__((format(printf, 1, 2)));
std::string Fmt(const char *fmt, ...)
{
    char b[512]; va_list ap; va_start(ap, fmt); vsnprintf(b, sizeof(b), fmt, ap); va_end(ap); return b;
}

//! a single request whose response must be `body`; close_expected: EOF must follow
void Single(const char *name, const std::string &req, const std::string &body, bool close_expected, bool big = false)
{
    int fd = Connect();
    if (fd < 0) return Verdict(name, false, "connect failed");
    SendAll(fd, req);

    std::string wire;
    End e;
    if (close_expected) {
        e = ReadSome(fd, wire, 0);
    } else {
        //! keep-alive: read the head first, then exactly Content-Length bytes
        size_t want = 0;
        for (;;) {
            e = ReadSome(fd, wire, wire.size() + 1);
            if (e != End::kEnough) break;
            size_t he = wire.find("\r\n\r\n");
            if (he == std::string::npos) continue;
            size_t p = wire.find("Content-Length:");
            want = he + 4 + (p == std::string::npos ? 0 : strtoul(wire.c_str() + p + 15, nullptr, 10));
            break;
        }
        if (e == End::kEnough)
            e = ReadSome(fd, wire, want);
    }
    ::close(fd);

    size_t wire_size = wire.size();
    Res r = TakeResponse(wire);
    bool body_ok = r.ok && r.status == 200 && (big ? BigBodyOk(r.body) : r.body == body);
    bool end_ok = close_expected ? (e == End::kEof) : (e == End::kEnough);
    Verdict(name, body_ok && end_ok && wire.empty(),
            Fmt("read ended with %s, wire=%zu bytes, status=%d, content-length=%zu, body received=%zu",
                ToStr(e), wire_size, r.status, r.clen, r.body.size()));
}

void PipelineClose()
{
    const char *name = "pipeline_close";
    int fd = Connect();
    if (fd < 0) return Verdict(name, false, "connect failed");
    int never0 = g_handled_never;
    //! A: keep-alive, answered after 120 ms.  B: close, answered at once.  C: must be discarded.
    SendAll(fd, Req("/later", "1.1", nullptr) + Req("/now", "1.1", "close") + Req("/never", "1.1", nullptr));
    std::string wire;
    End e = ReadSome(fd, wire, 0);
    ::close(fd);
    size_t wire_size = wire.size();
    Res a = TakeResponse(wire);
    Res b = TakeResponse(wire);
    bool pass = e == End::kEof && a.ok && a.body == "later-ok" && b.ok && b.body == "now-ok" &&
                wire.empty() && g_handled_never == never0;
    Verdict(name, pass, Fmt("read ended with %s, wire=%zu bytes, first='%s', second='%s', leftover=%zu, /never handled %d times",
                            ToStr(e), wire_size, a.body.c_str(), b.body.c_str(), wire.size(), g_handled_never - never0));
}

void TrailingData()
{
    const char *name = "trailing_data";
    int fd = Connect();
    if (fd < 0) return Verdict(name, false, "connect failed");
    int never0 = g_handled_never;
    SendAll(fd, Req("/late", "1.1", "close"));
    std::this_thread::sleep_for(std::chrono::milliseconds(20));
    SendAll(fd, Req("/never", "1.1", nullptr));     //! arrives in a later loop pass, before the answer
    std::string wire;
    End e = ReadSome(fd, wire, 0);
    ::close(fd);
    size_t wire_size = wire.size();
    Res a = TakeResponse(wire);
    //! the connection may end with EOF or with a reset (the server closes while unread input may be pending);
    //! what matters: the response was delivered completely first, nothing follows it, /never was not handled
    bool pass = (e == End::kEof || e == End::kError) && a.ok && a.body == "late-ok" && wire.empty() && g_handled_never == never0;
    Verdict(name, pass, Fmt("read ended with %s, wire=%zu bytes, body='%s', leftover=%zu, /never handled %d times",
                            ToStr(e), wire_size, a.body.c_str(), wire.size(), g_handled_never - never0));
}

void PeerAbort()
{
    const char *name = "peer_abort";
    int fd = Connect();
    if (fd < 0) return Verdict(name, false, "connect failed");
    SendAll(fd, Req("/late", "1.1", "close"));
    std::this_thread::sleep_for(std::chrono::milliseconds(10));
    ::close(fd);                                                     //! gone before the handler answers
    std::this_thread::sleep_for(std::chrono::milliseconds(150));    //! let the late handler complete

    //! same again, but keep-alive request (record must be cleaned up as well)
    fd = Connect();
    if (fd < 0) return Verdict(name, false, "connect failed (2)");
    SendAll(fd, Req("/late", "1.1", nullptr));
    std::this_thread::sleep_for(std::chrono::milliseconds(10));
    ::close(fd);
    std::this_thread::sleep_for(std::chrono::milliseconds(150));

    //! the server must still be alive and serving
    fd = Connect();
    if (fd < 0) return Verdict(name, false, "server gone");
    SendAll(fd, Req("/now", "1.1", "close"));
    std::string wire;
    End e = ReadSome(fd, wire, 0);
    ::close(fd);
    Res a = TakeResponse(wire);
    Verdict(name, e == End::kEof && a.ok && a.body == "now-ok", Fmt("follow-up request: %s, body='%s'", ToStr(e), a.body.c_str()));
}

void ClientMain(event::Loop *loop)
{
    Single("late_keepalive", Req("/late", "1.1", nullptr), "late-ok", false);
    Single("late_close",     Req("/late", "1.1", "close"), "late-ok", true);
    Single("late_http10",    Req("/late", "1.0", nullptr), "late-ok", true);
    Single("big_keepalive",  Req("/big",  "1.1", nullptr), "", false, true);
    Single("big_close",      Req("/big",  "1.1", "close"), "", true,  true);
    PipelineClose();
    TrailingData();
    PeerAbort();
    loop->runInLoop([loop] { loop->exitLoop(); });
}

uint16_t PickPort()
{
    int fd = ::socket(AF_INET, SOCK_STREAM, 0);
    struct sockaddr_in a; memset(&a, 0, sizeof(a));
    a.sin_family = AF_INET; a.sin_addr.s_addr = htonl(INADDR_LOOPBACK);
    ::bind(fd, (struct sockaddr*)&a, sizeof(a));
    socklen_t l = sizeof(a);
    getsockname(fd, (struct sockaddr*)&a, &l);
    ::close(fd);
    return ntohs(a.sin_port);
}

void OnAlarm(int) { static const char m[] = "WATCHDOG: timed out\n"; (void)!write(2, m, sizeof(m) - 1); _exit(99); }

}

int main()
{
    signal(SIGPIPE, SIG_IGN);
    signal(SIGALRM, OnAlarm);
    alarm(120);

    if (getenv("D22_LOG"))
        LogOutput_Enable();

    g_port = PickPort();
    event::Loop *loop = event::Loop::New();

    //! drives the postponed handler completions
    event::TimerEvent *tick = loop->newTimerEvent();
    tick->initialize(std::chrono::milliseconds(5), event::Event::Mode::kPersist);
    tick->setCallback([] {
        auto now = Clock::now();
        for (auto it = g_pending.begin(); it != g_pending.end(); ) {
            if (it->when <= now) {
                auto f = std::move(it->func);
                it = g_pending.erase(it);
                f();    //! the lambda holding the ContextSptr is destroyed right after -> response committed
            } else
                ++it;
        }
    });
    tick->enable();

    int rc = 0;
    {
        Server srv(loop);
        if (!srv.initialize(network::SockAddr::FromString("127.0.0.1:" + std::to_string(g_port)), 16) ||
            !srv.start()) {
            fprintf(stderr, "server start failed\n");
            return 98;
        }
        srv.use(Handler);

        std::thread client(ClientMain, loop);
        loop->runLoop();
        client.join();

        g_pending.clear();
        srv.cleanup();
        rc = g_failed;
    }
    tick->disable();
    delete tick;
    delete loop;

    printf("%s (%d scenario(s) failed, %d requests handled)\n", rc == 0 ? "ALL PASS" : "FAILED", rc, g_handled_total.load());
    return rc;
}
