// An Rpc that was cleaned up and initialised again must still time out unanswered requests.
#include <cstddef>
#include <tbox/base/json.hpp>
#include <tbox/event/loop.h>
#include <tbox/event/timer_event.h>
#include <tbox/jsonrpc/rpc.h>
#include <tbox/jsonrpc/protos/raw_stream_proto.h>
#include <cstdio>
using namespace tbox; using namespace tbox::jsonrpc;
int main() {
    event::Loop *loop = event::Loop::New();
    int calls = 0, err = 0;
    {
        Rpc rpc(loop); RawStreamProto proto;
        proto.setSendCallback([](const void *, size_t) {});
        rpc.initialize(&proto, 1);
        rpc.cleanup();
        rpc.initialize(&proto, 1);      // second life of the same object
        rpc.request("ping", Json(), [&](int errcode, const Json &) { ++calls; err = errcode; });
        loop->exitLoop(std::chrono::milliseconds(3500));
        loop->runLoop();
        printf("after 3.5 s with a 1 s timeout: callback calls=%d errcode=%d\n", calls, err);
        rpc.cleanup();
    }
    delete loop;
    int bad = calls != 1;
    puts(bad ? "FAIL: the unanswered request was never completed with a timeout" : "PASS");
    return bad;
}
