// D36 — a composite action that finishes by its own time-out leaves its children running (C17)
#include <cstdio>
#include <tbox/event/loop.h>
#include <tbox/flow/actions/sequence_action.h>
#include <tbox/flow/actions/parallel_action.h>
#include <tbox/flow/actions/dummy_action.h>
using namespace tbox;
using namespace tbox::flow;

int main()
{
    setbuf(stdout, NULL);
    event::Loop *loop = event::Loop::New();
    int bad = 0;
    {
        SequenceAction seq(*loop);
        auto *a = new DummyAction(*loop);   // never finishes by itself
        int stops = 0;
        a->setStopCallback([&] { ++stops; });
        seq.addChild(a);
        seq.setTimeout(std::chrono::milliseconds(30));
        int finished = 0; bool result = true;
        seq.setFinishCallback([&](bool ok, const Action::Reason &, const Action::Trace &) { ++finished; result = ok; });
        seq.start();
        loop->exitLoop(std::chrono::milliseconds(100)); loop->runLoop();
        printf("sequence: state=%s finished=%d result=%s | child: state=%s stop-callbacks=%d\n", ToString(seq.state()).c_str(), finished, result ? "succ" : "fail",
               ToString(a->state()).c_str(), stops);
        if (a->isUnderway()) ++bad;
    }
    {
        ParallelAction par(*loop);
        auto *a = new DummyAction(*loop);
        auto *b = new DummyAction(*loop);
        par.addChild(a); par.addChild(b);
        par.setTimeout(std::chrono::milliseconds(30));
        par.start();
        loop->exitLoop(std::chrono::milliseconds(100)); loop->runLoop();
        printf("parallel: state=%s | children: %s, %s\n", ToString(par.state()).c_str(), ToString(a->state()).c_str(), ToString(b->state()).c_str());
        if (a->isUnderway() || b->isUnderway()) ++bad;
    }
    delete loop;
    if (bad) { printf("FAIL: the composite has finished (time-out) and its children are still running\n"); return 1; }
    printf("PASS\n");
    return 0;
}
