#!/bin/sh
# usage: build.sh <tree> <out>   (builds the flow module sources of <tree> against /repo/_build's event/util/base libraries)
T=${1:-/repo}; O=${2:-/var/tmp/d36_repro}
W=$(mktemp -d /var/tmp/d36.XXXXXX); mkdir -p $W/inc/tbox
for m in base util event flow; do ln -sfn $T/modules/$m $W/inc/tbox/$m; done
g++ -std=gnu++11 -g -O1 -I$W/inc -I$T/3rd-party -DMODULE_ID='"d36"' $(dirname $0)/repro.cpp $T/modules/flow/action.cpp $T/modules/flow/actions/assemble_action.cpp \
    $T/modules/flow/actions/parallel_action.cpp $T/modules/flow/actions/sequence_action.cpp $T/modules/flow/actions/dummy_action.cpp \
    /repo/_build/modules/event/libtbox_event.a /repo/_build/modules/util/libtbox_util.a /repo/_build/modules/base/libtbox_base.a -lpthread -ldl -o $O
rc=$?; rm -rf $W; exit $rc
