// D40 (recorded finding, not repaired): ccronexpr gives up when the next match lies more than four calendar years ahead.
// 2100 is not a leap year: after 2096-02-29 the next 29 February is in 2104, and from 2096-03-01 until the end of 2099
// cron_next() answers (time_t)-1 for an expression pinned to 29 February; CronAlarm::enable() then refuses to start.
#include <cstdio>
#include <ctime>
#include <cstring>
#include "ccronexpr.h"
int main() {
  cron_expr e; memset(&e, 0, sizeof e); const char *err = nullptr;
  cron_parse_expr("0 0 12 29 2 *", &e, &err);
  if (err) { printf("parse error: %s\n", err); return 2; }
  time_t from = 4102444769;   // 2099-12-31 23:59:29
  time_t got = cron_next(&e, from);
  printf("\"0 0 12 29 2 *\" after 2099-12-31 23:59:29 -> %ld (the next 29 February 12:00:00 is 4233729600, 2104-02-29)\n", (long)got);
  puts(got == 4233729600 ? "PASS" : "FAIL");
  return got == 4233729600 ? 0 : 1;
}
