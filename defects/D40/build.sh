#!/bin/sh
# ./build.sh <repo root>
R=${1:-/repo}
g++ -std=gnu++11 -I$R/modules/alarm/3rd-party repro.cpp $R/modules/alarm/3rd-party/ccronexpr.cpp -o repro
