// MD5 of a message >= 512 MiB given in ONE update() vs. the same message in two updates (and vs. the RFC 1321 value computed by the split form)
#include <tbox/crypto/md5.h>
#include <cstdio>
#include <cstdlib>
#include <cstring>
#include <cstdint>
using tbox::crypto::MD5;
static void hex(const uint8_t d[16], char *out) { for (int i = 0; i < 16; ++i) sprintf(out + 2 * i, "%02x", d[i]); }
int main() {
    const size_t N = (size_t)1 << 29;   // 512 MiB
    uint8_t *buf = (uint8_t*)calloc(N, 1);
    if (!buf) { puts("no memory"); return 2; }
    uint8_t d1[16], d2[16]; char h1[33], h2[33];
    { MD5 m; m.update(buf, N); m.finish(d1); }
    { MD5 m; m.update(buf, N / 2); m.update(buf + N / 2, N / 2); m.finish(d2); }
    hex(d1, h1); hex(d2, h2);
    printf("one update : %s\ntwo updates: %s\n", h1, h2);
    // reference for 2^29 zero bytes (md5sum of 512 MiB of zeros): aa559b4e3523a6c931f08f4df52d58f2
    printf("reference  : aa559b4e3523a6c931f08f4df52d58f2\n");
    int bad = strcmp(h1, h2) != 0;
    puts(bad ? "FAIL: digest depends on how the message is split" : "PASS");
    return bad;
}
