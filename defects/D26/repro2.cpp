// MD5::update with a single 4 GiB + 100 byte message: the 32-bit block counter wraps
#include <tbox/crypto/md5.h>
#include <cstdio>
#include <cstdlib>
#include <cstring>
#include <cstdint>
#include <unistd.h>
#include <signal.h>
using tbox::crypto::MD5;
static void on_alarm(int) { const char m[] = "FAIL: MD5::update did not return within 60 s (block loop never ends)\n"; write(1, m, sizeof(m) - 1); _exit(1); }
static void on_segv(int) { const char m[] = "FAIL: MD5::update read out of bounds (SIGSEGV)\n"; write(1, m, sizeof(m) - 1); _exit(1); }
int main() {
    const size_t N = ((size_t)1 << 32) + 100;
    uint8_t *buf = (uint8_t*)calloc(N, 1);
    if (!buf) { puts("no memory"); return 2; }
    signal(SIGALRM, on_alarm); signal(SIGSEGV, on_segv); alarm(60);
    uint8_t d1[16], d2[16];
    { MD5 m; m.update(buf, N); m.finish(d1); }
    { MD5 m; size_t off = 0; while (off < N) { size_t n = (N - off > (1u << 28)) ? (1u << 28) : N - off; m.update(buf + off, n); off += n; } m.finish(d2); }
    int bad = memcmp(d1, d2, 16) != 0;
    puts(bad ? "FAIL: digest of one 4 GiB update differs from the chunked digest" : "PASS");
    return bad;
}
