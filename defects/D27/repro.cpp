// Buffer copy-assignment whose allocation fails: the destination must stay a usable (empty or unchanged) buffer.
#include <cstddef>
#include <tbox/util/buffer.h>
#include <new>
#include <cstddef>
#include <cstdio>
#include <cstdlib>
#include <cstring>
static int fail_next = 0;
void *operator new[](size_t n) {
    if (fail_next > 0 && --fail_next == 0) throw std::bad_alloc();
    void *p = malloc(n ? n : 1); if (!p) throw std::bad_alloc(); return p;
}
void operator delete[](void *p) noexcept { free(p); }
void operator delete[](void *p, size_t) noexcept { free(p); }
using tbox::util::Buffer;
int main() {
    Buffer src(16); src.append("0123456789", 10);
    Buffer dst(16); dst.append("abcdef", 6);
    bool thrown = false;
    fail_next = 1;
    try { dst = src; } catch (const std::bad_alloc &) { thrown = true; }
    fail_next = 0;
    printf("allocation failed during copy-assign: %d\n", thrown);
    printf("dst: readable=%zu writable=%zu readableBegin=%p writableBegin=%p\n", dst.readableSize(), dst.writableSize(), (void*)dst.readableBegin(), (void*)dst.writableBegin());
    int bad = 0;
    if (dst.readableSize() > 0 && dst.readableBegin() == nullptr) { puts("FAIL: readable bytes reported but no storage"); bad = 1; }
    if (dst.writableSize() > 0 && dst.writableBegin() == nullptr) { puts("FAIL: writable space reported but no storage"); bad = 1; }
    if (!bad) {
        dst.append("xyz", 3);        // must not write through a null pointer
        puts("PASS");
    }
    return bad;
}
