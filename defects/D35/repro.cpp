// D35 — flow::ParallelAction loses a child's result when pause() lands between the child's finish() and the delivery of its notification (C17)
#include <cstdio>
#include <tbox/event/loop.h>
#include <tbox/flow/actions/parallel_action.h>
#include <tbox/flow/actions/dummy_action.h>
using namespace tbox;
using namespace tbox::flow;

int main()
{
    setbuf(stdout, NULL);
    event::Loop *loop = event::Loop::New();
    int finished = 0;
    {
        ParallelAction par(*loop, ParallelAction::Mode::kAllFinish);
        auto *a = new DummyAction(*loop);
        auto *b = new DummyAction(*loop);
        par.addChild(a);
        par.addChild(b);
        par.setFinishCallback([&](bool, const Action::Reason &, const Action::Trace &) { ++finished; });

        par.start();
        a->emitFinish(true);        // child a is done; its notification to the parent is now queued in the loop
        par.pause();                // ... and the user pauses the tree before the loop gets to deliver it
        loop->exitLoop(std::chrono::milliseconds(20)); loop->runLoop();     // the notification is delivered to a paused parent
        par.resume();
        b->emitFinish(true);        // the other child finishes normally
        loop->exitLoop(std::chrono::milliseconds(20)); loop->runLoop();

        printf("children: a=%s b=%s, parallel state=%s, finish callback invoked %d time(s)\n",
               ToString(a->state()).c_str(), ToString(b->state()).c_str(), ToString(par.state()).c_str(), finished);
        par.stop();
    }
    delete loop;
    if (finished != 1) { printf("FAIL: both children have finished, the parallel action never does\n"); return 1; }
    printf("PASS\n");
    return 0;
}
