#!/bin/sh
T=${1:-/repo}; O=${2:-/var/tmp/d33_repro}
W=$(mktemp -d /var/tmp/d33.XXXXXX); mkdir -p $W/inc/tbox
for m in base util event jsonrpc; do ln -sfn $T/modules/$m $W/inc/tbox/$m; done
g++ -std=gnu++11 -g -O1 -I$W/inc -I$T/3rd-party -DMODULE_ID='"d33"' $(dirname $0)/repro.cpp $T/modules/jsonrpc/proto.cpp $T/modules/jsonrpc/protos/raw_stream_proto.cpp \
    $T/modules/jsonrpc/protos/header_stream_proto.cpp $T/modules/util/json.cpp /repo/_build/modules/util/libtbox_util.a /repo/_build/modules/base/libtbox_base.a -lpthread -ldl -o $O
rc=$?; rm -rf $W; exit $rc
