// D33: RawStreamProto::onRecvData() answers 0 ("need more data") for bytes that util::json::FindEndPos() has
// already classified as malformed (-1, unbalanced brackets): the error is never reported, a stream that starts
// with "}" blocks the connection for ever while the receive buffer grows.
#include <tbox/jsonrpc/protos/raw_stream_proto.h>
#include <tbox/jsonrpc/protos/header_stream_proto.h>
#include <tbox/base/json.hpp>
#include <cstdio>
#include <string>
using namespace tbox;
int main() {
    jsonrpc::RawStreamProto proto;
    int delivered = 0;
    proto.setRecvCallback([&] (int, const std::string &, const tbox::Json &) { ++delivered; },
                          [&] (int, int, const tbox::Json &) { ++delivered; });
    std::string buf = "}";                        // cannot be the start of any JSON text
    std::string good = R"({"jsonrpc":"2.0","id":1,"method":"ping"})";
    long ret = 0;
    for (int i = 0; i < 5; ++i) {                 // the transport keeps appending what arrives, as the examples do
        ret = proto.onRecvData(buf.data(), buf.size());
        printf("onRecvData(%zu bytes starting with '}') = %ld\n", buf.size(), ret);
        if (ret != 0) break;
        buf += good;
    }
    bool ok = ret < 0;
    printf("%s (delivered=%d)\n", ok ? "PASS: malformed input is reported through the return value" :
           "FAIL: malformed input is answered with 0 = need more data, for ever; valid requests queued behind it are never delivered", delivered);
    return ok ? 0 : 1;
}
