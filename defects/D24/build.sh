#!/bin/bash
# D24 reproduction build.
#
# usage: build.sh <tree> [out_dir] [libs_build_dir]
#   <tree>            cpp-tbox source tree whose modules/eventx/thread_pool.cpp is to be tested
#                     (unchanged HEAD -> defect reproduces; patched tree -> passes)
#   [out_dir]         where objects and binaries go         (default: /tmp/d24_repro_build)
#   [libs_build_dir]  cmake build dir with the prebuilt libs (default: /repo/_build); only event, util, base
#                     and the rest of eventx are taken from there, thread_pool.o is always compiled from <tree>
#                     and placed before the libraries so that it wins over the archive member.
#
# Produces:
#   $out/repro_hook    deterministic reproduction. Uses an INSTRUMENTED PRIVATE COPY of thread_pool.cpp:
#                        $out/thread_pool_hooked.cpp = <tree>/modules/eventx/thread_pool.cpp plus exactly
#                          (a) a global   std::function<void()> d24_retire_gap_hook;
#                          (b) a thread_local bool d24_retiring, set to true in the retire branch (next to the
#                              existing LogDbg("thread %u will exit, no more work.")), so that the hook does not
#                              depend on a library variable and works on the unpatched and the patched file alike;
#                          (c) one call   if (::d24_retiring && ::d24_retire_gap_hook) ::d24_retire_gap_hook();
#                              inserted immediately before the line  LogDbg("thread %u exit", ...)  of threadProc(),
#                              i.e. right after the `while (true)` loop: the retiring worker has just released
#                              d_->lock (the unique_lock of the critical section in which it decided to retire
#                              went out of scope at `break`) and has not yet re-locked to take itself out of
#                              threads_cabinet.
#                        All insertions are inside `#ifdef D24_REPRO_HOOK`. No library statement is changed,
#                        moved or removed; the hook merely holds the worker at a point where it holds no lock.
#                        The script prints the diff between the tree's file and the instrumented copy.
#                        The insertion point is located by text, so it also works for the patched file.
#   $out/repro_stress  non-instrumented stress version: thread_pool.cpp of <tree> compiled as is.
set -e
tree=${1:?usage: build.sh <tree> [out_dir] [libs_build_dir]}
out=${2:-/tmp/d24_repro_build}
libs=${3:-/repo/_build}
here=$(cd "$(dirname "$0")" && pwd)
mkdir -p "$out"

src=$tree/modules/eventx/thread_pool.cpp
hooked=$out/thread_pool_hooked.cpp

awk '
/^namespace tbox \{/ && !decl {
    print "#ifdef D24_REPRO_HOOK"
    print "#include <functional>"
    print "std::function<void()> d24_retire_gap_hook;   //! test-only, see /tmp/defects/D24/build.sh"
    print "static thread_local bool d24_retiring = false;  //! test-only: this worker took the retire branch"
    print "#endif"
    print ""
    decl = 1
}
/LogDbg\("thread %u will exit, no more work\.", thread_token.id\(\)\);/ && !mark {
    print "#ifdef D24_REPRO_HOOK"
    print "                ::d24_retiring = true;"
    print "#endif"
    mark = 1
}
/LogDbg\("thread %u exit", thread_token.id\(\)\);/ && !hook {
    print "#ifdef D24_REPRO_HOOK"
    print "    if (::d24_retiring && ::d24_retire_gap_hook) ::d24_retire_gap_hook();"
    print "#endif"
    hook = 1
}
{ print }
END { if (!decl || !mark || !hook) { print "instrumentation points not found" > "/dev/stderr"; exit 1 } }
' "$src" > "$hooked"

echo "== instrumentation (diff tree file -> private copy) =="
diff -u "$src" "$hooked" || true
echo "======================================================="

CXXFLAGS="-std=gnu++11 -O1 -g -DNDEBUG -DMODULE_ID=\"x\" -I$tree/modules -I$tree/3rd-party -pthread $EXTRA_CXXFLAGS"
LIBS="$libs/modules/eventx/libtbox_eventx.a $libs/modules/event/libtbox_event.a $libs/modules/util/libtbox_util.a $libs/modules/base/libtbox_base.a -lpthread -ldl"

# instrumented, deterministic
g++ $CXXFLAGS -DD24_REPRO_HOOK -I$tree/modules/eventx -c "$hooked" -o "$out/thread_pool_hooked.o"
g++ $CXXFLAGS -DD24_REPRO_HOOK -c "$here/repro.cpp" -o "$out/repro_hook.o"
g++ $CXXFLAGS "$out/repro_hook.o" "$out/thread_pool_hooked.o" $LIBS -o "$out/repro_hook"

# non-instrumented stress
g++ $CXXFLAGS -c "$src" -o "$out/thread_pool_plain.o"
g++ $CXXFLAGS -c "$here/repro.cpp" -o "$out/repro_stress.o"
g++ $CXXFLAGS "$out/repro_stress.o" "$out/thread_pool_plain.o" $LIBS -o "$out/repro_stress"

echo "built: $out/repro_hook  $out/repro_stress"
