/**
 * D24 auxiliary check (not the reproduction): cleanup() racing with retiring workers.
 *
 * Many rounds of: new ThreadPool, initialize(0, 3), submit 1..6 tiny tasks, spin a tiny random time,
 * cleanup(), delete. The loop runs in the main thread all the time, so "join and delete" callbacks of
 * retired workers run concurrently with everything else.
 * Checks: every task ran at most once; nothing runs after cleanup() returned; never more than
 * max_thread_num tasks at once. Meant to be run under ASan/LSan (double delete of a std::thread, leak of a
 * std::thread object, use after free of ThreadPool::Data by a worker that cleanup() did not wait for)
 * and under TSan. usage: cleanup_race [seconds=10] [max_spin=200000]
 */
#include <atomic>
#include <chrono>
#include <cstdio>
#include <cstdlib>
#include <memory>
#include <random>
#include <thread>
#include <vector>

#include <tbox/event/loop.h>
#include <tbox/eventx/thread_pool.h>

using namespace tbox::event;
using namespace tbox::eventx;
using std::chrono::steady_clock;

int main(int argc, char **argv)
{
    int seconds = argc > 1 ? atoi(argv[1]) : 10;
    int max_spin = argc > 2 ? atoi(argv[2]) : 200000;
    Loop *loop = Loop::New();

    unsigned long rounds = 0, errors = 0, ran = 0, dropped = 0;

    std::thread driver([&] {
        std::mt19937 rng(4242);
        auto t_end = steady_clock::now() + std::chrono::seconds(seconds);
        while (steady_clock::now() < t_end) {
            ++rounds;
            const int max_threads = 3;
            auto tp = new ThreadPool(loop);
            tp->initialize(0, max_threads);

            int n = 1 + rng() % 6;
            auto slots = std::make_shared<std::vector<std::atomic<int>>>(n);
            auto concurrent = std::make_shared<std::atomic<int>>(0);
            auto too_many = std::make_shared<std::atomic<int>>(0);
            for (int i = 0; i < n; ++i) {
                tp->execute([=] {
                    if (++*concurrent > max_threads) ++*too_many;
                    ++(*slots)[i];
                    --*concurrent;
                });
                volatile int spin = rng() % 400;
                while (spin > 0) --spin;
            }
            volatile int spin = rng() % max_spin;
            while (spin > 0) --spin;

            tp->cleanup();
            std::vector<int> after_cleanup(n);
            for (int i = 0; i < n; ++i) after_cleanup[i] = (*slots)[i];
            delete tp;
            std::this_thread::sleep_for(std::chrono::microseconds(rng() % 50));

            for (int i = 0; i < n; ++i) {
                int v = (*slots)[i];
                if (v > 1 || v != after_cleanup[i]) { ++errors; printf("round %lu task %d ran %d times (%d at cleanup)\n", rounds, i, v, after_cleanup[i]); }
                if (v) ++ran; else ++dropped;
            }
            if (*too_many) { ++errors; printf("round %lu: more than %d tasks at once\n", rounds, max_threads); }
        }
        loop->runInLoop([&] { loop->exitLoop(); });
    });

    loop->runLoop();
    driver.join();
    loop->exitLoop(std::chrono::milliseconds(50));
    loop->runLoop();
    delete loop;

    printf("rounds=%lu tasks_ran=%lu tasks_dropped_by_cleanup=%lu errors=%lu\n", rounds, ran, dropped, errors);
    return errors ? 1 : 0;
}
