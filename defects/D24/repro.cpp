/**
 * D24 - ThreadPool: a task accepted while the last worker is retiring is stranded.
 *
 * Two modes (selected at build time, see build.sh):
 *
 *  1. -DD24_REPRO_HOOK  ("repro_hook", deterministic)
 *     Linked against a private copy of modules/eventx/thread_pool.cpp that differs from the tree's file
 *     ONLY by a test hook:  a global std::function<void()> d24_retire_gap_hook which threadProc() calls
 *     after the `while (true)` loop when let_main_loop_join_me is set, i.e. after the retiring worker
 *     has left the critical section in which it took the decision to retire and before it does anything
 *     else. The hook changes no pool state; it only holds the worker at a point where it holds no lock,
 *     which the scheduler is free to do at any time anyway.
 *
 *     Scenario: ThreadPool::initialize(0, 1) (what tbox::main uses by default), event loop running in the
 *     main thread.
 *        step 1: execute(T1)            -> worker W1 is created, runs T1, finds no more work, retires
 *        step 2: W1 is parked in the hook. Another thread calls execute(T2), then W1 is released.
 *        step 3: nothing else is submitted. A watchdog timer fires 3 s later and looks whether T2 ran.
 *        step 4: (diagnostic) execute(T3) to show that a LATER execute() un-sticks T2.
 *     exit code 0: T2 ran in time. exit code 1: T2 was stranded (defect reproduced).
 *
 *  2. no macro  ("repro_stress", non-instrumented)
 *     Unmodified thread_pool.cpp. A driver thread does many rounds of: execute one tiny task, wait for it
 *     (<= 2 s), spin for a tiny random time, again. Counts the rounds in which the task did not run
 *     within 2 s although nothing else was using the pool. A stranded task is then kicked loose with an
 *     extra execute() so that the run can go on.
 *     exit code 0: no stranded task. exit code 1: at least one.
 *     usage: repro_stress [seconds=20] [max_spin=3000]
 */
#include <atomic>
#include <chrono>
#include <cstdio>
#include <cstdlib>
#include <functional>
#include <future>
#include <random>
#include <thread>

#include <tbox/event/loop.h>
#include <tbox/event/timer_event.h>
#include <tbox/eventx/thread_pool.h>

using namespace tbox;
using namespace tbox::event;
using namespace tbox::eventx;
using std::chrono::milliseconds;
using std::chrono::steady_clock;

namespace {
void PrintSnapshot(const char *what, const ThreadPool &tp)
{
    auto ss = tp.snapshot();
    size_t undo = 0;
    for (auto n : ss.undo_task_num)
        undo += n;
    printf("  [%s] snapshot: thread_num=%zu idle_thread_num=%zu waiting_tasks=%zu doing_tasks=%zu\n",
           what, ss.thread_num, ss.idle_thread_num, undo, ss.doing_task_num);
}
}

#ifdef D24_REPRO_HOOK

extern std::function<void()> d24_retire_gap_hook;   //! defined in the instrumented copy of thread_pool.cpp

int main()
{
    Loop *loop = Loop::New();
    ThreadPool *tp = new ThreadPool(loop);
    if (!tp->initialize(0, 1)) {
        printf("initialize fail\n");
        return 2;
    }

    std::atomic<bool> t1_done{false}, t2_done{false}, t3_done{false};
    std::atomic<bool> hook_used{false};
    std::atomic<int>  max_concurrent{0}, concurrent{0};
    int exit_code = 0;

    auto enter = [&] { int c = ++concurrent; int m = max_concurrent; while (c > m && !max_concurrent.compare_exchange_weak(m, c)) { } };
    auto leave = [&] { --concurrent; };

    TimerEvent *watchdog = loop->newTimerEvent("watchdog");
    TimerEvent *finish   = loop->newTimerEvent("finish");

    //! called by W1 (worker thread) in the gap, holding no lock
    d24_retire_gap_hook = [&] {
        if (hook_used.exchange(true))
            return;     //! only the first retirement is staged
        printf("step 2: W1 has decided to retire and has released the pool lock; it is parked in the gap\n");
        PrintSnapshot("gap, before execute(T2)", *tp);

        //! execute(T2) is issued from another thread while W1 stays parked here.
        //! (Not from the loop thread: the hook must not wait for the loop thread, because a retiring
        //!  worker's std::thread is joined by the loop thread, which may already be waiting for W1.)
        std::thread submitter([&] {
            auto token = tp->execute([&] { enter(); t2_done = true; leave(); });
            printf("        submitter thread: execute(T2) accepted, token id=%u\n", (unsigned)token.id());
            PrintSnapshot("gap, after execute(T2)", *tp);
            loop->runInLoop([&] { watchdog->enable(); });
        });
        submitter.join();
        //! W1 now goes on (unpatched: re-locks, removes itself from threads_cabinet) and exits
    };

    watchdog->initialize(milliseconds(3000), TimerEvent::Mode::kOneshot);
    watchdog->setCallback([&] {
        printf("step 3: watchdog, 3 s after execute(T2), no other execute() was issued\n");
        PrintSnapshot("watchdog", *tp);
        if (t2_done) {
            printf("        T2 was executed. OK\n");
        } else {
            printf("        T2 was NOT executed: accepted task is stranded with no worker. DEFECT REPRODUCED\n");
            exit_code = 1;
        }
        printf("step 4: execute(T3) (diagnostic: a later execute() creates a worker)\n");
        tp->execute([&] { enter(); t3_done = true; leave(); });
        finish->enable();
    });

    finish->initialize(milliseconds(500), TimerEvent::Mode::kOneshot);
    finish->setCallback([&] {
        PrintSnapshot("0.5 s after execute(T3)", *tp);
        printf("        T2 %s, T3 %s, max tasks running at once=%d (max_thread_num=1)\n",
               t2_done ? "executed" : "NOT executed", t3_done ? "executed" : "NOT executed", (int)max_concurrent);
        if (max_concurrent > 1)
            exit_code = 3;
        loop->exitLoop();
    });

    loop->runNext([&] {
        printf("step 1: execute(T1)\n");
        tp->execute([&] { enter(); t1_done = true; leave(); });
    });

    loop->runLoop();

    d24_retire_gap_hook = nullptr;
    tp->cleanup();
    loop->exitLoop(milliseconds(50));
    loop->runLoop();    //! let pending "join and delete" callbacks of retired workers run

    delete finish;
    delete watchdog;
    delete tp;
    delete loop;

    printf("RESULT: %s (exit %d)\n", exit_code == 0 ? "PASS" : "FAIL", exit_code);
    return exit_code;
}

#else   //! stress, non-instrumented

int main(int argc, char **argv)
{
    int seconds  = argc > 1 ? atoi(argv[1]) : 20;
    int max_spin = argc > 2 ? atoi(argv[2]) : 3000;

    Loop *loop = Loop::New();
    ThreadPool *tp = new ThreadPool(loop);
    if (!tp->initialize(0, 1)) {
        printf("initialize fail\n");
        return 2;
    }

    unsigned long rounds = 0, stranded = 0;
    int max_concurrent_seen = 0;

    std::thread driver([&] {
        std::mt19937 rng(12345);
        std::atomic<int> concurrent{0};
        auto t_end = steady_clock::now() + std::chrono::seconds(seconds);

        while (steady_clock::now() < t_end) {
            ++rounds;
            std::atomic<bool> done{false};
            tp->execute([&] {
                int c = ++concurrent;
                if (c > max_concurrent_seen) max_concurrent_seen = c;
                --concurrent;
                done = true;
            });

            auto deadline = steady_clock::now() + milliseconds(2000);
            while (!done && steady_clock::now() < deadline)
                ;   //! busy wait, to come back as fast as possible

            if (!done) {
                ++stranded;
                printf("round %lu: task not executed 2 s after execute()\n", rounds);
                PrintSnapshot("stranded", *tp);
                if (stranded >= 3)
                    t_end = steady_clock::now();    //! enough evidence
                //! kick it loose: a later execute() creates a worker, which runs both
                std::atomic<bool> kick_done{false};
                tp->execute([&] { kick_done = true; });
                while (!done || !kick_done)
                    std::this_thread::yield();
            }

            //! tiny random pause so that the next execute() lands at a random point of the worker's epilogue
            volatile int spin = rng() % (max_spin + 1);
            while (spin > 0) --spin;
        }
        loop->runInLoop([&] { loop->exitLoop(); });
    });

    loop->runLoop();
    driver.join();
    tp->cleanup();
    loop->exitLoop(milliseconds(50));
    loop->runLoop();    //! let pending "join and delete" callbacks of retired workers run

    delete tp;
    delete loop;

    printf("rounds=%lu stranded=%lu max_concurrent=%d\n", rounds, stranded, max_concurrent_seen);
    printf("RESULT: %s\n", stranded == 0 ? "PASS (no stranded task seen)" : "FAIL (stranded task seen without instrumentation)");
    return stranded == 0 ? 0 : 1;
}

#endif
