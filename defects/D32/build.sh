#!/bin/sh
# usage: build.sh <tree> <out>   (builds the alarm module sources of <tree> against /repo/_build's event/base libraries)
T=${1:-/repo}; O=${2:-/var/tmp/d32_repro}
W=$(mktemp -d /var/tmp/d32.XXXXXX); mkdir -p $W/inc/tbox
for m in base util event alarm; do ln -sfn $T/modules/$m $W/inc/tbox/$m; done
g++ -std=gnu++11 -g -O1 -I$W/inc -DMODULE_ID='"d32"' $(dirname $0)/repro.cpp $T/modules/alarm/alarm.cpp $T/modules/alarm/oneshot_alarm.cpp \
    $T/modules/alarm/weekly_alarm.cpp $T/modules/alarm/cron_alarm.cpp $T/modules/alarm/3rd-party/ccronexpr.cpp /repo/_build/modules/event/libtbox_event.a /repo/_build/modules/util/libtbox_util.a /repo/_build/modules/base/libtbox_base.a -lpthread -ldl -o $O
rc=$?; rm -rf $W; exit $rc
