// D32: CronAlarm::calculateNextLocalTimeSec() reports success with next = (time_t)-1 when ccronexpr finds no instant
// (e.g. "0 0 0 30 2 *": the 30th of February) -> enable() returns true and the alarm is "armed" for 2106-02-07.
#include <tbox/event/loop.h>
#include <tbox/alarm/cron_alarm.h>
#include <tbox/alarm/weekly_alarm.h>
#include <cstdio>
using namespace tbox;
int main() {
    auto loop = event::Loop::New();
    int rc = 0;
    {
        alarm::CronAlarm cron(loop);
        cron.setTimezone(0);
        bool init = cron.initialize("0 0 0 30 2 *");
        bool en = init && cron.enable();
        printf("cron   \"0 0 0 30 2 *\": initialize=%d enable=%d isEnabled=%d remainSeconds=%u\n", init, en, cron.isEnabled(), cron.remainSeconds());
        if (en) { printf("FAIL: an expression that matches no instant was armed (for epoch second 4294967295)\n"); rc = 1; }
        else    printf("PASS: no instant -> enable() refuses, like the sibling alarms\n");
        cron.cleanup();
    }
    {
        alarm::WeeklyAlarm w(loop);     // sibling: empty week mask has no instant either
        w.setTimezone(0);
        w.initialize(3600, "0000000");
        printf("weekly \"0000000\":      enable=%d (reference behaviour of a sibling with no matching instant)\n", w.enable());
        w.cleanup();
    }
    delete loop;
    return rc;
}
