#!/usr/bin/env python3
"""one-off differential run of the real ccronexpr against the reference search of rules/C20_cron.py: ./diff.py <repo root> [n random instants]"""
import subprocess, sys, random, os
sys.path.insert(0, '/verif')
from rules.C20_cron import reference_next, civil_from_days, fmt, ts
root = sys.argv[1] if len(sys.argv) > 1 else '/repo'
n = int(sys.argv[2]) if len(sys.argv) > 2 else 300
here = os.path.dirname(os.path.abspath(__file__))
subprocess.check_call(['g++', '-std=gnu++11', '-O1', '-I%s/modules/alarm/3rd-party' % root, here + '/difftool.cpp', '%s/modules/alarm/3rd-party/ccronexpr.cpp' % root, '-o', '/var/tmp/cron_difftool'])
exprs = ['10,40 5 * * * *', '0 */15 8-17 * 2 SAT,SUN', '0 0 0 29 1 *', '0 0 12 1 * *', '0 0 9 1 * 1', '0 0 8 13 * 5', '*/7 */11 */5 * * *', '5,35 10,50 3,15 * * *', '0 0 0 31 * *', '0 30 6 * * 1-5',
         '59 59 23 28-31 * *', '0 0 0 1 1 *', '30 15 10 15 3,6,9,12 *', '0 0 12 * 2 0', '20 * * * * *', '0 0/30 * * * *', '1 2 3 4 5 *', '0 0 0 * * 6', '45 0 0 30 4,6,9,11 *', '0 0 12 29 2 *', '*/20 1-59/13 */6 1,15,31 */2 *', '0 0 0 31 1,3,5 1', '15 45 22 * 12 5', '0 59 23 28 2 *', '30 30 12 29,30,31 * 0,3', '0 0 6 1-7 * 1']
rnd = random.Random(20261003)
instants = [ts(2018, 6, 29, 10, 0, 0), ts(2009, 4, 27), ts(2019, 9, 9, 13, 0, 0), ts(2024, 8, 30, 10, 0, 0), ts(2024, 1, 31, 12, 3, 20), ts(2024, 3, 13, 6, 0, 0)] + \
    [rnd.randrange(0, ts(2090, 1, 1)) for _ in range(n)]
open('/var/tmp/cron_exprs.txt', 'w').write('\n'.join(exprs) + '\n')
open('/var/tmp/cron_instants.txt', 'w').write('\n'.join(str(x) for x in instants) + '\n')
out = subprocess.check_output(['/var/tmp/cron_difftool', '/var/tmp/cron_exprs.txt', '/var/tmp/cron_instants.txt'], text=True)
bad = total = 0
cur = None
def bits(b, off, nbytes, lo=0):
    return {i for i in range(nbytes * 8) if b[off + i // 8] >> (i % 8) & 1 and i >= lo}
for line in out.splitlines():
    p = line.split('\t')
    if p[0] == 'E':
        print('parse error', p[1], p[2])
    elif p[0] == 'X':
        b = bytes.fromhex(p[2])
        cur = (p[1], dict(seconds=bits(b, 0, 8), minutes=bits(b, 8, 8), hours=bits(b, 16, 3), dow={d % 7 for d in bits(b, 19, 1)}, dom=bits(b, 20, 4, 1), months=bits(b, 24, 2)))
    else:
        t, got = int(p[1]), int(p[2])
        want = reference_next(cur[1], t)
        total += 1
        far = want is not None and civil_from_days(want // 86400)[0] - civil_from_days(t // 86400)[0] > 4
        if far and got == -1:
            continue
        if (want if want is not None else -1) != got:
            bad += 1
            if bad <= 12:
                print('"%s" after %s: library %s, earliest match %s' % (cur[0], fmt(t), fmt(got) if got >= 0 else got, fmt(want) if want is not None else None))
print('%d answers, %d wrong' % (total, bad))
sys.exit(1 if bad else 0)
