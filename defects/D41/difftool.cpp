// prints, for every expression of exprs.txt and every instant of instants.txt: the bit tables after cron_parse_expr and cron_next(expr, t)
#include <cstdio>
#include <cstring>
#include <ctime>
#include <string>
#include <vector>
#include <fstream>
#include <iostream>
#include "ccronexpr.h"
int main(int argc, char **argv) {
  std::ifstream fe(argv[1]), ft(argv[2]);
  std::vector<std::string> exprs; std::vector<long> ts; std::string line; long t;
  while (std::getline(fe, line)) if (!line.empty()) exprs.push_back(line);
  while (ft >> t) ts.push_back(t);
  for (auto &e : exprs) {
    cron_expr ce; memset(&ce, 0, sizeof ce); const char *err = nullptr;
    cron_parse_expr(e.c_str(), &ce, &err);
    if (err) { printf("E\t%s\t%s\n", e.c_str(), err); continue; }
    printf("X\t%s\t", e.c_str());
    const unsigned char *p = (const unsigned char*)&ce;
    for (size_t i = 0; i < sizeof ce; ++i) printf("%02x", p[i]);
    printf("\n");
    for (long x : ts) printf("R\t%ld\t%ld\n", x, (long)cron_next(&ce, x));
  }
}
