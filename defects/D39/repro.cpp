// D39: ccronexpr's do_next() takes "the day of the month is the same number as before" for "the day did not change".
// When the current day has a listed day-of-month number but the wrong week day, find_next_day() walks to the same
// number in a later month with the time of day reset to 00:00:00, and the hour/minute/second tables are never
// consulted again: cron_next() answers an instant that does not match the expression.
#include <cstdio>
#include <ctime>
#include <cstring>
#include "ccronexpr.h"

static int check(const char *expr, time_t from, time_t want) {
  cron_expr e; memset(&e, 0, sizeof e); const char *err = nullptr;
  cron_parse_expr(expr, &e, &err);
  if (err) { printf("parse error: %s\n", err); return 1; }
  time_t got = cron_next(&e, from);
  char a[64], b[64], c[64]; struct tm t;
  gmtime_r(&from, &t); strftime(a, sizeof a, "%F %T %a", &t);
  gmtime_r(&got, &t);  strftime(b, sizeof b, "%F %T %a", &t);
  gmtime_r(&want, &t); strftime(c, sizeof c, "%F %T %a", &t);
  printf("\"%s\" after %s -> %s, earliest match %s: %s\n", expr, a, b, c, got == want ? "ok" : "WRONG");
  return got != want;
}

int main() {
  int bad = 0;
  // 09:00:00 on the 1st of a month that is a Monday; 1970-01-01 is a Thursday; the next is Monday 1970-06-01
  bad += check("0 0 9 1 * 1", 0, 13078800);
  // Friday the 13th at 08:00:00, asked on Wednesday 2024-03-13 06:00:00; the next is Friday 2024-09-13
  bad += check("0 0 8 13 * 5", 1710309600, 1726214400);
  // controls: asked one second later (an outer level of the recursion looks at the hour again), and on a day with another number (2024-03-14)
  bad += check("0 0 8 13 * 5", 1710309601, 1726214400);
  bad += check("0 0 8 13 * 5", 1710417600, 1726214400);
  puts(bad ? "FAIL" : "PASS");
  return bad ? 1 : 0;
}
