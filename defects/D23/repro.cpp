/**
 * D23 -- lost wake-up after Scheduler::cancel() of a routine that is blocked in
 *        coroutine::Mutex / Semaphore / Channel (stale waiter token), plus the
 *        neighbouring primitives Condition / Broadcast / join for comparison.
 *
 * Uses the real library (Scheduler + event::Loop), exactly as the unit tests in
 * modules/coroutine/*_test.cpp do.  Every case runs a fresh Loop + Scheduler for
 * 50 ms, which is "forever" for these routines (they only need a handful of
 * scheduler rounds).
 *
 * usage: repro [group|case ...]     groups: mutex semaphore channel condition broadcast join
 *        no argument = everything
 * exit code: 0 = all selected (non-INFO) cases passed, 1 = at least one failed.
 *
 * NOTE: routines run on 8 KiB stacks -> no printf inside routine bodies.
 */
#include <cstdio>
#include <cstring>
#include <string>
#include <vector>
#include <functional>

#include <tbox/event/loop.h>
#include <tbox/coroutine/scheduler.h>
#include <tbox/coroutine/mutex.hpp>
#include <tbox/coroutine/semaphore.hpp>
#include <tbox/coroutine/channel.hpp>
#include <tbox/coroutine/condition.hpp>
#include <tbox/coroutine/broadcast.hpp>

using namespace tbox;
using namespace tbox::event;
using namespace tbox::coroutine;

namespace {

char g_detail[200];  //!< observed values of the last case (filled in the main routine, after the loop ended)

void yieldN(Scheduler &sch, int n) { for (int i = 0; i < n; ++i) sch.yield(); }

//! run the loop for 50ms, then force-stop all the routines
void runFor50ms(Loop *loop, Scheduler &sch)
{
    loop->exitLoop(std::chrono::milliseconds(50));
    loop->runLoop();
    sch.cleanup();
}

enum Order {
    kCancelThenFinishThenWake,  //!< B is cancelled, runs, and is gone; only then the resource is released  (the reported sequence)
    kCancelThenWake,            //!< B is cancelled and, before B gets to run, the resource is released
    kWakeThenCancel,            //!< the resource is released (wake-up goes to B) and, before B gets to run, B is cancelled
};

///////////////////////////////////////////////////////////////////////////////
// Mutex: A holds; B then C block in lock(); B is cancelled; A unlocks.
// Expected: C obtains the mutex.
///////////////////////////////////////////////////////////////////////////////
bool MutexCase(Order order)
{
    Loop *loop = Loop::New();
    bool c_got = false, b_ret = true, b_done = false;
    int  holders = 0, max_holders = 0;
    {
        Scheduler sch(loop);
        Mutex mutex(sch);
        RoutineToken tok_b;

        sch.create([&] (Scheduler &s) {     //! A
            mutex.lock();
            ++holders; if (holders > max_holders) max_holders = holders;
            s.yield();                      //! B and C are now blocked in lock(), in that order
            if (order == kCancelThenFinishThenWake) {
                s.cancel(tok_b);
                yieldN(s, 5);               //! B has run, seen the cancel and finished
            } else if (order == kCancelThenWake) {
                s.cancel(tok_b);
            }
            --holders;
            mutex.unlock();
            if (order == kWakeThenCancel)
                s.cancel(tok_b);
        }, true, "A");

        tok_b = sch.create([&] (Scheduler &) {  //! B
            b_ret = mutex.lock();
            b_done = true;
        }, true, "B");

        sch.create([&] (Scheduler &s) {     //! C
            if (mutex.lock()) {
                ++holders; if (holders > max_holders) max_holders = holders;
                c_got = true;
                s.yield();
                --holders;
                mutex.unlock();
            }
        }, true, "C");

        runFor50ms(loop, sch);
    }
    delete loop;
    snprintf(g_detail, sizeof(g_detail), "B.lock()=%d B.finished=%d C.got_mutex=%d max_holders=%d", b_ret, b_done, c_got, max_holders);
    return c_got && b_done && !b_ret && max_holders == 1;
}

///////////////////////////////////////////////////////////////////////////////
// Semaphore(0): B then C block in acquire(); B is cancelled; P release()s once.
// Expected: C acquires the resource.
///////////////////////////////////////////////////////////////////////////////
bool SemaphoreCase(Order order)
{
    Loop *loop = Loop::New();
    bool c_got = false, b_ret = true, b_done = false;
    {
        Scheduler sch(loop);
        Semaphore sem(sch, 0);
        RoutineToken tok_b;

        tok_b = sch.create([&] (Scheduler &) { b_ret = sem.acquire(); b_done = true; }, true, "B");
        sch.create([&] (Scheduler &) { if (sem.acquire()) c_got = true; }, true, "C");
        sch.create([&] (Scheduler &s) {     //! P
            s.yield();
            if (order == kCancelThenFinishThenWake) {
                s.cancel(tok_b);
                yieldN(s, 5);
            } else if (order == kCancelThenWake) {
                s.cancel(tok_b);
            }
            sem.release();
            if (order == kWakeThenCancel)
                s.cancel(tok_b);
        }, true, "P");

        runFor50ms(loop, sch);
    }
    delete loop;
    snprintf(g_detail, sizeof(g_detail), "B.acquire()=%d B.finished=%d C.acquired=%d", b_ret, b_done, c_got);
    return c_got && b_done && !b_ret;
}

///////////////////////////////////////////////////////////////////////////////
// Channel<int>: B then C block in operator>>; B is cancelled; P sends one value.
// Expected: C receives it.
///////////////////////////////////////////////////////////////////////////////
bool ChannelCase(Order order)
{
    Loop *loop = Loop::New();
    bool b_ret = true, b_done = false;
    int  c_val = 0;
    {
        Scheduler sch(loop);
        Channel<int> ch(sch);
        RoutineToken tok_b;

        tok_b = sch.create([&] (Scheduler &) { int v = 0; b_ret = (ch >> v); b_done = true; }, true, "B");
        sch.create([&] (Scheduler &) { int v = 0; if (ch >> v) c_val = v; }, true, "C");
        sch.create([&] (Scheduler &s) {     //! P
            s.yield();
            if (order == kCancelThenFinishThenWake) {
                s.cancel(tok_b);
                yieldN(s, 5);
            } else if (order == kCancelThenWake) {
                s.cancel(tok_b);
            }
            ch << 42;
            if (order == kWakeThenCancel)
                s.cancel(tok_b);
        }, true, "P");

        runFor50ms(loop, sch);
    }
    delete loop;
    snprintf(g_detail, sizeof(g_detail), "B.recv=%d B.finished=%d C.value=%d", b_ret, b_done, c_val);
    return c_val == 42 && b_done && !b_ret;
}

///////////////////////////////////////////////////////////////////////////////
// Condition (single-waiter by design): W1 waits and is cancelled; afterwards W2
// add()s and wait()s; P posts.  Expected: W2 blocks until the post, wait()==true.
///////////////////////////////////////////////////////////////////////////////
bool ConditionCase()
{
    Loop *loop = Loop::New();
    bool w1_ret = true, w2_ret = false, posted_before_w2_returned = false, posted = false, w2_done = false;
    {
        Scheduler sch(loop);
        Condition<int> cond(sch, Condition<int>::Logic::kAll);
        RoutineToken tok_w1;

        tok_w1 = sch.create([&] (Scheduler &) { cond.add(1); w1_ret = cond.wait(); }, true, "W1");
        sch.create([&] (Scheduler &s) {     //! W2
            yieldN(s, 6);                   //! W1 is cancelled and gone by now
            cond.add(1);
            w2_ret = cond.wait();
            posted_before_w2_returned = posted;
            w2_done = true;
        }, true, "W2");
        sch.create([&] (Scheduler &s) {     //! P
            s.yield();
            s.cancel(tok_w1);
            yieldN(s, 10);
            posted = true;
            cond.post(1);
        }, true, "P");

        runFor50ms(loop, sch);
    }
    delete loop;
    snprintf(g_detail, sizeof(g_detail), "W1.wait()=%d W2.finished=%d W2.wait()=%d W2.returned_after_post=%d", w1_ret, w2_done, w2_ret, posted_before_w2_returned);
    return !w1_ret && w2_done && w2_ret && posted_before_w2_returned;
}

///////////////////////////////////////////////////////////////////////////////
// Broadcast: B and C wait; B is cancelled; P posts.  Expected: C is resumed.
///////////////////////////////////////////////////////////////////////////////
bool BroadcastCase()
{
    Loop *loop = Loop::New();
    bool b_ret = true, c_ret = false;
    {
        Scheduler sch(loop);
        Broadcast bc(sch);
        RoutineToken tok_b;

        tok_b = sch.create([&] (Scheduler &) { b_ret = bc.wait(); }, true, "B");
        sch.create([&] (Scheduler &) { c_ret = bc.wait(); }, true, "C");
        sch.create([&] (Scheduler &s) {
            s.yield();
            s.cancel(tok_b);
            yieldN(s, 5);
            bc.post();
        }, true, "P");

        runFor50ms(loop, sch);
    }
    delete loop;
    snprintf(g_detail, sizeof(g_detail), "B.wait()=%d C.wait()=%d", b_ret, c_ret);
    return !b_ret && c_ret;
}

///////////////////////////////////////////////////////////////////////////////
// join (INFO only): J1 joins T and is cancelled; later J2 joins T; T ends.
// "Expected": J2's join() returns true after T ended.
///////////////////////////////////////////////////////////////////////////////
bool JoinCase()
{
    Loop *loop = Loop::New();
    bool j1_ret = true, j2_ret = false, t_done = false, t_done_when_j2_returned = false;
    {
        Scheduler sch(loop);
        RoutineToken tok_t, tok_j1;

        tok_t  = sch.create([&] (Scheduler &s) { yieldN(s, 12); t_done = true; }, true, "T");
        tok_j1 = sch.create([&] (Scheduler &s) { j1_ret = s.join(tok_t); }, true, "J1");
        sch.create([&] (Scheduler &s) {     //! J2
            s.yield();
            s.cancel(tok_j1);
            yieldN(s, 4);
            j2_ret = s.join(tok_t);
            t_done_when_j2_returned = t_done;
        }, true, "J2");

        runFor50ms(loop, sch);
    }
    delete loop;
    snprintf(g_detail, sizeof(g_detail), "J1.join()=%d J2.join()=%d T.ended_when_J2_returned=%d", j1_ret, j2_ret, t_done_when_j2_returned);
    return !j1_ret && j2_ret && t_done_when_j2_returned;
}

struct Case {
    const char *group;
    const char *name;
    bool info_only;
    std::function<bool()> run;
    const char *what;
};

}

int main(int argc, char **argv)
{
    std::vector<Case> cases = {
        {"mutex",     "mutex.stale_token",      false, [] { return MutexCase(kCancelThenFinishThenWake); },
            "A holds; B,C lock(); cancel(B); B finishes; A unlock()  => C must get the mutex"},
        {"mutex",     "mutex.cancel_then_wake", false, [] { return MutexCase(kCancelThenWake); },
            "A holds; B,C lock(); cancel(B); A unlock() before B ran => C must get the mutex"},
        {"mutex",     "mutex.wake_then_cancel", false, [] { return MutexCase(kWakeThenCancel); },
            "A holds; B,C lock(); A unlock(); cancel(B) before B ran => C must get the mutex"},

        {"semaphore", "semaphore.stale_token",      false, [] { return SemaphoreCase(kCancelThenFinishThenWake); },
            "B,C acquire(); cancel(B); B finishes; release()         => C must acquire"},
        {"semaphore", "semaphore.cancel_then_wake", false, [] { return SemaphoreCase(kCancelThenWake); },
            "B,C acquire(); cancel(B); release() before B ran        => C must acquire"},
        {"semaphore", "semaphore.wake_then_cancel", false, [] { return SemaphoreCase(kWakeThenCancel); },
            "B,C acquire(); release(); cancel(B) before B ran        => C must acquire"},

        {"channel",   "channel.stale_token",      false, [] { return ChannelCase(kCancelThenFinishThenWake); },
            "B,C ch>>v; cancel(B); B finishes; ch<<42                => C must receive 42"},
        {"channel",   "channel.cancel_then_wake", false, [] { return ChannelCase(kCancelThenWake); },
            "B,C ch>>v; cancel(B); ch<<42 before B ran               => C must receive 42"},
        {"channel",   "channel.wake_then_cancel", false, [] { return ChannelCase(kWakeThenCancel); },
            "B,C ch>>v; ch<<42; cancel(B) before B ran               => C must receive 42"},

        {"condition", "condition.stale_token", false, ConditionCase,
            "W1 wait(); cancel(W1); later W2 add(1), wait(); post(1) => W2 must block, then wait()==true"},
        {"broadcast", "broadcast.stale_token", false, BroadcastCase,
            "B,C wait(); cancel(B); post()                           => C must be resumed"},
        {"join",      "join.stale_token",      true,  JoinCase,
            "J1 join(T); cancel(J1); later J2 join(T); T ends        => J2 join()==true   [INFO, not counted]"},
    };

    int failed = 0, ran = 0;
    for (auto &c : cases) {
        bool selected = (argc == 1);
        for (int i = 1; i < argc; ++i)
            if (!strcmp(argv[i], c.group) || !strcmp(argv[i], c.name))
                selected = true;
        if (!selected)
            continue;

        bool ok = c.run();
        ++ran;
        if (!ok && !c.info_only)
            ++failed;
        printf("%-5s %-28s %s\n      %-28s observed: %s\n", ok ? "PASS" : (c.info_only ? "info" : "FAIL"), c.name, c.what, "", g_detail);
    }

    printf("%d case(s) run, %d failed\n", ran, failed);
    return failed == 0 ? 0 : 1;
}
