#!/bin/sh
# usage: build.sh <source-tree> [output-binary]
# Builds repro.cpp against the headers of <source-tree> (Mutex/Semaphore/Channel/
# Condition/Broadcast are header-only, so the headers decide the behaviour) and
# the static libs of that tree's build dir (<tree>/_b or <tree>/_build); if the
# tree has no (complete) build dir, the prebuilt HEAD libs in /repo/_build are used (the
# patches do not touch any .cpp file).
set -e
TREE=${1:?usage: build.sh <source-tree> [output-binary]}
HERE=$(cd "$(dirname "$0")" && pwd)
OUT=${2:-$HERE/repro}

LIBROOT=
for d in "$TREE/_b" "$TREE/_build" /repo/_build; do
    ok=1
    for m in coroutine event util base; do [ -f "$d/modules/$m/libtbox_$m.a" ] || ok=0; done
    if [ $ok = 1 ]; then LIBROOT=$d; break; fi
done
[ -n "$LIBROOT" ] || { echo "no built libs found" >&2; exit 2; }

LIBS=
for m in coroutine event util base; do LIBS="$LIBS $LIBROOT/modules/$m/libtbox_$m.a"; done

g++ -std=gnu++11 -O1 -g -DNDEBUG -DMODULE_ID='"x"' \
    -I"$TREE/modules" -I"$TREE/3rd-party" -pthread \
    "$HERE/repro.cpp" -o "$OUT" $LIBS -lpthread -ldl
echo "built $OUT (headers: $TREE/modules, libs: $LIBROOT)"
