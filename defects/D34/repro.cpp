// D34 — util::Buffer: unsigned wrap-around in the size tests of hasRead(), hasWritten() and ensureWritableSize() (C07, also C06: the send/receive queues are Buffers)
#include <cstdio>
#include <cstdint>
#include <cstring>
#include <new>
#include <tbox/util/buffer.h>
using tbox::util::Buffer;

int main()
{
    setbuf(stdout, NULL);
    int bad = 0;
    {   // consume: 3 bytes written, 2 consumed, then "consume everything there could possibly be"
        Buffer b(8);
        b.append("abc", 3);
        b.hasRead(2);
        b.hasRead(SIZE_MAX);                     // more than readable: the buffer must be empty afterwards
        printf("hasRead(SIZE_MAX): readableSize()=%zu (want 0)\n", b.readableSize());
        if (b.readableSize() != 0) { ++bad; printf("  -> consumed bytes are presented again: '%.*s'\n", (int)b.readableSize(), (const char*)b.readableBegin()); }
    }
    {   // commit: more than the room there is: the window must end at the capacity, never move backwards
        Buffer b(8);
        b.append("abcdef", 6);
        b.hasWritten(SIZE_MAX - 2);              // write_index_ + n wraps to 3
        printf("hasWritten(SIZE_MAX-2): readableSize()=%zu (want 8)\n", b.readableSize());
        if (b.readableSize() != 8) ++bad;
    }
    {   // reserve: a size whose doubled sum wraps must be refused, not "granted" with a block smaller than the data it holds
        Buffer b(16);
        b.append("0123456789", 10);
        bool ok = false;
        try { ok = b.ensureWritableSize(SIZE_MAX - 5); } catch (const std::bad_alloc &) { ok = false; }
        printf("ensureWritableSize(SIZE_MAX-5) = %d, writableSize()=%zu\n", ok, b.writableSize());
        if (ok && b.writableSize() < SIZE_MAX - 5) ++bad;
    }
    printf(bad ? "FAIL (%d)\n" : "PASS\n", bad);
    return bad ? 1 : 0;
}
