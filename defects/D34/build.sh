#!/bin/sh
T=${1:-/repo}; O=${2:-/var/tmp/d34_repro}
W=$(mktemp -d /var/tmp/d34.XXXXXX); mkdir -p $W/inc/tbox
for m in base util; do ln -sfn $T/modules/$m $W/inc/tbox/$m; done
g++ -std=gnu++11 -g -O1 -fsanitize=address -I$W/inc -DMODULE_ID='"d34"' $(dirname $0)/repro.cpp $T/modules/util/buffer.cpp /repo/_build/modules/base/libtbox_base.a -lpthread -ldl -o $O
rc=$?; rm -rf $W; exit $rc
