"""C13 — terminal shell (DESIGN §4 C13)."""
import glob
from tbxlint.facts import extract, AnalysisBroken, MODULES
from tbxlint import locks, q, exc, own, rd
from rules import C13_editor
from tbxlint import harden

T = 'tbox::terminal::Terminal::Impl'
TEL = 'tbox::terminal::Telnetd::Impl'
RPC = 'tbox::terminal::TcpRpc::Impl'
SC = 'tbox::terminal::SessionContext'


def scope_units():
    us = []
    for pat in ('terminal/*.cpp', 'terminal/impl/*.cpp', 'terminal/impl/service/*.cpp', 'terminal/service/*.cpp'):
        for p in sorted(glob.glob(MODULES + '/' + pat)):
            if not p.endswith('_test.cpp'):
                us.append(p[len(MODULES) + 1:])
    return us + ['util/split_cmdline.cpp', 'util/string.cpp']


INV_CURSOR = ('cursor <= curr_input.size() is the session invariant kept by every editing handler (C13.R4 checks each cursor update '
              'and each erase/insert guard)')
INV_MAP = ('the key was inserted by onTcpConnected and both maps are erased only together with the connection (onTcpDisconnected / the '
           'deferred endSession task); callers pass the token of a live session (C13.R3 keeps deferred tasks from using stale sessions)')
EXC_TABLE = {
    (T + '::executeRunHistoryCmd', 'std::string::substr', 'args[]'):
        'args[0] starts with "!" (dispatch test cmd[0] == \'!\' in executeCmd), so substr(1) is in range',
    (T + '::executeRunHistoryCmd', 'std::deque::at', 's.history'):
        'negative index branch: guarded by history.size() >= -index, so size()+index is in [0,size)',
    (T + '::executeTreeCmd', 'std::string::erase', 'indent_str'):
        'indent_str only grows by 4-character units and is tested non-empty, so size()-4 is in range',
    (T + '::onChar', 'std::string::insert', 's.curr_input'): INV_CURSOR,
    (T + '::onChar', 'std::string::substr', 's.curr_input'): INV_CURSOR,
    (T + '::onBackspaceKey', 'std::string::erase', 's.curr_input'): INV_CURSOR + '; cursor != 0 is tested first',
    (T + '::onBackspaceKey', 'std::string::substr', 's.curr_input'): INV_CURSOR,
    (T + '::onDeleteKey', 'std::string::erase', 's.curr_input'): 'guarded by cursor < curr_input.size()',
    (T + '::onDeleteKey', 'std::string::substr', 's.curr_input'): INV_CURSOR,
}
for _c in (TEL, RPC):
    for _f, _m in (('onRecvString', 'client_to_session_'), ('onRecvNego', 'client_to_session_'), ('onRecvSub', 'client_to_session_'),
                   ('onTcpReceived', 'client_to_session_'), ('onTcpDisconnected', 'client_to_session_'),
                   ('send', 'session_to_client_'), ('endSession', 'session_to_client_')):
        EXC_TABLE[(_c + '::' + _f, 'std::map::at', _m)] = INV_MAP


def input_entries(prog):
    es = [prog.fn1(T + '::' + n) for n in ('onRecvString', 'onRecvWindowSize', 'onBegin', 'onExit')]
    for c in (TEL, RPC):
        for n in ('onTcpReceived', 'onTcpConnected', 'onTcpDisconnected'):
            es.append(prog.fn1(c + '::' + n))
    return es


def r1(ctx, prog):
    ctx.rule('C13.R1', 'A8: no exception escapes the input path of the terminal (Terminal::Impl::onRecv*, Telnetd/TcpRpc receive, connect and '
                       'disconnect handlers): every may-throw call is caught, proven in range or a confirmed table exception', floor=1)
    eng = exc.ExcEngine(prog, exceptions=EXC_TABLE,
                        follow=lambda g: g.file.startswith(MODULES + '/terminal/') or g.file.startswith(MODULES + '/util/'))
    prove = exc.chain_provers(exc.prove_string_pos, rd.prove_string_pos_rd, exc.prove_index_guard, exc.prove_find_guard)
    findings = eng.scan(input_entries(prog), prove)
    for fn, where, label, why in eng.proofs:
        ctx.ob('C13.R1', '%s|%s@%s' % (fn, label, where.split(':')[-1]), True, '%s: %s' % (label, why), where=where)
    seen = set()
    for fd in findings:
        f, st = fd['func'], fd['stmt']
        key = '%s|%s|%s' % (f.name, fd['label'], fd['path'])
        if key in seen:
            continue
        seen.add(key)
        ctx.ob('C13.R1', key, False, '%s may throw %s, not caught on the chain %s' % (fd['label'], '/'.join(fd['types']), ' -> '.join(fd['chain'][-4:])), where=f.loc(st['i']))
    ctx.stats['may_throw_sites'] = eng.sites
    ctx.stats['functions_on_input_path'] = eng.functions
    ctx.ob('C13.R1', T + '|scanned', True, '%d functions reachable from the input entries, %d may-throw sites' % (eng.functions, eng.sites))
    if eng.functions < 50:
        raise AnalysisBroken('input-path call graph too small (%d functions)' % eng.functions)


def nonempty_proof(f, st):
    """front/back/pop on container X: dominated by a guard excluding X.empty() or bounding X.size() from below,
    or by a push onto X that dominates it with no pop in between"""
    xp = f.path(st['obj'])
    p = f.cfg.point_of(st['i'])
    for cond, k, b in f.cfg.controlling_branches(p):
        cs = f.s(f.strip_casts(cond))
        neg = False
        while cs and cs['k'] == 'UnaryOperator' and cs.get('op') == '!':
            neg = not neg
            cs = f.s(f.strip_casts(cs['ch'][0]))
        if cs and cs['k'] in q.CALL_KINDS and cs.get('fn') == 'empty' and 'obj' in cs and f.path(cs['obj']) == xp:
            if (k == 1 and not neg) or (k == 0 and neg):
                return 'guarded by !%s.empty()' % xp
        if cs and cs['k'] == 'BinaryOperator' and cs.get('op') in ('>', '>=', '!=', '<', '<=', '=='):
            l, r = f.path(cs['ch'][0]), f.path(cs['ch'][1])
            lv, rv = f.s(f.strip_casts(cs['ch'][0])), f.s(f.strip_casts(cs['ch'][1]))
            if l == xp + '.size()':
                c = rv.get('cv') if rv else None
                if (cs['op'] == '>' and k == 0 and c is not None and c >= 0) or (cs['op'] == '>=' and k == 0 and c is not None and c >= 1) or \
                   (cs['op'] == '!=' and k == 0 and c == 0) or (cs['op'] == '==' and k == 1 and c == 0):
                    return 'guarded by %s.size() %s %s' % (xp, cs['op'], c)
    pushes = [x for x in f.calls() if x.get('fn') in ('push_back', 'emplace_back', 'push_front') and 'obj' in x and f.path(x['obj']) == xp]
    for pu in pushes:
        if f.cfg.dominates(q.pt(f, pu), p):
            return 'dominated by a push onto %s' % xp
    return None


def r2(ctx, prog):
    ctx.rule('C13.R2', 'A9a: no front()/back()/pop on a possibly empty history', floor=1)
    n = 0
    for f in prog.funcs.values():
        if not f.file.startswith(MODULES + '/terminal/'):
            continue
        for st in f.calls():
            if st.get('fn') in ('front', 'back', 'pop_front', 'pop_back') and 'obj' in st and (f.field_of(st['obj']) or '').endswith('SessionContext::history'):
                n += 1
                why = nonempty_proof(f, st)
                ctx.ob('C13.R2', '%s|history.%s' % (f.name, st['fn']), why is not None, why or
                       'history.%s() with no dominating non-emptiness test: undefined behaviour on an empty history' % st['fn'], where=f.loc(st['i']))
    if n == 0:
        raise AnalysisBroken('no front/back/pop access to SessionContext::history found')


def r3(ctx, prog):
    ctx.rule('C13.R3', 'A6 deferred-capture: tasks deferred to the loop never capture a raw pointer to a pooled/cabinet-managed object that is '
                       'still registered (they capture tokens and re-resolve)', floor=3)
    managed = own.managed_types(prog)
    funcs = [f for f in prog.funcs.values() if f.file.startswith(MODULES + '/terminal/')]
    n = 0
    for f, lam, call in own.deferred_lambdas(prog, funcs):
        n += 1
        bad = []
        for c in lam.get('caps', ()):
            if c.get('this') or 'ct' not in c:
                continue
            pt = own.pointee(c['ct'])
            if pt and pt in managed:
                org = own.capture_origin(f, c['d'])
                if org not in own.OWNED:
                    bad.append('%s (%s*, origin %s)' % (c['n'], pt.split('::')[-1], org))
        ctx.ob('C13.R3', '%s|deferred-capture' % locks.site_name(prog, f), not bad,
               'captures tokens/values only' if not bad else
               'deferred task captures raw pointer %s to a managed object: it may be freed/recycled before the task runs' % ', '.join(bad), where=f.loc(lam['i']))
    if n < 3:
        raise AnalysisBroken('expected >=3 deferred tasks in the terminal module, found %d' % n)
    ctx.stats['managed_types'] = sorted(managed)


def _cursor_writes(f):
    out = []
    for st in f.stmts:
        if st and st['k'] in ('UnaryOperator', 'BinaryOperator', 'CompoundAssignOperator') and st.get('op') in ('++', '--', '=', '+=', '-='):
            if (f.field_of(st['ch'][0]) or '').endswith('SessionContext::cursor'):
                out.append(st)
    return out


def r4(ctx, prog):
    ctx.rule('C13.R4', 'A4: editing handlers keep cursor <= curr_input.size(): decrements are guarded by cursor != 0, increments by '
                       'cursor < size or follow an insertion; direct stores are 0 or the line length', floor=8)
    n = 0
    for f in prog.funcs.values():
        if not f.file.endswith('terminal/impl/terminal_key_events.cpp') and not f.file.endswith('terminal/impl/terminal_commands.cpp'):
            continue
        for st in _cursor_writes(f):
            n += 1
            p = q.pt(f, st)
            op = st['op']
            ok, why = False, 'unguarded'
            guards = f.cfg.controlling_branches(p)
            def cond_has_cursor(c):
                return any(x.endswith('SessionContext::cursor') for x in q.subtree_fields(f, c))
            if op == '--':
                # `while (cursor--)` idiom: the decrement is itself the loop test and the loop leaves on 0 (wraps, then is reset) — CleanupInput
                par, _ = f.up(st['i'])
                ps = f.s(par)
                if ps and ps['k'] == 'WhileStmt' and f.strip(ps['cond']) == st['i'] or (ps and ps['k'] == 'ImplicitCastExpr'):
                    # the wrapped value must be overwritten before any read: every caller stores cursor afterwards
                    ok, why = _cleanup_idiom_ok(prog, f), 'post-decrement loop test (CleanupInput idiom): every caller stores cursor right after the call'
                else:
                    for c, k, b in guards:
                        cs = f.s(f.strip_casts(c))
                        if cs and cs['k'] == 'BinaryOperator' and cond_has_cursor(c):
                            z = f.s(f.strip_casts(cs['ch'][1])).get('cv')
                            if (cs['op'] == '==' and z == 0 and k == 1) or (cs['op'] == '!=' and z == 0 and k == 0) or (cs['op'] == '>' and z == 0 and k == 0):
                                ok, why = True, 'guarded by cursor != 0'
            elif op == '++':
                for c, k, b in guards:
                    cs = f.s(f.strip_casts(c))
                    if cs and cs['k'] == 'BinaryOperator' and cond_has_cursor(c) and any(x.get('fn') == 'size' for x in q.subtree_calls(f, c)):
                        if (cs['op'] == '<' and k == 0) or (cs['op'] == '>=' and k == 1):
                            ok, why = True, 'guarded by cursor < curr_input.size()'
                if not ok:
                    ins = [x for x in f.calls() if x.get('fn') in ('insert', 'push_back') and 'obj' in x and (f.field_of(x['obj']) or '').endswith('curr_input')]
                    if ins and not f.cfg.exists_path(f.cfg.entry_point(), p, avoid=q.pts(f, ins)):
                        ok, why = True, 'follows an insertion of one character on every path'
            elif op == '=':
                r = f.s(f.strip_casts(st['ch'][1]))
                if r.get('cv') == 0:
                    ok, why = True, 'store of 0'
                elif r['k'] in q.CALL_KINDS and r.get('fn') in ('size', 'length') and (f.field_of(r['obj']) or '').endswith('curr_input'):
                    ok, why = True, 'store of curr_input.size()'
            ctx.ob('C13.R4', '%s|cursor%s@%s' % (f.name, op, why.split(' ')[0]), ok, 'cursor %s: %s' % (op, why), where=f.loc(st['i']))
    if n < 8:
        raise AnalysisBroken('expected >=8 cursor updates, found %d' % n)
    # (the positions handed to erase/insert/substr are decided exactly by the editor replay, C13.R18)


def _cleanup_idiom_ok(prog, f):
    """every caller of f stores cursor (or clears) after the call on every path before returning"""
    ok = True
    n = 0
    for g in prog.funcs.values():
        for c in g.calls():
            if c.get('usr') == f.usr:
                n += 1
                stores = [st for st in _cursor_writes(g) if st['op'] == '=']
                ok = ok and q.must_follow(g, q.pt(g, c), q.pts(g, stores))
    return ok and n > 0


def r5(ctx, prog):
    ctx.rule('C13.R5', 'A4: one prompt per Enter; history capped at HISTORY_MAX_SIZE (20) by dropping the oldest; "history" itself is not stored', floor=4)
    f = prog.fn1(T + '::onEnterKey')
    ex = q.calls(f, callee=T + '::execute')
    pp = q.calls(f, callee=T + '::printPrompt')
    if not ex:
        raise AnalysisBroken('onEnterKey: execute() call not found')
    ctx.ob('C13.R5', '%s|prompt-once' % f.name, len(pp) == 1 and q.must_follow(f, q.pt(f, ex[0]), q.pts(f, pp)) and f.cfg.dominates(q.pt(f, ex[0]), q.pt(f, pp[0]))
           and not f.cfg.exists_path(q.pt(f, pp[0]), q.pt(f, pp[0])) if pp else False,
           'exactly one printPrompt after execute on every path', where=f.loc(ex[0]['i']))
    pushes = [st for st in f.calls() if st.get('fn') == 'push_back' and (f.field_of(st['obj']) or '').endswith('history')]
    pops = [st for st in f.calls() if st.get('fn') == 'pop_front' and (f.field_of(st['obj']) or '').endswith('history')]
    okp = False
    for p_ in pushes:
        for c, k, b in f.cfg.controlling_branches(q.pt(f, p_)):
            if any(x.get('usr') == ex[0].get('usr') for x in q.subtree_calls(f, c)) and k == 0:
                okp = True
    ctx.ob('C13.R5', '%s|store-on-success' % f.name, okp and len(pushes) == 1, 'history.push_back(curr_input) only when execute() returned true', where=f.loc(f.body))
    okc = False
    for p_ in pops:
        for c, k, b in f.cfg.controlling_branches(q.pt(f, p_)):
            cs = f.s(f.strip_casts(c))
            while cs and cs['k'] == 'UnaryOperator' and cs.get('op') == '!':
                cs = f.s(f.strip_casts(cs['ch'][0]))
            rels = [r_ for r_ in q.edge_rels(f, c, k) if r_[0].endswith('history.size()') and r_[1] == '>']
            if cs and cs['k'] == 'BinaryOperator' and rels:
                lim = f.s(f.strip_casts(cs['ch'][1] if f.path(cs['ch'][0]).endswith('history.size()') else cs['ch'][0]))
                limv = lim.get('cv')
                if limv is None and lim['k'] == 'DeclRefExpr':
                    for g in prog.globals.get(lim.get('q'), []):
                        if g.get('vals'):
                            limv = g['vals'][0]
                okc = limv == 20 and all(f.cfg.dominates(q.pt(f, pu), q.pt(f, p_)) for pu in pushes)
    ctx.ob('C13.R5', '%s|cap-20' % f.name, okc, 'oldest entry dropped when size() > 20, right after the push', where=f.loc(f.body))
    e = prog.fn1(T + '::executeCmd')
    hs = q.calls(e, callee=T + '::executeHistoryCmd')
    ok = bool(hs) and all(any(q.return_const(e, r) == 0 and e.cfg.dominates(q.pt(e, h), q.pt(e, r)) and not e.cfg.exists_path(q.pt(e, h), 'exit', avoid=[q.pt(e, r)]) for r in q.returns(e)) for h in hs)
    ctx.ob('C13.R5', '%s|history-not-stored' % e.name, ok, 'the history command returns false (do not store)', where=e.loc(e.body))


def r6(ctx, prog):
    ctx.rule('C13.R6', 'A4: telnet framing consumes only complete commands: every consumed size on the IAC branch is preceded by the matching '
                       'readableSize() test; sub-negotiation payload bytes are only read under a length test', floor=3)
    f = prog.fn1(TEL + '::onTcpReceived')
    sized = None
    for st in f.stmts:
        if st and st['k'] == 'DeclStmt':
            for d in st['decls']:
                if d.get('n') == 'size':
                    sized = d['d']
    if sized is None:
        raise AnalysisBroken('Telnetd::onTcpReceived: local `size` not found')
    n = 0
    for st in f.stmts:
        if st and st['k'] == 'BinaryOperator' and st.get('op') == '=':
            l = f.s(f.strip_casts(st['ch'][0]))
            if l and l['k'] == 'DeclRefExpr' and l.get('d') == sized:
                n += 1
                r = f.s(f.strip_casts(st['ch'][1]))
                need = r.get('cv')
                p = q.pt(f, st)
                ok = False
                why = ''
                for c, k, b in f.cfg.controlling_branches(p):
                    cs = f.s(f.strip_casts(c))
                    if cs and cs['k'] == 'BinaryOperator' and cs.get('op') == '<' and k == 1 and any(x.get('fn') == 'readableSize' for x in q.subtree_calls(f, c)):
                        have = f.s(f.strip_casts(cs['ch'][1])).get('cv')
                        if need is not None and have is not None and have >= need:
                            ok, why = True, 'size=%d under readableSize() >= %d' % (need, have)
                if need is None:
                    # computed size (sub-negotiation): must be dominated by both "terminator found" tests
                    tests = [c for c, k, b in f.cfg.controlling_branches(p) if 'end' in q.subtree_paths(f, c)]
                    ok, why = len(tests) >= 2, 'computed size under the two end-of-subnegotiation tests'
                ctx.ob('C13.R6', '%s|consume@%s' % (f.name, need), ok, why or 'consumed size not covered by a readableSize() test', where=f.loc(st['i']))
    if n < 3:
        raise AnalysisBroken('Telnetd::onTcpReceived: expected >=3 consumed-size stores, found %d' % n)
    # begin[k] reads
    for st in f.stmts:
        if st and st['k'] == 'ArraySubscriptExpr' and f.path(st['ch'][0]) == 'begin':
            idx = f.s(f.strip_casts(st['ch'][1])).get('cv')
            p = q.pt(f, st)
            ok = False
            for c, k, b in f.cfg.controlling_branches(p):
                cs = f.s(f.strip_casts(c))
                if cs and cs['k'] == 'BinaryOperator' and cs.get('op') == '<' and k == 1 and any(x.get('fn') == 'readableSize' for x in q.subtree_calls(f, c)):
                    have = f.s(f.strip_casts(cs['ch'][1])).get('cv')
                    if have is not None and idx is not None and idx < have:
                        ok = True
            ctx.ob('C13.R6', '%s|begin[%s]' % (f.name, idx), ok, 'begin[%s] read under readableSize() > %s' % (idx, idx), where=f.loc(st['i']))
    # the text branch is taken exactly when at least one byte precedes the next IAC (size = iter - begin >= 1); with 0 the data starts with a command
    tb = [st for st in f.stmts if st and st['k'] == 'IfStmt' and st.get('cond') is not None and
          {f.stmts[x].get('n') for x in f.walk(st['cond']) if f.stmts[x]['k'] == 'DeclRefExpr' and f.stmts[x].get('dk') == 'Var'} == {'size'} and
          any(c.get('fn') in ('onRecvString', 'append') for x in f.walk(st['ch'][1] if len(st['ch']) > 1 else st['i']) for c in [f.stmts[x]] if c['k'] in q.CALL_KINDS)]
    if len(tb) != 1:
        raise AnalysisBroken('Telnetd::onTcpReceived: the text branch (a test of `size` in front of the text hand-over) was not found')
    bad = [v for v in range(0, 4) if bool(q.eval_expr(f, tb[0]['cond'], lambda sx, v=v: v if (sx['k'] == 'DeclRefExpr' and sx.get('n') == 'size') else None)) != (v >= 1)]
    ctx.ob('C13.R6', '%s|text-iff-bytes' % f.name, not bad, 'a run of text is handed over exactly when it has at least one byte' if not bad else
           'a text run of %d byte(s) %s: %s' % (bad[0], 'is parsed as a telnet command' if bad[0] >= 1 else 'is handed over and nothing is consumed (the loop spins)',
                                              'every single typed character is lost' if bad[0] >= 1 else ''), where=f.loc(tb[0]['cond']))
    # begin + k: an iterator/pointer k bytes into the readable data is only formed when at least k bytes are there (std::find(begin + 4, end) with fewer
    # than 4 bytes is a reversed range: the search runs past the buffer)
    for st in f.stmts:
        if st and st['k'] == 'BinaryOperator' and st.get('op') == '+' and f.path(st['ch'][0]) == 'begin' and (f.s(st['ch'][1]) or {}).get('cv') is not None:
            k_ = f.s(st['ch'][1])['cv']
            p = f.cfg.point_of(st['i'])
            ok = False
            for c, k, b in f.cfg.controlling_branches(p):
                cs = f.s(f.strip_casts(c))
                if cs and cs['k'] == 'BinaryOperator' and cs.get('op') == '<' and k == 1 and any(x.get('fn') == 'readableSize' for x in q.subtree_calls(f, c)):
                    have = f.s(f.strip_casts(cs['ch'][1])).get('cv')
                    if have is not None and have >= k_:
                        ok = True
            ctx.ob('C13.R6', '%s|begin+%s' % (f.name, k_), ok, 'begin + %s formed under readableSize() >= %s' % (k_, k_) if ok else
                   'begin + %s is formed (search start / payload pointer) without a dominating readableSize() >= %s test: with a shorter fragment the range handed to std::find '
                   'is reversed and the scan leaves the buffer' % (k_, k_), where=f.loc(st['i']))
    g = prog.fn1(TEL + '::onRecvSub')
    pd = next((p_ for p_ in g.params if p_['n'] == 'p'), None)
    sd = next((p_ for p_ in g.params if p_['n'] == 's'), None)
    if pd is None or sd is None:
        raise AnalysisBroken('Telnetd::onRecvSub(p, s) parameters not found')
    for st in g.stmts:
        if st and st['k'] == 'ArraySubscriptExpr':
            b = g.s(g.strip_casts(st['ch'][0]))
            if b and b['k'] == 'DeclRefExpr' and b.get('d') == pd['d']:
                idx = g.s(g.strip_casts(st['ch'][1])).get('cv')
                p = q.pt(g, st)
                ok = False
                for c, k, bb in g.cfg.controlling_branches(p):
                    cs = g.s(g.strip_casts(c))
                    if cs and cs['k'] == 'BinaryOperator' and any(g.stmts[x].get('d') == sd['d'] for x in g.walk(c) if g.stmts[x]['k'] == 'DeclRefExpr'):
                        l, r = g.s(g.strip_casts(cs['ch'][0])), g.s(g.strip_casts(cs['ch'][1]))
                        bound = r.get('cv') if l.get('d') == sd['d'] else l.get('cv') if r.get('d') == sd['d'] else None
                        if bound is not None and idx is not None:
                            if l.get('d') == sd['d'] and ((cs['op'] == '>=' and k == 0 and bound > idx) or (cs['op'] == '>' and k == 0 and bound >= idx) or
                                                           (cs['op'] == '<' and k == 1 and bound > idx) or (cs['op'] == '==' and k == 0 and bound > idx)):
                                ok = True
                ctx.ob('C13.R6', '%s|p[%s]' % (g.name, idx), ok,
                       'p[%s] read under a length test on s' % idx if ok else 'sub-negotiation payload byte p[%s] is read without any test of its length s' % idx, where=g.loc(st['i']))


def r7(ctx, prog):
    ctx.rule('C13.R7', 'A9e: the execute <-> executeRunHistoryCmd recursion is bounded: history only stores lines whose execute() returned true '
                       '(never a "!..." reference, which returns the nested result after overwriting curr_input), and the re-run overwrites curr_input '
                       'with a stored line before recursing', floor=2)
    f = prog.fn1(T + '::executeRunHistoryCmd')
    recs = q.calls(f, callee=T + '::execute')
    if not recs:
        raise AnalysisBroken('executeRunHistoryCmd: recursive execute() call not found')
    stores = [a for a, rhs in q.assigns(f, 'SessionContext::curr_input')]
    for r in recs:
        rp = q.pt(f, r)
        ok = not f.cfg.exists_path(f.cfg.entry_point(), rp, avoid=q.pts(f, stores))
        if not ok:
            # flag idiom: the call is guarded by a local bool that is only set to true after a store
            for c, k, b in f.cfg.controlling_branches(rp):
                cs = f.s(f.strip_casts(c))
                if cs and cs['k'] == 'DeclRefExpr' and cs.get('dk') == 'Var' and k == 0:
                    defs = rd.local_defs(f, cs['d'])
                    good = bool(defs)
                    for d in defs:
                        v = f.s(f.strip_casts(d['rhs'])) if d['rhs'] is not None else None
                        if v is not None and v.get('v') is False:
                            continue
                        if v is not None and v.get('v') is True and d['point'] is not None and any(f.cfg.dominates(sp, d['point']) for sp in q.pts(f, stores)):
                            continue
                        good = False
                    ok = ok or good
        ctx.ob('C13.R7', '%s|overwrite-before-recurse' % f.name, ok, 'curr_input is overwritten with a history entry on every path to the recursive execute()', where=f.loc(r['i']))
    for a in stores:
        rhs = a['args'][0] if a['k'] == 'CXXOperatorCallExpr' else a['ch'][1]
        ok = any((f.field_of(f.stmts[x].get('obj', -1)) or '').endswith('SessionContext::history') for x in f.walk(rhs) if f.stmts[x]['k'] in q.CALL_KINDS)
        ctx.ob('C13.R7', '%s|source-is-history' % f.name, ok, 'the re-run line comes from the history', where=f.loc(a['i']))
    # only onEnterKey pushes to history (checked in R5: only when execute() returned true)
    pushers = set()
    for g in prog.funcs.values():
        for st in g.calls():
            if st.get('fn') in ('push_back', 'push_front', 'emplace_back', 'insert') and 'obj' in st and (g.field_of(st['obj']) or '').endswith('SessionContext::history'):
                pushers.add(g.name)
    ctx.ob('C13.R7', SC + '|history-writers', pushers == {T + '::onEnterKey'}, 'history is only appended by onEnterKey: %s' % sorted(pushers))


# reference encodings of the keys the line editor acts on (xterm ctlseqs / VT220: CSI A-D arrows, CSI n ~ editing keypad and function keys)
KEY_REF = {
    (0x09,): 'kTab', (0x7f,): 'kBackspace', (0x08,): 'kBackspace', (0x0a,): 'kEnter', (0x0d, 0x00): 'kEnter', (0x0d, 0x0a): 'kEnter',
    (0x1b, 0x5b, 0x41): 'kMoveUp', (0x1b, 0x5b, 0x42): 'kMoveDown', (0x1b, 0x5b, 0x43): 'kMoveRight', (0x1b, 0x5b, 0x44): 'kMoveLeft',
    (0x1b, 0x5b, 0x31, 0x7e): 'kHome', (0x1b, 0x5b, 0x32, 0x7e): 'kInsert', (0x1b, 0x5b, 0x33, 0x7e): 'kDelete', (0x1b, 0x5b, 0x34, 0x7e): 'kEnd',
    (0x1b, 0x5b, 0x35, 0x7e): 'kPageUp', (0x1b, 0x5b, 0x36, 0x7e): 'kPageDown',
    (0x1b, 0x5b, 0x31, 0x35, 0x7e): 'kF5', (0x1b, 0x5b, 0x31, 0x37, 0x7e): 'kF6', (0x1b, 0x5b, 0x31, 0x38, 0x7e): 'kF7', (0x1b, 0x5b, 0x31, 0x39, 0x7e): 'kF8',
    (0x1b, 0x5b, 0x32, 0x30, 0x7e): 'kF9', (0x1b, 0x5b, 0x32, 0x31, 0x7e): 'kF10', (0x1b, 0x5b, 0x32, 0x33, 0x7e): 'kF11', (0x1b, 0x5b, 0x32, 0x34, 0x7e): 'kF12',
}


def scanner_table(f):
    """(step, byte) -> (next step, result, status) read off the if-chain of KeyEventScanner::next (constant byte tests only)"""
    def enum_name(e):
        x = f.s(f.strip_casts(e))
        return x.get('n') if x and x['k'] == 'DeclRefExpr' else None

    def byte_consts(cond):
        cs = f.s(f.strip_casts(cond))
        if cs['k'] == 'BinaryOperator' and cs.get('op') == '||':
            a, b = byte_consts(cs['ch'][0]), byte_consts(cs['ch'][1])
            return None if a is None or b is None else a | b
        if cs['k'] == 'BinaryOperator' and cs.get('op') == '==':
            for l, r in ((cs['ch'][0], cs['ch'][1]), (cs['ch'][1], cs['ch'][0])):
                if f.path(l) == 'byte' and f.s(f.strip_casts(r)) is not None and f.s(f.strip_casts(r)).get('cv') is not None:
                    return {f.s(f.strip_casts(r))['cv']}
        return None
    trans, dup = {}, []

    def walk_state(body, S):
        st = f.s(body)
        if st['k'] == 'CompoundStmt':
            for c in st['ch']:
                walk_state(c, S)
            return
        if st['k'] != 'IfStmt':
            return
        cs = byte_consts(st['cond'])
        asg, ret = {}, None
        for x in f.walk(st['then']):
            sx = f.stmts[x]
            if sx['k'] == 'BinaryOperator' and sx.get('op') == '=':
                asg[f.path(sx['ch'][0])] = enum_name(sx['ch'][1]) or f.path(sx['ch'][1])
            if sx['k'] == 'ReturnStmt' and sx.get('val') is not None:
                ret = enum_name(sx['val'])
        if cs is not None:
            for c in cs:
                if (S, c) in trans:
                    dup.append((S, c))      # an earlier branch already takes this byte: this one is dead
                else:
                    trans[(S, c)] = (asg.get('step_'), asg.get('result_'), ret, st['l'])
        if st.get('else') is not None:
            walk_state(st['else'], S)

    def top(sid):
        st = f.s(sid)
        if st['k'] == 'CompoundStmt':
            for c in st['ch']:
                top(c)
        elif st['k'] == 'IfStmt':
            cs = f.s(f.strip_casts(st['cond']))
            if cs['k'] == 'BinaryOperator' and cs.get('op') == '==' and f.path(cs['ch'][0]) == 'step_':
                walk_state(st['then'], enum_name(cs['ch'][1]))
            if st.get('else') is not None:
                top(st['else'])
    top(f.body)
    return trans, dup


def r9(ctx, prog):
    ctx.rule('C13.R9', 'A11 key decoding table: the transition table read off KeyEventScanner::next maps the reference encodings of the editing keys (xterm/VT220) '
             'to the matching key results; each intermediate step is named after the byte prefix it has consumed; an unsure step sets only step_, a decided key only result_; '
             'anything else resets to kNone and fails', floor=30)
    f = prog.fn1('tbox::terminal::KeyEventScanner::next')
    trans, dup = scanner_table(f)
    if len(trans) < 30:
        raise AnalysisBroken('KeyEventScanner::next: only %d constant-byte transitions recognised' % len(trans))
    for (S, b), (nxt, res, status, line) in sorted(trans.items(), key=str):
        where = '%s:%d' % (f.file.replace('/repo/', ''), line)
        if status == 'kUnsure':
            want = ('k' if S == 'kNone' else S) + '%02x' % b
            ok = nxt == want and res is None
            ctx.ob('C13.R9', 'next|%s+%02x' % (S, b), ok, 'step %s on byte %02x goes to %s' % (S, b, nxt) if ok else
                   'step %s on byte %02x goes to %s (result %s): the step reached must be the consumed prefix %s and no result may be set yet' % (S, b, nxt, res, want), where=where)
        elif status == 'kEnsure':
            ok = res is not None and nxt is None
            ctx.ob('C13.R9', 'next|%s+%02x' % (S, b), ok, 'step %s on byte %02x decides %s' % (S, b, res) if ok else
                   'a decided key must set result_ and leave step_ alone (step %s, byte %02x: step_=%s result_=%s)' % (S, b, nxt, res), where=where)
        else:
            ctx.ob('C13.R9', 'next|%s+%02x' % (S, b), False, 'transition returns %s' % status, where=where)
    for S, b in dup:
        ctx.ob('C13.R9', 'next|dup %s+%02x' % (S, b), False, 'byte %02x is tested twice in step %s: the second branch is dead' % (b, S), where=f.loc(f.body))
    # reference sequences
    for seq, want in sorted(KEY_REF.items()):
        S, got = 'kNone', None
        for i, b in enumerate(seq):
            t = trans.get((S, b))
            if t is None:
                got = 'fail at byte %d' % i
                break
            nxt, res, status, line = t
            if status == 'kEnsure':
                got = res if i == len(seq) - 1 else 'decided early (%s after %d bytes)' % (res, i + 1)
                break
            S = nxt
        else:
            got = 'still unsure'
        ctx.ob('C13.R9', 'ref|%s' % ' '.join('%02x' % b for b in seq), got == want, 'decodes to %s' % want if got == want else
               'the sequence %s must decode to %s, the table gives: %s' % (' '.join('%02x' % b for b in seq), want, got), where=f.loc(f.body))
    # fall-through: reset and fail
    rets = [r for r in q.returns(f) if f.enclosing(r['i'], ('IfStmt',)) is None]
    okf = len(rets) == 1 and (f.s(f.strip_casts(rets[0]['val'])) or {}).get('n') == 'kFail' and \
        any((f.s(f.strip_casts(rhs)) or {}).get('n') == 'kNone' and f.enclosing(a['i'], ('IfStmt',)) is None for a, rhs in q.assigns(f, 'step_'))
    ctx.ob('C13.R9', 'next|fallthrough', okf, 'an unexpected byte resets step_ to kNone and returns kFail', where=f.loc(rets[0]['i'] if rets else f.body))


KEY_HANDLERS = {'kPrintable': 'onChar', 'kEnter': 'onEnterKey', 'kBackspace': 'onBackspaceKey', 'kTab': 'onTabKey', 'kMoveUp': 'onMoveUpKey',
                'kMoveDown': 'onMoveDownKey', 'kMoveLeft': 'onMoveLeftKey', 'kMoveRight': 'onMoveRightKey', 'kHome': 'onHomeKey', 'kEnd': 'onEndKey',
                'kDelete': 'onDeleteKey'}


def switch_table(f, sw):
    """enumerator name -> names of the functions called from its label to the next break (fall-through included)"""
    body = f.s(sw['body'])
    out, open_ = {}, []
    for c in body.get('ch', ()):
        st = f.s(c)
        while st is not None and st['k'] in ('CaseStmt', 'DefaultStmt'):
            if st['k'] == 'CaseStmt':
                names = [f.stmts[x].get('n') for x in f.walk(st['ch'][0]) if f.stmts[x]['k'] == 'DeclRefExpr']
                lab = names[0] if names else '?'
                sub = st['ch'][1] if len(st['ch']) > 1 else None
            else:
                lab = 'default'
                sub = st['ch'][0] if st.get('ch') else None
            out.setdefault(lab, [])
            open_.append(lab)         # labels still open from above fall through into this one
            st = f.s(sub) if sub is not None else None
            c = sub
        if st is None or not open_:
            continue
        if st['k'] in ('BreakStmt', 'ReturnStmt'):
            open_ = []
            continue
        called = [f.stmts[x].get('fn') for x in f.walk(c) if f.stmts[x]['k'] in q.CALL_KINDS and f.stmts[x].get('fn')]
        for lab in open_:
            out[lab] += called
    return out


def r10(ctx, prog):
    ctx.rule('C13.R10', 'A11+A4 key dispatch: every decided key result is routed to the editing handler of the same name (one handler per case, no fall-through into '
             'another key\'s handler), and the scanner is restarted after each decided key', floor=12)
    f = prog.fn1(T + '::onRecvString')
    sws = [st for st in f.stmts if st and st['k'] == 'SwitchStmt']
    if not sws:
        raise AnalysisBroken('onRecvString: dispatch switch not found')
    sw = sorted(sws, key=lambda s_: s_['l'])[0]
    tab = switch_table(f, sw)
    for key, h in sorted(KEY_HANDLERS.items()):
        got = tab.get(key)
        ok = got == [h]
        ctx.ob('C13.R10', 'dispatch|%s' % key, ok, '%s -> %s()' % (key, h) if ok else
               'key result %s must run exactly %s(); the switch runs %s' % (key, h, got if got is not None else 'nothing (no case)'), where=f.loc(sw['i']))
    # restart after a decided key: every path from the switch to the next scanner step passes start()
    starts = [st for st in f.calls() if st.get('fn') == 'start' and 'key_event_scanner_' in f.path(st.get('obj'))]
    nexts = [st for st in f.calls() if st.get('fn') == 'next' and 'key_event_scanner_' in f.path(st.get('obj'))]
    okr = bool(starts) and bool(nexts) and not f.cfg.exists_path(q.pt(f, sw), q.pt(f, nexts[0]), avoid=q.pts(f, starts))
    ctx.ob('C13.R10', 'dispatch|restart', okr, 'the scanner is restarted (start()) after every decided key before the next byte is fed', where=f.loc(sw['i']))


def r13(ctx, prog):
    ctx.rule('C13.R13', 'A4 consume implies delivered (telnet front end): text bytes that onTcpReceived marks as read (buff.hasRead) have been handed to onRecvString — directly '
             'in the text branch, or through a local accumulator that is delivered on every path from the accumulation to every exit of the function, the '
             '"incomplete command, wait for more" early returns included', floor=1)
    f = prog.fn1('tbox::terminal::Telnetd::Impl::onTcpReceived')
    deliveries = [c for c in f.calls() if c.get('fn') == 'onRecvString']
    consumed = [c for c in f.calls() if c.get('fn') == 'hasRead']
    if not consumed:
        raise AnalysisBroken('Telnetd::onTcpReceived: no buff.hasRead() call')
    # locals holding a pointer into the buffer
    bufp = set()
    for st in f.stmts:
        if st and st['k'] == 'DeclStmt':
            for d in st['decls']:
                if 'init' in d and any(f.stmts[x]['k'] in q.CALL_KINDS and f.stmts[x].get('fn') in ('readableBegin',) for x in f.walk(d['init'])):
                    bufp.add(d['d'])
    accs = []
    for c in f.calls():
        if (c.get('fn') in ('append', 'push_back', 'assign', 'insert') or c.get('op') in ('+=', '=')) and 'basic_string' in (c.get('cls') or '') and c.get('obj') is not None:
            o = f.s(f.strip_casts(c['obj']))
            if o and o['k'] == 'DeclRefExpr' and o.get('dk') == 'Var' and any(f.stmts[x]['k'] == 'DeclRefExpr' and f.stmts[x].get('d') in bufp for a in c.get('args', []) for x in f.walk(a)):
                accs.append((c, o))
    direct = [d for d in deliveries if any(f.stmts[x]['k'] == 'DeclRefExpr' and f.stmts[x].get('d') in bufp for a in d.get('args', []) for x in f.walk(a))]
    ctx.ob('C13.R13', '%s|text-handed-over' % f.name, bool(direct) or bool(accs), 'text runs are delivered directly (%d site(s)) or accumulated (%d site(s))' % (len(direct), len(accs))
           if (direct or accs) else 'no text of the buffer is handed to onRecvString although it is marked as read', where=f.loc(consumed[0]['i']))
    for c, o in accs:
        dl = [d for d in deliveries if any(f.stmts[x]['k'] == 'DeclRefExpr' and f.stmts[x].get('d') == o['d'] for a in d.get('args', []) for x in f.walk(a))]
        # an edge on which the accumulator is tested empty carries nothing undelivered (and cannot be taken right after an append)
        def not_empty_edge(b, k, o=o):
            cond = f.cfg.blocks[b].cond
            if cond is None:
                return True
            cs = f.s(f.strip_casts(cond))
            neg = False
            while cs is not None and cs['k'] == 'UnaryOperator' and cs.get('op') == '!':
                neg = not neg
                cs = f.s(f.strip_casts(cs['ch'][0]))
            if cs is not None and cs['k'] in q.CALL_KINDS and cs.get('fn') == 'empty' and cs.get('obj') is not None and \
                    (f.s(f.strip_casts(cs['obj'])) or {}).get('d') == o['d']:
                empty_on_true = not neg
                return (k == 0) != empty_on_true      # keep only the edge where it is not empty
            return True
        ok = bool(dl) and not f.cfg.exists_path(q.pt(f, c), 'exit', avoid=q.pts(f, dl), edge_filter=not_empty_edge)
        leak = ''
        if not ok:
            for r in q.returns(f):
                if f.cfg.exists_path(q.pt(f, c), q.pt_or_term(f, r), avoid=q.pts(f, dl), edge_filter=not_empty_edge):
                    leak = f.loc(r['i'])
                    break
        ctx.ob('C13.R13', '%s|%s-delivered' % (f.name, o.get('n')), ok, 'the accumulated text is delivered on every path to every exit' if ok else
               'text appended to %s at %s (and then marked read) is not delivered on the path that leaves at %s: an incomplete telnet command behind typed text makes '
               'the text vanish — the executed line is no longer what was typed' % (o.get('n'), f.loc(c['i']), leak or 'the end of the function'), where=f.loc(c['i']))


def r14(ctx, prog):
    ctx.rule('C13.R14', 'A5 scanner typestate across strings: KeyEventScanner::stop() reports a key but (on its success branches) leaves the step it stopped in; the terminal '
             'therefore either restarts the scanner before the first next() of every string, or follows every stop() by start() on all paths to the exit — otherwise the '
             'first key of the next string is decoded from a stale state', floor=1)
    f = prog.fn1('tbox::terminal::Terminal::Impl::onRecvString')
    def sc(fn):
        return [c for c in f.calls() if c.get('fn') == fn and c.get('obj') is not None and f.path(c['obj']).endswith('key_event_scanner_')]
    starts, nexts, stops = sc('start'), sc('next'), sc('stop')
    if not nexts:
        raise AnalysisBroken('Terminal::onRecvString: no key_event_scanner_.next() call')
    # does stop() keep state on a success branch?  (read from its body: a `return kEnsure` not preceded by a reset of step_)
    stp = prog.fn1('tbox::terminal::KeyEventScanner::stop')
    resets = [a for a, rhs in q.assigns(stp, 'KeyEventScanner::step_')]
    keeps = any(stp.cfg.exists_path(stp.cfg.entry_point(), q.pt_or_term(stp, r), avoid=q.pts(stp, resets)) for r in q.returns(stp)
                if 'kEnsure' in stp.path(r['val'] if r.get('val') is not None else -1))
    # a key that only stop() can report (Enter sent as a bare CR at the end of a string) is dispatched: onEnterKey is reachable behind the test of stop()'s result
    if stops:
        ent = [c for c in f.calls() if c.get('fn') == 'onEnterKey']
        disp = [c for c in ent if any(any(x.get('fn') == 'stop' for x in q.subtree_calls(f, cnd)) for cnd, k, b in f.cfg.controlling_branches(q.pt(f, c)))]
        ctx.ob('C13.R14', '%s|stop-result-dispatched' % f.name, bool(disp), 'the Enter that stop() reports at the end of a string reaches onEnterKey' if disp else
               'stop() is called at the end of the string but its result is not dispatched: a line ended by a bare CR is never executed', where=f.loc(stops[0]['i']))
    fresh = bool(starts) and all(any(f.cfg.dominates(q.pt(f, s_), q.pt(f, n_)) for s_ in starts) for n_ in nexts)
    after = bool(stops) and all(q.must_follow(f, q.pt(f, t), q.pts(f, starts)) for t in stops) if starts else not stops
    ok = fresh or after or not keeps
    ctx.ob('C13.R14', '%s|scanner-restart' % f.name, ok, ('the scanner is restarted before the first next() of every string' if fresh else
           'every stop() is followed by start()' if after else 'stop() resets the step on every branch') if ok else
           'the scanner is carried across strings (no start() before next()) and %s is not followed by start(): stop() returns kEnsure for a bare CR / ESC but keeps '
           'step_, so the first byte of the next string is decoded as the continuation of a sequence that was already reported' %
           ('stop() at %s' % f.loc(stops[0]['i']) if stops else 'the end of a string'), where=f.loc(nexts[0]['i']))


def r15(ctx, prog):
    ctx.rule('C13.R15', 'A10 history navigation replayed over a grid: for every history length 0..3 and every position 0..length, the Up and Down handlers are replayed '
             '(conditions and index expressions folded, ++/-- applied): the position stays inside 0..length without wrapping below 0, every history[...] access lies '
             'inside the history, Up moves one entry older unless at the oldest, Down one newer unless at the input line, and the line shown is history[length - position]', floor=2)
    from tbxlint import replay
    TI = 'tbox::terminal::Terminal::Impl'
    for name, step in (('onMoveUpKey', +1), ('onMoveDownKey', -1)):
        f = prog.fn1(TI + '::' + name)
        bad = None
        for size in range(0, 4):
            for idx in range(0, size + 1):
                acc = []
                def opaque(sx, size=size):
                    if sx['k'] in q.CALL_KINDS and sx.get('fn') == 'size' and sx.get('obj') is not None and f.path(sx['obj']).endswith('history'):
                        return size
                    return None
                rp = replay.Replay(f, {'history_index': idx}, opaque, lambda sx, cont, iv: acc.append((cont, iv, sx)) if cont.endswith('history') else None)
                st = rp.go()
                want = idx + step if 0 <= idx + step <= size else idx
                oob = [(c, iv) for c, iv, sx in acc if iv is None or not (0 <= iv < size)]
                moved = want != idx
                shown = [iv for c, iv, sx in acc]
                wrong_line = moved and ((want >= 1 and shown != [size - want]) or (want == 0 and shown))
                if bad is None and (rp.wrapped or oob or st['history_index'] != want or wrong_line):
                    bad = (size, idx, st['history_index'], rp.wrapped, oob if oob else ([('history', 'entry %s instead of %s' % (shown, [size - want] if want >= 1 else []))] if wrong_line else []))
        ctx.ob('C13.R15', '%s|history-walk' % f.name, bad is None, 'position and accesses stay inside the history for every length 0..3 and position' if bad is None else
               'with %d history line(s) at position %d the handler leaves position %s%s%s: the next key reads outside the history' %
               (bad[0], bad[1], bad[2], (', %s goes below zero at %s' % bad[3]) if bad[3] else '', (', reads history[%s]' % bad[4][0][1]) if bad[4] else ''), where=f.loc(f.body))


def r16(ctx, prog):
    ctx.rule('C13.R16', 'A5 the invariant behind the map look-ups (checked, since C13.R1 relies on it): a front end\'s client<->session maps lose an entry only together with the '
             'connection — in onTcpDisconnected, in cleanup, or in the very function (closure) that also disconnects that client; between an erase and a later, deferred '
             'disconnect the socket is still readable and every receive handler looks the client up with at()', floor=4)
    n = 0
    for cls in (TEL, RPC):
        for f in prog.funcs.values():
            if prog.outermost(f).cls != cls:
                continue
            ers = [c for c in f.calls() if c.get('fn') in ('erase', 'clear') and c.get('obj') is not None and
                   any((f.field_of(c['obj']) or '').endswith(m) for m in ('client_to_session_', 'session_to_client_'))]
            for e in ers:
                n += 1
                top = prog.outermost(f)
                here = top.short in ('onTcpDisconnected', 'cleanup') and f is top
                together = any(c.get('fn') == 'disconnect' for c in f.calls())
                ok = here or together
                ctx.ob('C13.R16', '%s|%s.%s' % (locks.site_name(prog, f), f.path(e['obj']).split('.')[-1], e['fn']), ok,
                       'the entry goes in the disconnect handler / cleanup / together with the disconnect' if ok else
                       '%s loses an entry here while the connection is only disconnected elsewhere (later): data arriving in between reaches onTcpReceived -> %s.at(client), which '
                       'throws through the event loop' % (f.path(e['obj']).split('.')[-1], 'client_to_session_'), where=f.loc(e['i']))
    if n < 4:
        raise AnalysisBroken('expected >= 4 erase sites of the client/session maps, found %d' % n)


def r17(ctx, prog):
    ctx.rule('C13.R17', 'A12 one end per work list: the tree walk keeps one list of pending nodes per level; the node being processed, the ancestor compared in the cycle test and '
             'the node removed afterwards are taken from the same end of those lists (front / erase(begin) or back / pop_back, not a mixture) — otherwise the cycle test looks '
             'at a sibling instead of the ancestor and a self-mounted directory is walked for ever', floor=1)
    f = prog.fn1(T + '::executeTreeCmd')
    ends = {}
    for c in f.calls():
        cls = c.get('cls') or ''
        if 'NodeInfo' not in cls or not cls.startswith('std::vector<'):
            continue
        if 'std::vector<std::vector<' in cls:
            continue        # the stack of levels itself (always used at its back)
        fn = c.get('fn')
        if fn in ('front', 'pop_front'):
            ends.setdefault('front', []).append(c)
        elif fn in ('back', 'pop_back'):
            ends.setdefault('back', []).append(c)
        elif fn == 'erase' and c.get('args'):
            a = f.s(f.strip_casts(c['args'][0]))
            inner = [f.stmts[x].get('fn') for x in f.walk(c['args'][0]) if f.stmts[x]['k'] in q.CALL_KINDS]
            if 'begin' in inner and 'end' not in inner:
                ends.setdefault('front', []).append(c)
            elif 'end' in inner or 'rbegin' in inner:
                ends.setdefault('back', []).append(c)
    if not ends:
        raise AnalysisBroken('executeTreeCmd: no front()/back() access to the per-level node lists found')
    ok = len(ends) == 1
    ctx.ob('C13.R17', '%s|one-end' % f.name, ok, 'the per-level lists are used at their %s only (%d sites)' % (list(ends)[0], sum(len(v) for v in ends.values())) if ok else
           'the per-level node lists are used at both ends: front-side at %s, back-side at %s — the current node and the ancestor looked at by the cycle test are not the same element' %
           (', '.join(f.loc(c['i']).split(':')[-1] for c in ends.get('front', [])[:3]), ', '.join(f.loc(c['i']).split(':')[-1] for c in ends.get('back', [])[:3])),
           where=f.loc((ends.get('front') or ends.get('back'))[0]['i']))


def run(ctx):
    prog = extract('ALL' if ctx.tier == 'thorough' else scope_units())
    ctx.guard(r1, ctx, prog)
    ctx.guard(r2, ctx, prog)
    ctx.guard(r3, ctx, prog)
    ctx.guard(r4, ctx, prog)
    ctx.guard(r5, ctx, prog)
    ctx.guard(r6, ctx, prog)
    ctx.guard(r7, ctx, prog)
    ctx.guard(r9, ctx, prog)
    ctx.guard(r10, ctx, prog)
    ctx.guard(r13, ctx, prog)
    ctx.guard(r14, ctx, prog)
    ctx.guard(r15, ctx, prog)
    ctx.guard(r16, ctx, prog)
    ctx.guard(r17, ctx, prog)
    ctx.guard(C13_editor.r18, ctx, prog)
    ctx.guard(C13_editor.r19, ctx, prog)
    ctx.guard(harden.run_threshold, ctx, prog, 'C13.R12', lambda g: g.file.startswith(MODULES + '/terminal/impl/service/'), 'terminal input scanner', 3)
    ctx.guard(harden.run_narrowing, ctx, prog, 'C13.R11', input_entries(prog),
              lambda g: g.file.startswith(MODULES + '/terminal/') or g.file.startswith(MODULES + '/util/'), 'terminal input path')
    ctx.guard(harden.run, ctx, prog, 'C13.R8', input_entries(prog),
              lambda g: g.file.startswith(MODULES + '/terminal/') or g.file.startswith(MODULES + '/util/'), 'terminal input path')
    from tbxlint import progress
    ctx.guard(progress.run_files, ctx, prog, 'C13.R20', ['terminal/impl/terminal.cpp', 'terminal/impl/terminal_key_events.cpp', 'terminal/impl/terminal_commands.cpp', 'terminal/impl/key_event_scanner.cpp', 'terminal/impl/terminal_nodes.cpp', 'terminal/impl/service/telnetd.cpp', 'terminal/impl/service/tcp_rpc.cpp', 'util/split_cmdline.cpp', 'util/string.cpp'], 'terminal input path', floor=1)
    from rules import C13_history
    ctx.guard(C13_history.r21, ctx, prog)
    from rules import C13_session
    ctx.guard(C13_session.r23, ctx, prog)
    from tbxlint import divzero
    ctx.guard(divzero.rule, ctx, prog, 'C13.R22', 'A9 no division or remainder by a value that may be zero in the terminal: every integer /, % whose divisor is not a non-zero constant is preceded on every path by a test that the divisor is not zero (or the divisor is positive by construction): a zero that the peer can cause (a window width, a count, a length) is a SIGFPE that ends the process', ['/terminal/'], 60)
    return prog
