"""C20 — the life of an alarm under two clocks (C20.R15).  Imported by rules/C20.py.

tbxlint/minterp.py interprets alarm::Alarm (enable, disable, refresh, cleanup, activeTimer, onTimeExpired, GetCurrentUtcTime) with the rule of the alarm — which instants
match — that of a WeeklyAlarm for every day at 00:00 (calculateNextLocalTimeSec itself is the subject of C20.R14), the wall clock as gettimeofday() of the harness
and the timer event as a record on a monotonic clock.  The monotonic clock may run ahead of the wall clock (the timer fires a few milliseconds before the instant on the wall
clock) and the wall clock may be stepped.  Scripts: enable, let the timer fire (on time or early), refresh (from outside or from the alarm's own callback), disable / enable
again, step the wall clock back or forth, cleanup."""
import itertools
from tbxlint.facts import AnalysisBroken
from tbxlint import minterp
from tbxlint.minterp import P

A = 'tbox::alarm::Alarm'
PERIOD = 86400          # the rule of the alarm used: WeeklyAlarm, every day at 00:00 (time zone offset 0)
W = 'tbox::alarm::WeeklyAlarm'


def next_instant(after):
    return (after // PERIOD + 1) * PERIOD


class Bench:
    def __init__(self, prog, refresh_in_cb=False):
        self.prog = prog
        self.wall_us = 1000000 * (100 * PERIOD + 86000)       # wall clock in microseconds
        self.mono_us = 0
        self.timer = {'__cls__': 'tbox::event::TimerEvent', '__open__': True, 'cb': 0, 'enabled': 0, 'span_ms': None, 'armed_mono': 0, 'armed_wall': 0}
        self.fires = []             # (instant the alarm believes it fires for, wall clock in us)
        self.problem = None
        self.stepped_since_fire = False
        self.stepped_since_arm = False      # the wall clock was stepped while the timer was armed: what fires next does so on a clock the delay was not measured on
        self.tainted = False
        noop = lambda it, f, st, a: None
        hooks = dict(minterp.VECTOR_HOOKS)
        hooks.pop('count', None)
        hooks.update({'gettimeofday': self.h_gtod, 'onEnable': lambda it, f, st, a: 1, 'onDisable': lambda it, f, st, a: 1,
                      'TimerEvent::initialize': self.h_t_init, 'TimerEvent::enable': self.h_t_enable, 'TimerEvent::disable': self.h_t_disable, 'Event::enable': self.h_t_enable, 'TimerEvent::isEnabled': lambda it, f, st, a: int(bool(self.timer['enabled'])), 'Event::isEnabled': lambda it, f, st, a: int(bool(self.timer['enabled'])),
                      'Event::disable': self.h_t_disable, 'max': lambda it, f, st, a: max(a[0], a[1]) if len(a) == 2 and all(isinstance(x, int) for x in a) else minterp._numeric_limit('max')(it, f, st, a)})
        self.it = minterp.Interp(prog, {'str:empty': [0]}, hooks=hooks, inline=('*',), max_steps=400000)
        it = self.it
        it.noeval = set(getattr(it, 'noeval', ())) | {'LogTrace', 'LogWarn', 'LogErrno', 'LogDbg'}
        it._keep.append(self.timer)
        self.rec = it.new_record(W)
        it._keep.append(self.rec)
        self.rec.update({'sp_timer_ev_': it.ref(self.timer), 'using_independ_timezone_': 1, 'timezone_offset_seconds_': 0, 'cb_level_': 0, 'target_utc_sec_': 0, 'fired_utc_sec_': 0, 'week_mask_': 0x7f, 'seconds_of_day_': 0})
        st_inited = [v for k_, v in (prog.enums.get(A + '::State', {}) if hasattr(prog, 'enums') else {}).items() if k_.endswith('kInited')]
        self.rec['state_'] = st_inited[0] if st_inited else 1
        self.refresh_in_cb = refresh_in_cb
        self.rec['cb_'] = self.on_alarm

    def h_gtod(self, it, f, st, a):
        r = it.record_of(a[0])
        if r is not None:
            r['tv_sec'], r['tv_usec'] = self.wall_us // 1000000, self.wall_us % 1000000
        return 0

    def h_t_init(self, it, f, st, a):
        self.timer['enabled'] = 0
        self.timer['span_ms'] = a[0]
        return 1

    def h_t_enable(self, it, f, st, a):
        if not self.timer['enabled']:
            self.timer.update({'enabled': 1, 'armed_mono': self.mono_us, 'armed_wall': self.wall_us})
            self.stepped_since_arm = False
            self.arms = getattr(self, 'arms', 0) + 1
        return 1

    def h_t_disable(self, it, f, st, a):
        self.timer['enabled'] = 0
        return 1

    def call(self, name, args=()):
        cands = [g for g in self.prog.by_name.get(A + '::' + name, ()) if g.body is not None and len(g.params) == len(args)]
        if len(cands) != 1:
            raise AnalysisBroken('Alarm::%s/%d: %d candidate(s)' % (name, len(args), len(cands)))
        return self.it.call(cands[0], list(args), this=self.rec)

    def on_alarm(self):
        inst = self.rec.get('fired_utc_sec_')
        self.fires.append((inst, self.wall_us))
        # a callback serves the instant when it runs at it or a moment early; one that ran long before it on the wall clock (a timer armed before the clock was set back,
        # which the property allows: the delay is "as measured when the alarm was armed") has not served it, and the alarm owes the instant still
        prev = [x for x in self.fires[:-1] if x[0] == inst and isinstance(inst, int) and x[1] >= inst * 1000000 - 1000000]
        if prev and not self.stepped_since_fire and not self.tainted:
            self.note('the alarm fires twice for the instant %s (wall clock %d.%06d and %d.%06d)' % (inst, prev[-1][1] // 1000000, prev[-1][1] % 1000000, self.wall_us // 1000000, self.wall_us % 1000000))
        self.stepped_since_fire = False
        if self.refresh_in_cb:
            self.call('refresh')
            self.check_armed('refresh() from the callback')

    def note(self, what):
        if self.problem is None:
            self.problem = what

    def check_armed(self, when):
        """what the property says about an armed alarm"""
        t = self.timer
        if self.tainted:
            return          # a timer armed before a step of the wall clock has fired: the property promises the delay "as measured when the alarm was armed", nothing more, until refresh()
        if not t['enabled']:
            return self.note('%s: the alarm is running and its timer is not armed' % when)
        tgt = self.rec.get('target_utc_sec_')
        now_s = self.wall_us // 1000000
        if not isinstance(tgt, int) or tgt % PERIOD != 0:
            return self.note('%s: the alarm aims at %s, which is not a matching instant' % (when, tgt))
        if tgt <= now_s:
            return self.note('%s: the alarm aims at %d, which is not after the current time %d' % (when, tgt, now_s))
        fired = [x[0] for x in self.fires]
        early = bool(fired) and isinstance(fired[-1], int) and 0 < fired[-1] - now_s <= 1 and not self.stepped_since_fire
        ok = tgt == next_instant(now_s) or (early and tgt == next_instant(fired[-1]))
        if early and tgt == fired[-1]:
            ok = False          # armed again for the instant that has just fired a few milliseconds early
            return self.note('%s: the alarm has just fired for %d (the wall clock reads %d.%06d) and is armed for the same instant again' % (when, tgt, now_s, self.wall_us % 1000000))
        if not ok:
            return self.note('%s: at %d the alarm aims at %d where the earliest matching instant after the current time is %d' % (when, now_s, tgt, next_instant(now_s)))
        need_ms = (tgt * 1000000 - self.wall_us + 999) // 1000
        if isinstance(t['span_ms'], int) and t['span_ms'] < need_ms - 1:
            return self.note('%s: the timer waits %d ms where the instant is %d ms away on the wall clock' % (when, t['span_ms'], need_ms))

    def fire(self, early_us):
        t = self.timer
        if not t['enabled'] or not isinstance(t['span_ms'], int):
            return
        dt = t['armed_mono'] + t['span_ms'] * 1000 - self.mono_us
        if dt < 0:
            dt = 0
        self.mono_us += dt
        self.wall_us += max(0, dt - early_us)       # the monotonic clock has run ahead by early_us
        t['enabled'] = 0
        if self.stepped_since_arm:
            self.tainted = True
        f0 = self.prog.fn1(A + '::activeTimer')
        g = self.prog.fn1(A + '::onTimeExpired')
        self.it.call(g, [], this=self.rec)


def run_script(prog, script, refresh_in_cb):
    b = Bench(prog, refresh_in_cb)
    for n, a in enumerate(script):
        when = 'step %d (%s)' % (n + 1, ' '.join(str(x) for x in a))
        k = a[0]
        arms0 = getattr(b, 'arms', 0)
        if k == 'enable':
            b.call('enable')
        elif k == 'disable':
            b.call('disable')
        elif k == 'refresh':
            b.tainted = False
            b.call('refresh')
        elif k == 'fire':
            b.fire(a[1])
        elif k == 'step':
            b.wall_us += a[1] * 1000000
            b.stepped_since_fire = True
            if b.timer['enabled']:
                b.stepped_since_arm = True
        elif k == 'wait':
            b.wall_us += a[1] * 1000000
            b.mono_us += a[1] * 1000000
        if b.it.faults:
            return '%s: %s' % (when, b.it.faults[0])
        running = b.rec.get('state_') == 2
        if running and k in ('enable', 'refresh', 'fire') and getattr(b, 'arms', 0) != arms0:        # the step armed the timer: what it aims at is judged now
            b.check_armed(when)
        if not running and b.timer['enabled']:
            b.note('%s: the alarm is not running and its timer is armed' % when)
        if b.problem:
            return '%s: %s' % (when, b.problem)
    return None


def r15(ctx, prog):
    depth = 6 if ctx.tier == 'thorough' else 5
    alpha = [('enable',), ('disable',), ('refresh',), ('fire', 0), ('fire', 5000), ('step', -700), ('step', 900), ('wait', 50)]
    scripts = []
    for n in range(1, depth + 1):
        for s_ in itertools.product(alpha, repeat=n):
            if s_[0] != ('enable',) or not any(a[0] == 'fire' for a in s_):
                continue
            scripts.append(s_)
    ctx.rule('C20.R15', 'A10 the life of an alarm under two clocks by abstract replay: %d scripts of up to %d steps (enable, disable, refresh from outside and from the own callback of the alarm, the '
             'timer firing on time or 5 ms early on the wall clock, the wall clock stepped back 700 s or forth 900 s, waiting) run on the syntax trees of Alarm::enable / disable / '
             'refresh / activeTimer / onTimeExpired for a WeeklyAlarm set to every day at 00:00: whenever the alarm is armed it aims at the earliest matching instant after the current '
             'time (after the instant that has just fired, when that fired a moment early), the timer waits at least the wall-clock distance, is armed exactly while the alarm '
             'runs, and no instant fires twice unless the wall clock was stepped back over it' % (2 * len(scripts), depth), floor=1)
    if not any(g.name == A + '::activeTimer' for g in prog.funcs.values()) or not any(g.name == W + '::calculateNextLocalTimeSec' for g in prog.funcs.values()):
        from tbxlint.facts import extract
        prog = extract(['alarm/alarm.cpp', 'alarm/weekly_alarm.cpp'])
    bad = None
    for in_cb in (False, True):
        for s_ in scripts:
            why = run_script(prog, s_, in_cb)
            if why is not None:
                bad = (s_, in_cb, why)
                break
        if bad:
            break
    f = prog.fn1(A + '::refresh')
    ctx.ob('C20.R15', 'Alarm|life', bad is None, '%d runs' % (2 * len(scripts)) if bad is None else
           'script %s%s: %s' % (' '.join('%s%s' % (a[0], '(%s)' % a[1] if len(a) > 1 else '') for a in bad[0]), ', the callback calls refresh()' if bad[1] else '', bad[2]), where=f.loc(f.body))


# ---- the calendar tells its alarms ------------------------------------------------------------------------------------------------------

CAL = 'tbox::alarm::WorkdayCalendar'


def r16(ctx, prog):
    ctx.rule('C20.R16', 'A10 the calendar tells its alarms, by abstract replay: sequences of up to three updates of a WorkdayCalendar (week masks; tables of special days that add, flip, '
             'withdraw entries or empty the table) are interpreted with two subscribed alarms whose refresh() is a probe, one of them unsubscribed half way: whenever an update '
             'changes the answer of isWorkay() for some day, every alarm subscribed at that moment has been refreshed when the update returns (an alarm keeps aiming at an '
             'instant computed under the old calendar otherwise), and an unsubscribed alarm is not touched', floor=1)
    if not any(g.name == CAL + '::updateSpecialDays' for g in prog.funcs.values()):
        from tbxlint.facts import extract
        prog = extract(['alarm/workday_calendar.cpp'])
    tables = [{}, {5: 1}, {5: 0}, {5: 1, 9: 0}, {9: 0}, {3: 0, 5: 1, 9: 0}]
    masks = [0x3e, 0x7f, 0x1e, 0x3e]
    updates = [('days', t) for t in tables] + [('mask', m) for m in masks[:3]]
    bad = None
    n = 0
    for seq in itertools.chain(itertools.product(updates, repeat=1), itertools.product(updates, repeat=2), itertools.product(updates, repeat=3)):
        n += 1
        hooks = dict(minterp.VECTOR_HOOKS)
        refreshed = []
        hooks.update({'refresh': lambda it_, f, st, a: refreshed.append(id(it_.record_of(it_.cur_obj))), 'abort': lambda it_, f, st, a: None,
                      'remove': lambda it_, f, st, a: _remove(it_, f, st, a)})
        it = minterp.Interp(prog, {'str:empty': [0]}, hooks=hooks, inline=('*',), max_steps=200000)
        cal = it.new_record(CAL)
        it._keep.append(cal)
        cal['special_days_'] = {'__map__': True}
        if not isinstance(cal.get('week_mask_'), int):
            raise AnalysisBroken('WorkdayCalendar::week_mask_ has no default the replay can read')
        if not isinstance(cal.get('watch_alarms_'), list):
            cal['watch_alarms_'] = []
        alarms = [{'__cls__': 'tbox::alarm::Alarm', '__open__': True, 'n': i} for i in range(2)]
        it._keep += alarms

        def call(name, args):
            g = [x for x in prog.by_name.get(CAL + '::' + name, ()) if x.body is not None and len(x.params) == len(args)]
            if len(g) != 1:
                raise AnalysisBroken('WorkdayCalendar::%s/%d: %d candidate(s)' % (name, len(args), len(g)))
            return it.call(g[0], list(args), this=cal)
        for a_ in alarms:
            call('subscribe', [it.ref(a_)])
        subscribed = list(alarms)
        why = None
        for k, (kind, v) in enumerate(seq):
            if k == 1:
                call('unsubscribe', [it.ref(alarms[1])])
                subscribed = [alarms[0]]
            before = [bool(call('isWorkay', [d])) for d in range(0, 15)]
            del refreshed[:]
            if kind == 'days':
                m = {'__map__': True}
                m.update(v)
                call('updateSpecialDays', [m])
            else:
                call('updateWeekMask', [v])
            if it.faults:
                why = it.faults[0]
                break
            after = [bool(call('isWorkay', [d])) for d in range(0, 15)]
            if before != after:
                missing = [a_['n'] for a_ in subscribed if id(a_) not in refreshed]
                if missing:
                    d = next(i for i in range(15) if before[i] != after[i])
                    why = 'update %d (%s) makes day %d a %s and the subscribed alarm(s) %s are not refreshed' % (k + 1, 'special days %s' % v if kind == 'days' else 'week mask %#x' % v, d,
                                                                                                           'workday' if after[d] else 'day off', missing)
                    break
            if any(id(a_) in refreshed for a_ in alarms if a_ not in subscribed):
                why = 'update %d refreshes an alarm that has unsubscribed' % (k + 1)
                break
        if why and bad is None:
            bad = (seq, why)
    f = prog.fn1(CAL + '::updateSpecialDays')
    ctx.ob('C20.R16', 'WorkdayCalendar|updates', bad is None, '%d sequences of updates' % n if bad is None else
           'updates %s: %s' % (' ; '.join('%s %s' % (k_, v_) for k_, v_ in bad[0]), bad[1]), where=f.loc(f.body))


def _remove(it, f, st, a):
    """std::remove(first, last, value): the kept elements move to the front, the new end is returned"""
    first, last, val = a[0], a[1], a[2]
    v = first.c
    seg = v[first.k:last.k]
    keep = [x for x in seg if not (x == val)]
    v[first.k:last.k] = keep + seg[len(keep):]
    return minterp.It(v, first.k + len(keep))
