"""C01 — the deferred-call queues replayed over scripts of submissions, cancellations, loop turns, stops and restarts (C01.R13).  Imported by rules/C01.py.

tbxlint/minterp.py interprets the syntax trees of CommonLoop (runInLoop, runNext, run, cancel, RemoveRunFuncItemById, handleRunInLoopFunc, handleNextFunc,
commitRunRequest, finishRunRequest, runThisBeforeLoop, runThisAfterLoop, cleanupDeferredTasks, cleanup) with the three queues as sequences of records.  The eventfd is a
counter (write adds a token, read takes it; a read without a token is a fault), the read event of the queue is a record with its callback, and a turn of the loop is what
both engines do: dispatch the read event if — and only if — a token is pending, then handleNextFunc().  The "other thread" is a thread number the model switches between
operations (every operation is atomic; data races are the business of the lock rules, not of this one).  Each submitted callable records its run; some submit or cancel
another one when they run.  Verdicts: exactly once unless cancel() answered true, then never; per entry point in submission order; nothing pending is left behind by a
stop, a destruction or — while the loop is running — by turns of the loop (a pending runInLoop call without a pending token is a lost wake-up)."""
import itertools
from tbxlint.facts import AnalysisBroken
from tbxlint import minterp
from tbxlint.minterp import P

L = 'tbox::event::CommonLoop'


def _pop_front(it, f, st, a):
    v = minterp._vec(it, f, st)
    if not v:
        it.fault(f, st, 'pop_front on an empty sequence')
        return None
    v.pop(0)


def _swap(it, f, st, a):
    if 'obj' not in st and len(a) == 2:         # std::swap(x, y)
        v, o = a[0], a[1]
    else:
        v, o = minterp._vec(it, f, st), a[0]
    if not isinstance(v, list):
        raise AnalysisBroken('%s: swap of something the replay does not hold as a sequence (%s)' % (f.short, f.loc(st['i'])))
    if not isinstance(o, list):
        raise AnalysisBroken('%s: swap with something the replay does not hold as a sequence (%s)' % (f.short, f.loc(st['i'])))
    v[:], o[:] = list(o), list(v)


def _remove_if(it, f, st, a):
    """std::remove_if(first, last, pred): the kept elements move to the front in order, the iterator to the new end is returned"""
    first, last, pred = a[0], a[1], a[2]
    v = first.c if hasattr(first, 'c') else None
    if v is None or not isinstance(v, list):
        raise AnalysisBroken('%s: remove_if over something the replay does not hold as a sequence (%s)' % (f.short, f.loc(st['i'])))
    lo, hi = first.k, last.k
    seg = v[lo:hi]
    keep = [x for x in seg if not it.invoke(f, st, pred, [it.ref(x) if isinstance(x, dict) else x])]
    v[lo:hi] = keep + seg[len(keep):]
    return minterp.It(v, lo + len(keep))


def _op_eq(it, f, st, a):
    """thread ids are numbers, iterators are positions"""
    ops = ([it.cur_obj] if 'obj' in st else []) + list(a)
    if len(ops) == 3 and ops[0] is ops[1]:
        ops = ops[1:]           # a free operator: the interpreter hands the first operand over twice
    x, y = ops[0], ops[1]
    if isinstance(x, minterp.It):
        return int(x.same(y))
    if isinstance(x, int) and isinstance(y, int):
        return int(x == y)
    raise AnalysisBroken('%s: comparison of values the replay does not understand (%s)' % (f.short, f.loc(st['i'])))


class Bench:
    def __init__(self, prog):
        self.prog = prog
        self.thread = 2
        self.token = 0
        self.fd_open = False
        self.ran = []               # (callable number, thread, phase)
        self.subs = []              # per callable: {'entry', 'id', 'cancelled'}
        self.phase = 'idle'
        self.events = []
        noop = lambda it, f, st, a: None
        hooks = dict(minterp.VECTOR_HOOKS)
        hooks.update({'pop_front': _pop_front, 'swap': _swap, 'remove_if': _remove_if, 'move': lambda it, f, st, a: a[0], 'now': lambda it, f, st, a: 0,
                      'get_id': lambda it, f, st, a: self.thread, 'CreateEventFd': self.h_create, 'close': self.h_close, 'write': self.h_write, 'read': self.h_read,
                      'newFdEvent': self.h_new_event, 'resetStat': noop, 'bind': lambda it, f, st, a: ('bind', a[0], list(a[1:])), 'abort': self.h_abort,
                      'lock_guard': noop, 'operator==': _op_eq, 'operator!=': lambda it, f, st, a: 1 - _op_eq(it, f, st, a)})
        for c in ('FdEvent', 'Event'):
            hooks[c + '::initialize'] = lambda it, f, st, a: 1
            hooks[c + '::setCallback'] = lambda it, f, st, a: it.record_of(it.cur_obj).__setitem__('cb', a[0])
            hooks[c + '::enable'] = lambda it, f, st, a: (it.record_of(it.cur_obj).__setitem__('enabled', 1), 1)[1]
            hooks[c + '::disable'] = lambda it, f, st, a: (it.record_of(it.cur_obj).__setitem__('enabled', 0), 1)[1]
        self.it = minterp.Interp(prog, {'str:empty': [0]}, hooks=hooks, inline=('*',), max_steps=4000000)
        self.it.noeval = set(getattr(self.it, 'noeval', ())) | {'LogNotice', 'LogErr', 'LogWarn'}
        self.it.ctor_hooks['std::thread::id'] = lambda it, f, st, args: (args[0] if args and isinstance(args[0], int) else 0)          # a copy, or the id that names no thread
        self.rec = self.it.new_record(L)
        self.it._keep.append(self.rec)
        wl = self.rec.get('water_line_')
        wlr = self.it.record_of(wl) if not isinstance(wl, dict) else wl
        if wlr is None:
            wlr = {'__cls__': 'tbox::event::Loop::WaterLine', '__open__': True}
            self.it._keep.append(wlr)
            self.rec['water_line_'] = wlr
        for k in ('run_in_loop_queue_size', 'run_next_queue_size', 'wake_delay', 'loop_cost', 'event_cb_cost', 'run_cb_cost', 'run_in_loop_delay', 'run_next_delay', 'timer_delay'):
            wlr[k] = 1 << 60
        for k in ('run_in_loop_func_queue_', 'run_next_func_queue_', 'tmp_func_queue_'):
            if not isinstance(self.rec.get(k), list):
                self.rec[k] = []
        for k in ('loop_thread_id_', 'whole_stat_start_', 'loop_stat_start_', 'request_stat_start_', 'event_cb_stat_start_', 'loop_acc_cost_', 'loop_peak_cost_'):
            self.rec[k] = 0

    # ---- the descriptor and the event
    def h_abort(self, it, f, st, a):
        it.fault(f, st, 'an assertion of the library fails (abort)')
        raise minterp._Abort()

    def h_create(self, it, f, st, a):
        self.fd_open = True
        self.token = 0
        return 9

    def h_close(self, it, f, st, a):
        if a and a[0] == 9:
            self.fd_open = False
            self.token = 0
        return 0

    def h_write(self, it, f, st, a):
        if a[0] != 9 or not self.fd_open:
            it.fault(f, st, 'the wake-up token is written to descriptor %s, which is not the open eventfd of the loop' % (a[0],))
            return -1
        self.token += 1
        return 8

    def h_read(self, it, f, st, a):
        if a[0] != 9 or not self.fd_open:
            it.fault(f, st, 'the wake-up token is read from descriptor %s, which is not the open eventfd of the loop' % (a[0],))
            return -1
        if self.token == 0:
            it.fault(f, st, 'the eventfd is read while no token is pending (the loop thread blocks / the read fails)')
            return -1
        self.token = 0
        return 8

    def h_new_event(self, it, f, st, a):
        e = {'__cls__': 'tbox::event::FdEvent', '__open__': True, 'enabled': 0, 'cb': 0}
        it._keep.append(e)
        self.events.append(e)
        return it.ref(e)

    def call(self, name, args=(), pick=None):
        cands = [g for g in self.prog.by_name.get(L + '::' + name, ()) if g.body is not None and len(g.params) == len(args) and (pick is None or pick(g))]
        if len(cands) != 1:
            raise AnalysisBroken('CommonLoop::%s/%d: %d candidate(s)' % (name, len(args), len(cands)))
        return self.it.call(cands[0], list(args), this=self.rec)

    def running(self):
        return self.rec.get('sp_run_read_event_') not in (0, None)

    # ---- callables
    def submit(self, entry, thread, nested=None):
        n = len(self.subs)
        info = {'entry': entry, 'id': None, 'cancelled': False, 'thread': thread, 'when': self.phase, 'answer': None}
        self.subs.append(info)

        def fn(n=n, nested=nested):
            self.ran.append((n, self.thread, self.phase))
            if nested is not None:
                if nested[0] == 'cancel':
                    self.cancel(nested[1])
                else:
                    self.submit(nested[0], self.thread)
        saved = self.thread
        self.thread = thread
        mv = lambda g: g.params[0]['t'].rstrip().endswith('&&')
        info['id'] = self.call({'next': 'runNext', 'inloop': 'runInLoop', 'run': 'run'}[entry], [fn, P('str:empty', 0)], pick=mv)
        if entry == 'run':
            info['entry'] = 'next' if isinstance(info['id'], int) and info['id'] & 1 else 'inloop'
            info['via_run'] = True
        self.thread = saved
        return n

    def cancel(self, k):
        if k >= len(self.subs) or self.subs[k]['id'] is None:
            return
        r = self.call('cancel', [self.subs[k]['id']])
        self.subs[k]['answer'] = bool(r)
        if r:
            if any(x[0] == k for x in self.ran):
                self.problem = getattr(self, 'problem', None) or 'cancel() answers true for callable #%d, which has already been invoked' % k
            self.subs[k]['cancelled'] = True

    # ---- the loop
    def start(self):
        self.thread = 1
        self.phase = 'running'
        self.call('runThisBeforeLoop')

    def turn(self):
        """what both engines do in one iteration: dispatch the queue's read event if its descriptor is readable, then the next-queue"""
        self.thread = 1
        ev = self.it.record_of(self.rec.get('sp_run_read_event_'))
        if ev is not None and ev.get('enabled') and self.token > 0:
            f0 = self.prog.fn1(L + '::handleRunInLoopFunc')
            self.it.invoke(f0, f0.stmts[0], ev['cb'], [])
        self.call('handleNextFunc')

    def stop(self):
        self.thread = 1
        self.phase = 'stopping'
        self.call('runThisAfterLoop')
        self.phase = 'stopped'

    def destroy(self):
        self.thread = 3
        self.phase = 'destroying'
        self.call('cleanup')
        self.phase = 'gone'

    def pending(self):
        return sum(len(self.rec[k]) for k in ('run_in_loop_func_queue_', 'run_next_func_queue_', 'tmp_func_queue_'))


def run_script(prog, script, tail='restart'):
    """first problem as text, or None"""
    b = Bench(prog)
    it = b.it
    for a in script:
        k = a[0]
        if k in ('next', 'inloop', 'run'):
            b.submit(k, a[1], a[2] if len(a) > 2 else None)
        elif k == 'cancel':
            b.thread = 1
            b.cancel(a[1])
        elif k == 'start':
            if not b.running():
                b.start()
        elif k == 'turn':
            if b.running():
                b.turn()
        elif k == 'stop':
            if b.running():
                b.stop()
        if it.faults:
            return it.faults[0]
    # the loop keeps turning until nothing is ready: whatever is still pending then is never run while the loop lives
    if b.running():
        for _ in range(12):
            before = (len(b.ran), b.pending(), b.token)
            b.turn()
            if it.faults:
                return it.faults[0]
            if (len(b.ran), b.pending(), b.token) == before:
                break
        left = [n for n, s_ in enumerate(b.subs) if not s_['cancelled'] and not any(x[0] == n for x in b.ran)]
        if left:
            s_ = b.subs[left[0]]
            return 'callable #%d (%s from thread %d) is still pending after the loop has gone round until nothing was ready: %s' % (
                left[0], 'runInLoop' if s_['entry'] == 'inloop' else 'runNext', s_['thread'],
                'no wake-up token is pending for it (lost wake-up)' if s_['entry'] == 'inloop' and b.token == 0 else 'it is never dispatched')
        b.stop()
        if it.faults:
            return it.faults[0]
    else:
        # not running at the end: the loop is run once more, or destroyed — either way what is pending is run
        if tail == 'restart':
            b.start()
            if not it.faults:
                b.turn()
            if not it.faults:
                b.stop()
        else:
            b.destroy()
        if it.faults:
            return it.faults[0]
    if getattr(b, 'problem', None):
        return b.problem
    counts = {}
    for n, th, ph in b.ran:
        counts[n] = counts.get(n, 0) + 1
    for n, s_ in enumerate(b.subs):
        c = counts.get(n, 0)
        if s_['cancelled'] and c:
            return 'callable #%d is invoked although cancel() answered true' % n
        if not s_['cancelled'] and c != 1:
            return 'callable #%d (%s, thread %d, submitted while %s) is invoked %d time(s)%s' % (n, s_['entry'], s_['thread'], s_['when'], c,
                                                                                             '; cancel() had answered false' if s_['answer'] is False else '')
    if b.pending():
        return '%d deferred call(s) are left in the queues at the end' % b.pending()
    for entry in ('next', 'inloop'):
        order = [n for n, th, ph in b.ran if b.subs[n]['entry'] == entry]
        if order != sorted(order):
            return '%s callables run in the order %s, not in submission order' % ('runNext' if entry == 'next' else 'runInLoop', order)
    for n, th, ph in b.ran:
        if ph == 'running' and th != 1:
            return 'callable #%d runs on thread %d while the loop runs on thread 1' % (n, th)
    for n, s_ in enumerate(b.subs):
        if s_.get('via_run') and s_['when'] == 'running' and s_['thread'] != 1 and s_['entry'] != 'inloop':
            return 'run() from another thread while the loop runs goes to the loop-thread-only queue'
    return None


def scripts(depth):
    subs = [('next', 1), ('inloop', 2), ('inloop', 1), ('run', 2), ('run', 1), ('next', 1, ('next',)), ('inloop', 2, ('inloop',)), ('next', 1, ('inloop',)), ('inloop', 2, ('next',))]
    ctl = [('start',), ('turn',), ('stop',), ('cancel', 0), ('cancel', 1)]
    out = []
    alpha = subs + ctl
    for n in range(1, depth + 1):
        for s_ in itertools.product(alpha, repeat=n):
            if s_[0][0] in ('turn', 'stop', 'cancel'):
                continue
            if any(s_[i] == s_[i + 1] and s_[i][0] in ('start', 'stop', 'turn') for i in range(len(s_) - 1)):
                continue
            out.append(s_)
    # cancellation from inside a callable: of one queued behind it in the same batch, of one in the other queue, of itself
    # a second life: what is submitted after a stop needs a fresh wake-up when the loop runs again
    for x in (('inloop', 2), ('inloop', 1), ('run', 2), ('next', 1)):
        for y in (('inloop', 2), ('next', 1), ('run', 1)):
            out.append((('start',), x, ('stop',), y))
            out.append((('start',), x, ('stop',), y, ('start',), ('inloop', 2), ('turn',)))
            out.append((x, ('start',), ('turn',), y, ('stop',), ('inloop', 2), ('start',), y))
    for first in (('next', 1, ('cancel', 1)), ('inloop', 2, ('cancel', 1)), ('next', 1, ('cancel', 2)), ('inloop', 2, ('cancel', 0))):
        for second in (('next', 1), ('inloop', 2)):
            for third in (('next', 1), ('inloop', 2)):
                for pre in ((('start',),), ()):
                    out.append(pre + (first, second, third) + ((('start',),) if not pre else ()) + (('turn',), ('turn',)))
                    out.append(pre + (first, second, third))
    return out


def r13(ctx, prog):
    depth = 4 if ctx.tier == 'thorough' else 3
    sc = scripts(depth)
    ctx.rule('C01.R13', 'A10 the deferred-call queues by abstract replay: %d scripts of up to %d operations (runNext / runInLoop / run from the loop thread and from another thread, before, while '
             'and after the loop runs; callables that submit or cancel another one when they run; cancel; start, turns and stop of the loop, then a restart or the destruction) run '
             'on the syntax trees of CommonLoop with the eventfd as a token counter and a turn of the loop dispatching the queue\'s read event only when a token is pending: every '
             'callable is invoked exactly once unless cancel() answered true, then never; per entry point in submission order; run() from another thread while the loop runs takes '
             'the thread-safe entry; a runInLoop call pending while the loop runs always has a wake-up token pending; nothing is left in the queues by a stop or a destruction; the '
             'eventfd is never read without a token nor used after it was closed' % (len(sc), depth), floor=1)
    bad = None
    for s_ in sc:
        why = run_script(prog, s_, 'restart') or run_script(prog, s_, 'destroy')
        if why is not None:
            bad = (s_, why)
            break
    f = prog.fn1(L + '::handleRunInLoopFunc')
    ctx.ob('C01.R13', 'CommonLoop|deferred-calls', bad is None, '%d scripts: exactly once, in order, nothing lost' % len(sc) if bad is None else
           'script %s: %s' % (' '.join('%s(%s)' % (a[0], ','.join(str(x) for x in a[1:])) for a in bad[0]), bad[1]), where=f.loc(f.body))
