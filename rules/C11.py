"""C11 — module tree lifecycle (DESIGN §4 C11)."""
from tbxlint.facts import extract, AnalysisBroken, MODULES
from tbxlint import locks, q

M = 'tbox::main::Module'
SCOPE = ['main/module.cpp', 'main/run_in_frontend.cpp', 'main/run_in_backend.cpp']


def state_stores(f, enumerator):
    out = []
    for a, rhs in q.assigns(f, 'Module::state_'):
        r = f.s(f.strip_casts(rhs))
        if r is not None and r.get('n') == enumerator:
            out.append(a)
    return out


def hook_calls(f, hook):
    return [st for st in f.calls() if st.get('fn') == hook and st.get('cls') == M and ('obj' not in st or f.path(st['obj']) == 'this')]


def child_calls(f, meth):
    return [st for st in f.calls() if st.get('fn') == meth and st.get('cls') == M and 'obj' in st and 'module_ptr' in f.path(st['obj'])]


def success_edge_filter(f, call):
    """edge filter that only keeps the *success* outcome of a boolean call used as a branch condition:
    `if (!call) {...}` -> false edge;  `if (call)` -> true edge."""
    blocked = set()
    for b in f.cfg.blocks.values():
        if b.cond is None or len(b.succ) != 2:
            continue
        cs = f.s(f.strip_casts(b.cond))
        neg = False
        while cs and cs['k'] == 'UnaryOperator' and cs.get('op') == '!':
            neg = not neg
            cs = f.s(f.strip_casts(cs['ch'][0]))
        if cs is not None and cs['i'] == call['i']:
            blocked.add((b.id, 0 if neg else 1))
    return (lambda bb, kk: (bb, kk) not in blocked), bool(blocked)


def reverse_child_loops(f, calls):
    """loops in f whose body contains one of `calls` and that walk children_ from the back: reverse iterators (rbegin..rend)
    or an index that starts at children_.size() and only counts down"""
    out = []
    for l in f.stmts:
        if not l or l['k'] not in ('ForStmt', 'WhileStmt') or l.get('body') is None or not any(c['i'] in set(f.walk(l['body'])) for c in calls):
            continue
        sub = set(f.walk(l['i']))
        calls_in = [f.stmts[x] for x in sub if f.stmts[x]['k'] in q.CALL_KINDS]
        incs = [f.stmts[x] for x in sub if f.stmts[x]['k'] in ('UnaryOperator', 'CXXOperatorCallExpr') and f.stmts[x].get('op') == '++']
        decs = [f.stmts[x] for x in sub if f.stmts[x]['k'] in ('UnaryOperator', 'CXXOperatorCallExpr') and f.stmts[x].get('op') == '--']
        by_riter = any(c.get('fn') == 'rbegin' for c in calls_in) and any(c.get('fn') == 'rend' for c in calls_in) and bool(incs) and not decs
        by_index = l.get('init') is not None and any(c.get('fn') == 'size' and (f.field_of(c.get('obj')) or '').endswith('children_') for c in q.subtree_calls(f, l['init'])) and \
            bool(decs) and not incs
        if by_riter or by_index:
            out.append(l)
    return out


def r1(ctx, prog):
    ctx.rule('C11.R1', 'A5 hook balance: on every path of initialize()/start() after the module\'s own hook succeeded, either the state advances '
                       '(so cleanup()/stop() will run the matching hook later) or the matching hook is called before returning; the rollback also '
                       'covers the children; stop()/cleanup() run the own hook exactly once behind their state gate', floor=8)
    for fn, hook, undo, newstate, child_undo in (('initialize', 'onInit', 'onCleanup', 'kInited', 'cleanup'), ('start', 'onStart', 'onStop', 'kRunning', 'stop')):
        f = prog.fn1(M + '::' + fn)
        hs = hook_calls(f, hook)
        if len(hs) != 1:
            raise AnalysisBroken('%s: expected one %s() call, found %d' % (f.name, hook, len(hs)))
        h = hs[0]
        filt, found = success_edge_filter(f, h)
        if not found:
            raise AnalysisBroken('%s: result of %s() is not tested' % (f.name, hook))
        adv = state_stores(f, newstate)
        und = hook_calls(f, undo)
        hp = q.pt(f, h)
        ok = not f.cfg.exists_path(hp, 'exit', avoid=q.pts(f, adv) + q.pts(f, und), edge_filter=filt)
        ctx.ob('C11.R1', '%s|own-hook-matched' % f.name, ok,
               'after %s() succeeded every exit either stores state_=%s or calls %s()' % (hook, newstate, undo) if ok else
               'there is a path on which %s() succeeded but %s returns without advancing state_ and without calling %s(): state_ gates %s(), so the matching hook '
               'can never run for this module (nor for the children that were already handled)' % (hook, fn, undo, child_undo), where=f.loc(h['i']))
        # failing returns inside the children loop must undo the children too
        cc = child_calls(f, fn)
        if not cc:
            raise AnalysisBroken('%s: recursive call on children not found' % f.name)
        undo_loops = reverse_child_loops(f, child_calls(f, child_undo))
        must = [f.cfg.point_of(l['cond']) for l in undo_loops if l.get('cond') is not None]
        n_fail = 0
        for r in q.returns(f):
            if q.return_const(f, r) == 0 and any(f.cfg.exists_path(q.pt(f, c), q.pt(f, r)) for c in cc):
                n_fail += 1
                okr = bool(must) and not any(f.cfg.exists_path(q.pt(f, c), q.pt(f, r), avoid=must) for c in cc)
                ctx.ob('C11.R1', '%s|children-rolled-back' % f.name, okr,
                       'every path from a child\'s %s() to this failure return runs %s() over the children in reverse order' % (fn, child_undo) if okr else
                       'a required child failed: %s returns false without running %s() on the children that already succeeded' % (fn, child_undo), where=f.loc(r['i']))
        if n_fail == 0:
            ctx.ob('C11.R1', '%s|children-rolled-back' % f.name, False, 'no failure return after the children loop: a failing required child is ignored', where=f.loc(f.body))
        # success store comes after all children
        for a in adv:
            ctx.ob('C11.R1', '%s|advance-last' % f.name, all(not f.cfg.exists_path(q.pt(f, a), q.pt(f, c)) for c in cc), 'state_ advances only after the children loop', where=f.loc(a['i']))
    for fn, hook, gate_state, newstate in (('stop', 'onStop', 'kRunning', 'kInited'), ('cleanup', 'onCleanup', 'kNone', 'kNone')):
        f = prog.fn1(M + '::' + fn)
        hs = hook_calls(f, hook)
        ok = len(hs) == 1
        if ok:
            hp = q.pt(f, hs[0])
            g = [c for c, k, b in f.cfg.controlling_branches(hp) if any(x.endswith('Module::state_') for x in q.subtree_fields(f, c))]
            adv = state_stores(f, newstate)
            ok = bool(g) and not f.cfg.exists_path(hp, hp) and bool(adv) and q.must_follow(f, hp, q.pts(f, adv))
        ctx.ob('C11.R1', '%s|gated-once' % f.name, ok, '%s() runs once behind the state_ gate and is followed by state_=%s' % (hook, newstate), where=f.loc(f.body))


def r2(ctx, prog):
    ctx.rule('C11.R2', 'A4: nesting/order shape: own init/start hook before the forward loop over children; stop/cleanup walk the children in '
                       'reverse and call the own hook after the loop; cleanup stops first; only required children abort', floor=8)
    for fn, hook in (('initialize', 'onInit'), ('start', 'onStart')):
        f = prog.fn1(M + '::' + fn)
        h = hook_calls(f, hook)[0]
        cc = [c for c in child_calls(f, fn)]
        ctx.ob('C11.R2', '%s|own-first' % f.name, all(f.cfg.dominates(q.pt(f, h), q.pt(f, c)) for c in cc), 'own hook dominates the children loop', where=f.loc(h['i']))
        fwd = [l for l in f.stmts if l and l['k'] == 'CXXForRangeStmt' and (f.field_of(l['range']) or '').endswith('children_') and any(c['i'] in set(f.walk(l['body'])) for c in cc)]
        ctx.ob('C11.R2', '%s|forward' % f.name, bool(fwd), 'children handled by a forward range-for over children_ (registration order)', where=f.loc(f.body))
        # abort only for required children
        # abort only for required children: whatever leaves the children loop early (return / break) lies behind "this child's call failed" and
        # "item.required" — read off the dominating branch edges, whatever the spelling (&&, nested ifs, continue)
        n_leave = 0
        for r in f.stmts:
            if r and r['k'] in ('ReturnStmt', 'BreakStmt') and fwd and any(r['i'] in set(f.walk(l['body'])) for l in fwd):
                n_leave += 1
                failed = req = False
                rp_ = q.pt_or_term(f, r)
                if rp_ is None:
                    continue
                for cond, k, b in f.cfg.controlling_branches(rp_):
                    rel = q.edge_relation(f, cond, k)
                    if rel is None:
                        continue
                    lhs, op, rhs = rel
                    if any(c['i'] in set(f.walk(cond)) for c in cc) and (op, rhs) == ('==', '0'):
                        failed = True
                    if lhs.endswith('item.required') and (op, rhs) == ('!=', '0'):
                        req = True
                ctx.ob('C11.R2', '%s|required-only' % f.name, failed and req, 'a child failure aborts only when item.required' if failed and req else
                       'the children loop is left early without "this child failed and is required" on the way (failed=%s, required=%s)' % (failed, req), where=f.loc(r['i']))
        if n_leave == 0:
            ctx.ob('C11.R2', '%s|required-only' % f.name, False, 'the children loop never aborts: a failing required child is ignored', where=f.loc(f.body))
    for fn, hook in (('stop', 'onStop'), ('cleanup', 'onCleanup')):
        f = prog.fn1(M + '::' + fn)
        h = hook_calls(f, hook)[0]
        cc = child_calls(f, fn)
        loops = [l for l in f.stmts if l and l['k'] in ('ForStmt', 'WhileStmt', 'CXXForRangeStmt') and l.get('body') is not None and any(c['i'] in set(f.walk(l['body'])) for c in cc)]
        revl = reverse_child_loops(f, cc)
        rev = bool(loops) and len(revl) == len(loops)
        ctx.ob('C11.R2', '%s|reverse' % f.name, rev, 'children walked from the back (rbegin()..rend() or a down-counting index)', where=f.loc(f.body))
        # every child is swept: inside the loop the child's %s() is not behind any per-child condition (each child gates itself on its own state_)
        for c in cc:
            lp = [l for l in loops if c['i'] in set(f.walk(l['body']))]
            inner = []
            for cond, k, b in f.cfg.controlling_branches(q.pt(f, c)):
                if lp and cond in set(f.walk(lp[0]['body'])):
                    inner.append(q.expr_text(f, cond))
            ctx.ob('C11.R2', '%s|sweeps-every-child' % f.name, not inner, 'the sweep calls %s() on every child' % fn if not inner else
                   'the sweep skips children under %s: a child that is initialised/running but excluded by that condition never gets its %s()' % (inner, fn), where=f.loc(c['i']))
        ctx.ob('C11.R2', '%s|own-last' % f.name, bool(cc) and all(not f.cfg.exists_path(q.pt(f, h), q.pt(f, c)) for c in cc) and all(f.cfg.exists_path(q.pt(f, c), q.pt(f, h)) for c in cc),
               'own hook comes after the children loop', where=f.loc(h['i']))
    c = prog.fn1(M + '::cleanup')
    st = [x for x in c.calls() if x.get('fn') == 'stop' and x.get('cls') == M and ('obj' not in x or c.path(x['obj']) == 'this')]
    ctx.ob('C11.R2', '%s|stop-first' % c.name, bool(st) and all(c.cfg.dominates(q.pt(c, st[0]), q.pt(c, x)) for x in child_calls(c, 'cleanup') + hook_calls(c, 'onCleanup')),
           'cleanup() stops the module before cleaning anything', where=c.loc(c.body))
    d = [f for f in prog.methods_of(M) if f.d.get('dtor')]
    if d:
        cl = [x for x in d[0].calls() if x.get('fn') == 'cleanup']
        dels = [x for x in d[0].stmts if x and x['k'] == 'CXXDeleteExpr']
        ctx.ob('C11.R2', '%s|dtor' % d[0].name, bool(cl) and bool(dels) and all(not d[0].cfg.exists_path(q.pt(d[0], x), q.pt(d[0], cl[0])) for x in dels), 'destructor cleans up before deleting the children', where=d[0].loc(d[0].body))


def r3(ctx, prog):
    ctx.rule('C11.R3', 'A4: Main() sequencing: a successful apps.initialize is always followed by apps.cleanup, a successful ctx.initialize by ctx.cleanup; '
                       'start only inside the successful-init branch', floor=4)
    n = 0
    for f in prog.funcs.values():
        if f.short not in ('Main', 'Start') or not f.file.startswith(MODULES + '/main/run_in_') or f.parent_func is not None:
            continue
        n += 1
        tag = '%s@%s' % (f.name, f.file.split('/')[-1])
        for obj in ('apps', 'ctx'):
            ini = [st for st in f.calls() if st.get('fn') == 'initialize' and 'obj' in st and f.path(st['obj']) == obj]
            cln = [st for st in f.calls() if st.get('fn') == 'cleanup' and 'obj' in st and f.path(st['obj']) == obj]
            if not ini:
                raise AnalysisBroken('%s: %s.initialize() not found' % (f.name, obj))
            filt, found = success_edge_filter(f, ini[0])
            # the backend variant hands a running tree over to Stop(): `return true` after a successful apps.start()
            st_ok = [x for x in f.calls() if x.get('fn') == 'start' and 'obj' in x and f.path(x['obj']) == 'apps']
            handover = [r for r in q.returns(f) if q.return_const(f, r) == 1 and f.short == 'Start' and st_ok and
                        any(br == 'then' and st_ok[0]['i'] in set(f.walk(c)) for c, br in q.lexical_guards(f, r['i']))]
            ok = found and bool(cln) and not f.cfg.exists_path(q.pt(f, ini[0]), 'exit', avoid=q.pts(f, cln) + q.pts(f, handover), edge_filter=filt)
            ctx.ob('C11.R3', '%s|%s-init-cleanup' % (tag, obj), ok, 'every path after a successful %s.initialize() passes %s.cleanup()%s' % (obj, obj, ' or hands the running tree over (return true after apps.start())' if handover else ''), where=f.loc(ini[0]['i']))
        st = [x for x in f.calls() if x.get('fn') == 'start' and 'obj' in x and f.path(x['obj']) == 'apps']
        ini = [x for x in f.calls() if x.get('fn') == 'initialize' and 'obj' in x and f.path(x['obj']) == 'apps']
        for s_ in st:
            g = [c for c, br in q.lexical_guards(f, s_['i']) if br == 'then' and ini[0]['i'] in set(f.walk(c))]
            ctx.ob('C11.R3', '%s|start-after-init' % tag, bool(g), 'apps.start() only inside the successful apps.initialize() branch', where=f.loc(s_['i']))
    if n < 2:
        raise AnalysisBroken('expected Main() in run_in_frontend.cpp and Start() in run_in_backend.cpp, found %d' % n)
    sp = [f for f in prog.funcs.values() if f.short == 'Stop' and f.file.endswith('main/run_in_backend.cpp') and f.parent_func is None]
    if len(sp) != 1:
        raise AnalysisBroken('run_in_backend.cpp: Stop() not found')
    f = sp[0]
    j = [x for x in f.calls() if x.get('fn') == 'join']
    cl = [x for x in f.calls() if x.get('fn') == 'cleanup' and 'obj' in x and f.path(x['obj']).endswith(('apps', 'ctx'))]
    ok = len(cl) == 2 and bool(j) and all(f.cfg.dominates(q.pt(f, j[0]), q.pt(f, c)) for c in cl) and f.path(cl[0]['obj']).endswith('apps') == (cl[0]['l'] < cl[1]['l'])
    ctx.ob('C11.R3', '%s|cleanup-after-join' % f.name, ok, 'Stop() cleans apps then ctx after the loop thread was joined', where=f.loc(f.body))


def r4(ctx, prog):
    ctx.rule('C11.R4', 'A4 undo is total on the module\'s own state: stop() and cleanup() — the operations the rollback of a failed start()/initialize() and the parent\'s '
             'sweeps rely on — refuse only on a test of the module\'s own state_; every early return in front of the child sweep and the hook is guarded by conditions '
             'that mention nothing else (no parent state, no caller identity), and so are the refusals a helper reports back', floor=2)
    MODC = 'tbox::main::Module'
    for name, hook in (('stop', 'onStop'), ('cleanup', 'onCleanup')):
        f = prog.fn1(MODC + '::' + name)
        hk = [c for c in f.calls() if c.get('fn') == hook]
        if not hk:
            raise AnalysisBroken('Module::%s: call of %s not found' % (name, hook))
        hp = q.pt(f, hk[0])
        bad = []
        for r in q.returns(f):
            rp = q.pt_or_term(f, r)
            if rp is None or f.cfg.exists_path(hp, rp):
                continue        # a return after the hook
            for cond, k, b in f.cfg.controlling_branches(rp):
                flds = {x.split('::')[-1] for x in q.subtree_fields(f, cond)}
                calls = [c for c in q.subtree_calls(f, cond)]
                # helpers of the class are looked into: what do they read?
                for c in calls:
                    for g in prog.by_usr.get(c.get('usr'), ()):
                        if g.cls == MODC:
                            for st in g.stmts:
                                if st and st['k'] == 'MemberExpr' and st.get('mk') == 'field':
                                    base = g.s(g.strip_casts(st['ch'][0])) if st.get('ch') else None
                                    flds.add(('this.' if (base is None or base['k'] == 'CXXThisExpr') else 'other.') + st['n'])
                other = sorted(x for x in flds if x not in ('state_', 'this.state_'))
                if other or any(not any(g.cls == MODC for g in prog.by_usr.get(c.get('usr'), ())) for c in calls):
                    bad.append((r, other))
        ctx.ob('C11.R4', 'Module::%s|total-on-own-state' % name, not bad, '%s() refuses only on its own state_' % name if not bad else
               '%s() has an early return (%s) that depends on %s: the rollback of a failed start and the parent\'s %s sweep call it expecting a running module to be stopped '
               'whatever else holds — a module refused here stays started while its parent\'s %s and onCleanup hooks run' %
               (name, f.loc(bad[0][0]['i']), bad[0][1] or 'a call outside the class', name, hook), where=f.loc(bad[0][0]['i']) if bad else f.loc(f.body))


def run(ctx):
    prog = extract('ALL' if ctx.tier == 'thorough' else SCOPE)
    ctx.guard(r1, ctx, prog)
    ctx.guard(r2, ctx, prog)
    ctx.guard(r3, ctx, prog)
    ctx.guard(r4, ctx, prog)
    from rules import C11_replay
    ctx.guard(C11_replay.r5, ctx, prog)
    return prog
