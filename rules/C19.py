"""C19 — codecs, checksums, MD5, AES (DESIGN §4 C19)."""
from tbxlint.facts import extract, AnalysisBroken, MODULES
from tbxlint import locks, q, refs, ival, rd, absint
from rules import C19_bounds, C19_md5

SCOPE = ['util/base64.cpp', 'util/string.cpp', 'util/scalable_integer.cpp', 'util/serializer.cpp', 'util/crc.cpp', 'util/checksum.cpp',
         'http/url.cpp', 'crypto/md5.cpp', 'crypto/aes.cpp']
SER = 'tbox::util::Serializer'
DES = 'tbox::util::Deserializer'


def gvals(prog, suffix):
    for n, gs in prog.globals.items():
        if n.endswith('::' + suffix):
            g = gs[0]
            if 'vals' in g:
                return [int(v) for v in g['vals']], g
            if 'strs' in g:
                return [ord(c) for c in g['strs'][0]], g
    raise AnalysisBroken('constant table %s not found' % suffix)


def r1(ctx, prog):
    ctx.rule('C19.R1', 'A11: constant tables equal the tables generated from the standards\' defining formulae (RFC 4648 alphabet and its inverse, CRC-16/CCITT '
                       'and reflected CRC-32 polynomials, FIPS-197 S-box/inverse/Rcon via GF(2^8), RFC 1321 sine constants/shifts/indices/initial state/padding, '
                       '7-bit scalable-integer ranges)', floor=12)
    en, _ = gvals(prog, 'base64en')
    de, _ = gvals(prog, 'base64de')
    ctx.ob('C19.R1', 'base64en|rfc4648', en == refs.base64_alphabet(), 'Base64 alphabet is A-Z a-z 0-9 + /')
    inv_ok = len(de) == 128 and all(de[en[i]] == i for i in range(64)) and all(de[j] == 255 for j in range(128) if j not in en)
    ctx.ob('C19.R1', 'base64de|inverse', inv_ok, 'base64de[base64en[i]] == i for all i; every other entry is the invalid marker 255')
    c16, _ = gvals(prog, 'ccitt16_table')
    c32, _ = gvals(prog, 'crc32_table')
    ctx.ob('C19.R1', 'ccitt16_table|poly-0x1021', c16 == refs.crc16_ccitt_table(), '256 entries generated MSB-first from x^16+x^12+x^5+1')
    ctx.ob('C19.R1', 'crc32_table|poly-0xEDB88320', c32 == refs.crc32_reflected_table(), '256 entries generated LSB-first from the reflected CRC-32 polynomial')
    sb, _ = gvals(prog, 'Sbox')
    isb, _ = gvals(prog, 'InvSbox')
    ctx.ob('C19.R1', 'Sbox|fips197', sb == refs.aes_sbox(), 'S-box = affine(GF(2^8) inverse)')
    ctx.ob('C19.R1', 'InvSbox|inverse', isb == refs.aes_inv_sbox() and all(isb[sb[i]] == i for i in range(256)), 'InvSbox[Sbox[i]] == i')
    ke = prog.fn1('tbox::crypto::AES::keyExpansion')
    rc = None
    for st in ke.stmts:
        if st and st['k'] == 'DeclStmt':
            for d in st['decls']:
                if d.get('n') == 'rc' and 'init' in d:
                    il = ke.s(ke.strip_casts(d['init']))
                    rc = [ke.s(ke.strip_casts(x)).get('cv') for x in il['ch']]
    ctx.ob('C19.R1', 'AES::keyExpansion.rc|rcon', rc == refs.aes_rcon(10), 'round constants are 2^i in GF(2^8): %s' % rc, where=ke.loc(ke.body))
    # MD5
    tf = [f for f in prog.funcs.values() if f.file.endswith('crypto/md5.cpp') and f.short.lower() in ('transform',)]
    if len(tf) != 1:
        raise AnalysisBroken('MD5 transform function not found')
    t = tf[0]
    steps = []   # (msg index, shift, constant) in program order
    for st in sorted([s for s in t.stmts if s and s['k'] == 'CompoundAssignOperator' and s.get('op') == '+='], key=lambda s: (s['l'], s['c'])):
        big = [t.stmts[x].get('cv') for x in t.walk(st['ch'][1]) if t.stmts[x]['k'] == 'IntegerLiteral' and (t.stmts[x].get('cv') or 0) > 0xFFFF]
        idx = [t.s(t.strip_casts(t.stmts[x]['ch'][1])).get('cv') for x in t.walk(st['ch'][1]) if t.stmts[x]['k'] == 'ArraySubscriptExpr']
        if big and idx:
            steps.append([idx[0], None, big[0], st])
    rots = []
    for st in sorted([s for s in t.stmts if s and s['k'] == 'BinaryOperator' and s.get('op') == '|'], key=lambda s: (s['l'], s['c'])):
        l, r = t.s(t.strip_casts(st['ch'][0])), t.s(t.strip_casts(st['ch'][1]))
        def sh(x, op):
            x = t.s(t.strip_casts(x['i'])) if x else None
            while x and x['k'] == 'ParenExpr':
                x = t.s(t.strip_casts(x['ch'][0]))
            if x and x['k'] == 'BinaryOperator' and x.get('op') == op:
                return ival.interval(t, x['ch'][1])
            return None
        a, b = sh(l, '<<'), sh(r, '>>')
        if a and b and a[0] == a[1] and b[0] == b[1] and a[0] + b[0] == 32:
            rots.append(a[0])
    ks = [s[2] for s in steps]
    ctx.ob('C19.R1', 'MD5::transform|sine-constants', ks == refs.md5_k(), '64 step constants equal floor(2^32 * |sin(i+1)|) in order (%d found)' % len(ks), where=t.loc(t.body))
    ctx.ob('C19.R1', 'MD5::transform|message-order', [s[0] for s in steps] == refs.md5_msg_index(), 'message words are used in the RFC 1321 order per round', where=t.loc(t.body))
    ctx.ob('C19.R1', 'MD5::transform|shifts', rots == refs.md5_shifts(), 'rotate amounts per step equal the RFC 1321 schedule (%d found)' % len(rots), where=t.loc(t.body))
    init = []
    for f in prog.funcs.values():
        if f.file.endswith('crypto/md5.cpp') and f.d.get('ctor'):
            for st in sorted([x for x in f.stmts if x and x['k'] == 'BinaryOperator' and x.get('op') == '='], key=lambda x: x['l']):
                l = f.s(f.strip_casts(st['ch'][0]))
                if l and l['k'] == 'ArraySubscriptExpr' and (f.field_of(l['ch'][0]) or '').endswith('MD5::state_'):
                    init.append(f.s(f.strip_casts(st['ch'][1])).get('cv'))
    ctx.ob('C19.R1', 'MD5::MD5|initial-state', init == refs.MD5_INIT, 'initial chaining value A,B,C,D')
    try:
        pad, _ = gvals(prog, 'PADDING')
    except AnalysisBroken:
        pad = None      # no padding table: the padding bytes are whatever finish() writes, decided by C19.R16
    if pad is not None:
        ctx.ob('C19.R1', 'MD5.PADDING|0x80-then-zeros', pad == [0x80] + [0] * 63, '64-byte padding block')
    mn, _ = gvals(prog, '_min_value_tbl')
    mx, _ = gvals(prog, '_max_value_tbl')
    ok = mn[1] == 0 and all(mx[n] - mn[n] + 1 == 2 ** (7 * n) for n in range(1, 10)) and all(mn[n + 1] == mx[n] + 1 for n in range(1, 10)) and len(mn) == 11 and len(mx) == 10
    ctx.ob('C19.R1', 'scalable_integer.tables|7-bits-per-byte', ok, 'an n-byte encoding covers exactly 2^(7n) consecutive values, ranges are contiguous')
    h, _ = gvals(prog, 'char_to_hex')
    ctx.ob('C19.R1', 'url.char_to_hex|hex-digits', h == [ord(c) for c in '0123456789ABCDEF'], 'upper-case hex digit table')


def table_decls(prog):
    """decl id / qualified name -> number of elements for global constant arrays and string tables"""
    out = {}
    for n, gs in prog.globals.items():
        for g in gs:
            if g.get('n_elems'):
                out[n] = g['n_elems']
            elif g.get('strs') and len(g['strs']) == 1:
                out[n] = len(g['strs'][0]) + 1
    return out


def counted_loop_proof(f, sub, size):
    """index V = c0 + (number of non-final iterations of a counted loop): V starts at a constant, is incremented only once per
    iteration *after* the loop's completion test (flag = true; break), the loop runs at most K times (i from 0, i < K), and the
    subscript is dominated by `if (!flag) return`.  Then V <= c0 + K - 1."""
    v = f.s(f.strip_casts(sub['ch'][1]))
    if not (v and v['k'] == 'DeclRefExpr' and v.get('dk') == 'Var'):
        return None
    defs = rd.local_defs(f, v['d'])
    inits = [d for d in defs if d['kind'] == 'init']
    incs = [d for d in defs if d['kind'] == '++']
    if len(inits) != 1 or len(incs) != 1 or len(defs) != 2:
        return None
    c0 = f.s(f.strip_casts(inits[0]['rhs'])).get('cv')
    loop = f.enclosing(incs[0]['sid'], ('ForStmt',))
    if c0 is None or loop is None or f.enclosing(incs[0]['sid'], ('WhileStmt', 'DoStmt', 'CXXForRangeStmt')) is not None:
        return None
    lp = f.stmts[loop]
    # induction variable: init 0, ++ in the increment, bounded by a constant in the condition
    init = f.s(lp.get('init'))
    if not (init and init['k'] == 'DeclStmt' and init['decls'] and f.s(f.strip_casts(init['decls'][0].get('init', -1))) and f.s(f.strip_casts(init['decls'][0]['init'])).get('cv') == 0):
        return None
    iv = init['decls'][0]['d']
    inc = f.s(f.strip(lp.get('inc')))
    if not (inc and inc['k'] == 'UnaryOperator' and inc.get('op') == '++' and f.s(f.strip_casts(inc['ch'][0])).get('d') == iv):
        return None
    K = None
    for x in f.walk(lp['cond']):
        sx = f.stmts[x]
        if sx['k'] == 'BinaryOperator' and sx.get('op') in ('<', '<='):
            l, r = f.s(f.strip_casts(sx['ch'][0])), f.s(f.strip_casts(sx['ch'][1]))
            if l.get('d') == iv and r.get('cv') is not None:
                k_ = r['cv'] if sx['op'] == '<' else r['cv'] + 1
                K = k_ if K is None else min(K, k_)
    if K is None:
        return None
    # completion flag: set true only right before a break that precedes the increment; lookup dominated by the flag test
    sp = f.cfg.point_of(sub['i'])
    flag = None
    for cond, k, b in f.cfg.controlling_branches(sp):
        t = q.simple_test(f, cond)
        if t and ((t[1] == 'nz' and k == 0) or (t[1] == 'z' and k == 1)):
            flag = t[0]
    if flag is None:
        return None
    fdefs = rd.local_defs(f, flag)
    trues = [d for d in fdefs if d['rhs'] is not None and f.s(f.strip_casts(d['rhs'])).get('v') is True]
    falses = [d for d in fdefs if d['rhs'] is not None and f.s(f.strip_casts(d['rhs'])).get('v') is False]
    if len(trues) != 1 or len(trues) + len(falses) != len(fdefs):
        return None
    tp = trues[0]['point']
    ip = incs[0]['point']
    # after setting the flag the loop is left (no path from the set to the increment or back to the loop condition)
    if f.cfg.exists_path(tp, ip) or f.enclosing(trues[0]['sid'], ('ForStmt',)) != loop:
        return None
    bound = c0 + K - 1
    if bound < size:
        return ('counter %s = %d + completed iterations of a loop bounded by %d; the completing iteration leaves before the increment and the lookup is '
                'behind the completion flag: index <= %d < %d' % (v['n'], c0, K, bound, size))
    return None


def r2(ctx, prog):
    ctx.rule('C19.R2', 'A10: every subscript into a constant table lies inside the table for the full range of its operand\'s type, masks and shifts, '
                       'or under a dominating range test', floor=12)
    tables = table_decls(prog)
    n = 0
    for f in prog.funcs.values():
        if not any(f.file.endswith(u) for u in SCOPE):
            continue
        for st in f.stmts:
            if not st or st['k'] != 'ArraySubscriptExpr':
                continue
            b = f.s(f.strip_casts(st['ch'][0]))
            if not (b and b['k'] == 'DeclRefExpr' and b.get('gl') and b.get('q') in tables):
                continue
            n += 1
            size = tables[b['q']]
            iv = ival.interval(f, st['ch'][1], f.cfg.point_of(st['i']))
            ok = iv is not None and iv[0] >= 0 and iv[1] < size
            if not ok:
                why = counted_loop_proof(f, st, size)
                if why:
                    ctx.ob('C19.R2', '%s|%s[%s]' % (f.name, b['n'], f.path(st['ch'][1])), True, why, where=f.loc(st['i']))
                    continue
            ctx.ob('C19.R2', '%s|%s[%s]' % (f.name, b['n'], f.path(st['ch'][1])), ok,
                   'index in [%s, %s] within %d entries' % (iv[0], iv[1], size) if ok else
                   'index %s may be %s: outside the %d-entry table %s' % (f.path(st['ch'][1]), 'anything' if iv is None else 'in [%s, %s]' % iv, size, b['n']), where=f.loc(st['i']))
    if n < 10:
        raise AnalysisBroken('expected >=10 constant-table subscripts, found %d' % n)


def byte_stores(f, branch_root):
    """[(byte index, statement)] of `p[k] = ...` stores under statement branch_root, in program order"""
    out = []
    for x in f.walk(branch_root):
        st = f.stmts[x]
        if st['k'] == 'BinaryOperator' and st.get('op') == '=':
            l = f.s(f.strip_casts(st['ch'][0]))
            if l and l['k'] == 'ArraySubscriptExpr':
                out.append((f.s(f.strip_casts(l['ch'][1])).get('cv'), st))
    return sorted(out, key=lambda t: (t[1]['l'], t[1]['c']))


def byte_loads(f, branch_root):
    out = []
    for x in f.walk(branch_root):
        st = f.stmts[x]
        if st['k'] == 'ArraySubscriptExpr':
            p_, _ = f.up(x)
            ps = f.s(p_)
            if ps and ps['k'] in ('BinaryOperator', 'CompoundAssignOperator') and ps['ch'][0] != x:
                out.append((f.s(f.strip_casts(st['ch'][1])).get('cv'), st))
    return sorted(out, key=lambda t: (t[1]['l'], t[1]['c']))


def r3(ctx, prog):
    ctx.rule('C19.R3', 'A12: serializer and deserializer agree: for each width and byte order the byte of significance s goes to / comes from the same '
                       'offset, extendSize(k)/checkSize(k)/cursor step/sizeof agree, and the stream operators pair the same widths', floor=10)
    widths = {'unsigned short': 2, 'unsigned int': 4, 'unsigned long': 8}
    for tname, k in widths.items():
        a = [f for f in prog.fn(SER + '::append') if f.params and f.params[0]['ct'] == tname]
        g = [f for f in prog.fn(DES + '::fetch') if f.params and f.params[0]['ct'] == tname + ' &']
        if len(a) != 1 or len(g) != 1:
            raise AnalysisBroken('Serializer::append(%s)/Deserializer::fetch(%s&) not found' % (tname, tname))
        a, g = a[0], g[0]
        for f, chk in ((a, 'extendSize'), (g, 'checkSize')):
            cs = [st for st in f.calls() if st.get('fn') == chk]
            inc = [st for st in f.stmts if st and st['k'] == 'CompoundAssignOperator' and st.get('op') == '+=' and (f.field_of(st['ch'][0]) or '').endswith('pos_')]
            ok = len(cs) == 1 and f.s(f.strip_casts(cs[0]['args'][0])).get('cv') == k and len(inc) == 1 and f.s(f.strip_casts(inc[0]['ch'][1])).get('cv') == k
            ctx.ob('C19.R3', '%s(%d)|size' % (f.name, k), ok, '%s(%d) and cursor += %d' % (chk, k, k), where=f.loc(f.body))
        # byte order: the branch on endian_ == kBig
        for f, getter, what in ((a, byte_stores, 'stores'), (g, byte_loads, 'loads')):
            ifs = [st for st in f.stmts if st and st['k'] == 'IfStmt' and any(x.endswith('endian_') for x in q.subtree_fields(f, st['cond']))]
            if len(ifs) != 1:
                ctx.ob('C19.R3', '%s(%d)|order' % (f.name, k), False, 'endianness branch not found', where=f.loc(f.body))
                continue
            big_first = 'kBig' in ' '.join(str(f.stmts[x].get('n')) for x in f.walk(ifs[0]['cond']))
            th = [i for i, s_ in getter(f, ifs[0]['then'])]
            el = [i for i, s_ in getter(f, ifs[0]['else'])]
            big, little = (th, el) if big_first else (el, th)
            if f is a:
                # stores take the least significant byte first (in & 0xff, then in >>= 8)
                ok = big == list(range(k - 1, -1, -1)) and little == list(range(k))
            else:
                # loads build the value most significant byte first (out = p[..]; out <<= 8; out |= ...)
                ok = big == list(range(k)) and little == list(range(k - 1, -1, -1))
            ctx.ob('C19.R3', '%s(%d)|order' % (f.name, k), ok, 'big-endian offsets %s, little-endian offsets %s' % (big, little), where=f.loc(ifs[0]['i']))
            # shifts between the byte accesses are by 8 and there are k-1 of them per branch
            for br in ('then', 'else'):
                sh = [f.stmts[x] for x in f.walk(ifs[0][br]) if f.stmts[x]['k'] == 'CompoundAssignOperator' and f.stmts[x].get('op') in ('>>=', '<<=')]
                ok = len(sh) == k - 1 and all(f.s(f.strip_casts(s_['ch'][1])).get('cv') == 8 for s_ in sh) and all(s_['op'] == ('>>=' if f is a else '<<=') for s_ in sh)
                ctx.ob('C19.R3', '%s(%d)|shift-%s' % (f.name, k, br), ok, '%d shifts by 8 between the byte %s' % (len(sh), what), where=f.loc(ifs[0]['i']))
    # stream operators pair widths: operator<<(Serializer&, T) calls append(T'), operator>>(Deserializer&, T&) calls fetch(T'&) of the same width
    sizes = {'unsigned char': 1, 'signed char': 1, 'char': 1, 'unsigned short': 2, 'short': 2, 'unsigned int': 4, 'int': 4, 'unsigned long': 8, 'long': 8, 'float': 4, 'double': 8}
    n = 0
    for f in prog.funcs.values():
        if not f.file.endswith('util/serializer.cpp') or f.short not in ('operator<<', 'operator>>') or len(f.params) != 2:
            continue
        pt = f.params[1]['ct'].replace(' &', '')
        if pt not in sizes:
            continue
        n += 1
        calls = [st for st in f.calls() if st.get('fn') in ('append', 'fetch', 'appendPOD', 'fetchPOD')]
        ok = len(calls) == 1
        if ok:
            c = calls[0]
            if c['fn'] in ('appendPOD', 'fetchPOD'):
                ok = f.s(f.strip_casts(c['args'][1])).get('cv') == sizes[pt]
            else:
                at = (f.s(c['args'][0]).get('ct') or f.s(c['args'][0]).get('t') or '').replace(' &', '').replace('const ', '')
                ok = sizes.get(at) == sizes[pt]
        ctx.ob('C19.R3', '%s(%s)|width' % (f.short, pt), ok, 'stream operator moves exactly sizeof(%s) = %d bytes' % (pt, sizes[pt]), where=f.loc(f.body))
    if n < 16:
        raise AnalysisBroken('expected >=16 stream operators, found %d' % n)


def stores_through(f, ptr_decls):
    """statements that store through a pointer parameter / a local derived from it: p[i] = .., *p = .., memcpy(p, ..)"""
    out = []
    for st in f.stmts:
        if not st:
            continue
        if st['k'] in ('BinaryOperator', 'CompoundAssignOperator') and st.get('op', '').endswith('=') and st['op'] not in ('==', '!=', '<=', '>='):
            l = f.s(f.strip_casts(st['ch'][0]))
            if l and l['k'] in ('ArraySubscriptExpr', 'UnaryOperator'):
                base = f.s(f.strip_casts(l['ch'][0]))
                while base and base['k'] in ('UnaryOperator', 'ArraySubscriptExpr', 'BinaryOperator'):
                    base = f.s(f.strip_casts(base['ch'][0]))
                if base and base['k'] == 'DeclRefExpr' and base.get('d') in ptr_decls:
                    out.append(st)
        if st['k'] == 'CallExpr' and st.get('callee') in ('memcpy', 'memmove', 'memset') and st.get('args'):
            base = f.s(f.strip_casts(st['args'][0]))
            while base and base['k'] in ('BinaryOperator',):
                base = f.s(f.strip_casts(base['ch'][0]))
            if base and base['k'] == 'DeclRefExpr' and base.get('d') in ptr_decls:
                out.append(st)
    return out


def r4(ctx, prog):
    ctx.rule('C19.R4', 'A4: capacity before stores: in every encoder/decoder writing to a caller buffer (ptr, size) a comparison of the needed length with '
                       'the capacity, whose failing edge returns, dominates every store through that pointer; Serializer stores follow a successful extendSize', floor=6)
    targets = []
    for f in prog.funcs.values():
        if f.parent_func is not None or not any(f.file.endswith(u) for u in ('util/base64.cpp', 'util/scalable_integer.cpp', 'util/string.cpp')):
            continue
        ptrs, sizes = [], []
        for i, p in enumerate(f.params):
            # an output buffer: non-const pointer parameter followed by its capacity
            if p['ct'] in ('char *', 'void *', 'unsigned char *') and i + 1 < len(f.params) and f.params[i + 1]['ct'] in ('unsigned long', 'unsigned short', 'unsigned int'):
                ptrs.append(p)
                sizes.append(f.params[i + 1])
        if ptrs and sizes:
            targets.append((f, ptrs, sizes))
    for f, ptrs, sizes in targets:
        pd = {p['d'] for p in ptrs}
        # locals initialised from the pointer parameter alias it
        for st in f.stmts:
            if st and st['k'] == 'DeclStmt':
                for d in st['decls']:
                    if 'init' in d and any(f.stmts[x]['k'] == 'DeclRefExpr' and f.stmts[x].get('d') in pd for x in f.walk(d['init'])) and '*' in d.get('t', ''):
                        pd.add(d['d'])
        sts = stores_through(f, pd)
        if not sts:
            continue
        sd = {p['d'] for p in sizes}
        for s_ in sts:
            sp = q.pt(f, s_)
            ok = False
            for cond, k, b in f.cfg.controlling_branches(sp):
                if any(f.stmts[x]['k'] == 'DeclRefExpr' and f.stmts[x].get('d') in sd for x in f.walk(cond)):
                    cs = f.s(f.strip_casts(cond))
                    if cs['k'] == 'BinaryOperator' and cs.get('op') in ('<', '>', '<=', '>=', '=='):
                        ok = True
            ctx.ob('C19.R4', '%s|store@%d' % (f.name, s_['l'] - f.line), ok, 'store is dominated by a comparison involving the capacity parameter', where=f.loc(s_['i']))
    for f in prog.fn(SER + '::append') + prog.fn(SER + '::appendPOD'):
        ex = [st for st in f.calls() if st.get('fn') == 'extendSize']
        sts = [st for st in f.stmts if st and ((st['k'] == 'BinaryOperator' and st.get('op') == '=' and f.s(f.strip_casts(st['ch'][0]))['k'] == 'ArraySubscriptExpr') or
                                              (st['k'] == 'CallExpr' and st.get('callee') in ('memcpy',)))]
        if not ex:
            if sts:
                ctx.ob('C19.R4', '%s(%s)|extend' % (f.name, f.params[0]['t'] if f.params else ''), False, 'stores without extendSize', where=f.loc(f.body))
            continue
        ok = True
        for s_ in sts:
            g = [(c, k) for c, k, b in f.cfg.controlling_branches(q.pt(f, s_)) if ex[0]['i'] in set(f.walk(c))]
            ok = ok and any(k == 1 for c, k in g)
        ctx.ob('C19.R4', '%s(%s)|extend' % (f.name, f.params[0]['t'] if f.params else ''), ok and bool(sts), 'every store is on the success edge of extendSize()', where=f.loc(f.body))


def r5(ctx, prog):
    ctx.rule('C19.R5', 'A4: decoders validate each digit before using it: hex/percent digit converters map only [0-9A-Fa-f] and throw otherwise; the Base64 '
                       'invalid marker is tested before the decoded value is stored', floor=4)
    for f in prog.funcs.values():
        if f.short.lower() == 'hexchartovalue':
            rets = q.returns(f)
            thr = [st for st in f.stmts if st and st['k'] == 'CXXThrowExpr']
            ranges = []
            for r in rets:
                gs = [c for c, br in q.lexical_guards(f, r['i']) if br == 'then']
                lits = sorted(f.stmts[x].get('v') for c in gs[:1] for x in f.walk(c) if f.stmts[x]['k'] == 'CharacterLiteral')
                ranges.append(tuple(lits))
            want = {(ord('0'), ord('9')), (ord('A'), ord('F')), (ord('a'), ord('f'))}
            ok = set(ranges) == want and len(thr) == 1 and not f.cfg.exists_path(f.cfg.entry_point(), 'exit', avoid=q.pts(f, rets) + q.pts(f, thr))
            ctx.ob('C19.R5', '%s@%s|digit-ranges' % (f.name, f.file.split('/')[-1]), ok, 'returns only inside 0-9/A-F/a-f range tests (%s), otherwise throws' % sorted(ranges), where=f.loc(f.body))
            # the converter folded over every byte value: the returned expression of the first branch whose guard holds must be the digit's value,
            # and no branch may hold for a byte that is not a hex digit
            par = f.params[0]['n'] if f.params else None
            wrong = []
            for ch in range(0, 256):
                got = 'throw'
                for r in rets:
                    gs = [(c, br) for c, br in q.lexical_guards(f, r['i'])]
                    holds = True
                    for c, br in gs:
                        v = q.eval_expr(f, c, lambda sx, ch=ch: ch if (sx['k'] == 'DeclRefExpr' and sx.get('n') == par) else None)
                        if v is None:
                            holds = None
                            break
                        if bool(v) != (br == 'then'):
                            holds = False
                            break
                    if holds and r.get('val') is not None:
                        got = q.eval_expr(f, r['val'], lambda sx, ch=ch: ch if (sx['k'] == 'DeclRefExpr' and sx.get('n') == par) else None, signed=True)
                        break
                want = int(chr(ch), 16) if chr(ch) in '0123456789abcdefABCDEF' else 'throw'
                if got != want:
                    wrong.append((ch, got, want))
            ctx.ob('C19.R5', '%s@%s|all-bytes' % (f.name, f.file.split('/')[-1]), not wrong, 'folded over all 256 byte values: 22 hex digits give their value, everything else throws' if not wrong else
                   'for byte 0x%02x (%r) the converter gives %s, the hex value is %s: a valid escape is refused or a non-digit accepted' % (wrong[0][0], chr(wrong[0][0]), wrong[0][1], wrong[0][2]),
                   where=f.loc(f.body))
    n = 0
    for f in prog.funcs.values():
        if not f.file.endswith('util/base64.cpp') or f.short != 'Decode':
            continue
        # the decoded 6-bit value: a local initialised from the table look-up (directly or through a helper)
        dc = []
        for st in f.stmts:
            if st and st['k'] == 'DeclStmt':
                for d in st['decls']:
                    if 'init' in d and any((f.stmts[x]['k'] in q.CALL_KINDS and f.stmts[x].get('callee', '').endswith('DecodeChar')) or
                                           (f.stmts[x]['k'] == 'DeclRefExpr' and f.stmts[x].get('n') == 'base64de') for x in f.walk(d['init'])):
                        dc.append((st, d))
        for c, vd in dc:
            n += 1
            uses = [u for u in f.stmts if u and u['k'] == 'DeclRefExpr' and vd and u.get('d') == vd['d']]
            tests = [u for u in uses if (lambda p_: p_ and f.s(p_)['k'] == 'BinaryOperator' and f.s(p_).get('op') in ('==', '!=') and any(f.stmts[y].get('cv') == 255 for y in f.walk(p_)))(f.up(u['i'])[0])]
            other = [u for u in uses if u not in tests]
            ok = bool(tests) and all(any(f.cfg.dominates(q.pt(f, t_), q.pt(f, u)) for t_ in tests) for u in other if q.pt(f, u))
            ctx.ob('C19.R5', '%s(%s)|marker-tested' % (f.name, f.params[-1]['t'] if f.params else ''), ok, 'the 255 marker test dominates every use of the decoded value', where=f.loc(c['i']))
    if n < 1:       # one decoding loop is enough: an overload may hand its text to the other (what each overload delivers is replayed by C19.R22)
        raise AnalysisBroken('expected a Base64 Decode loop using DecodeChar, found %d' % n)


def r6(ctx, prog):
    ctx.rule('C19.R6', 'A10 (interval abstract interpretation): the one\'s-complement 16-bit checksum never loses a carry: every addition into its accumulator '
             'stays inside the accumulator\'s type for inputs of any length (a wrapped 32-bit sum drops an end-around carry)', floor=2)
    f = prog.fn1('tbox::util::CalcCheckSum16')
    it = absint.Interp(f).run()
    n = 0
    for st in f.stmts:
        if not st:
            continue
        tgt = None
        if st['k'] == 'CompoundAssignOperator' and st.get('op') in ('+=', '*=', '<<='):
            tgt, val = st['ch'][0], st['i']
        elif st['k'] == 'BinaryOperator' and st.get('op') == '=':
            rhs = f.s(f.strip_casts(st['ch'][1]))
            if rhs is not None and rhs['k'] == 'BinaryOperator' and rhs.get('op') in ('+', '*', '<<'):
                tgt, val = st['ch'][0], st['ch'][1]
        if tgt is None:
            continue
        x = f.s(f.strip_casts(tgt))
        if not (x and x['k'] == 'DeclRefExpr' and x.get('d') in it.types) or '*' in (x.get('ct') or x.get('t') or '') or it.types[x['d']][1] < 65535:
            continue
        env = it.at(st['i'])
        if env is None:
            continue
        n += 1
        iv = it.arith(env, val)
        tr = it.types[x['d']]
        ok = iv is not None and tr[0] <= iv[0] and iv[1] <= tr[1]
        if not ok and tr[1] >= 2**64 - 1 and st['k'] == 'CompoundAssignOperator' and st['op'] == '+=':
            add = it.arith(env, st['ch'][1])
            if add is not None and 0 <= add[0] and add[1] <= 0xffff:
                # a 64-bit accumulator that grows by at most one 16-bit word per two input bytes cannot wrap for any object that fits in memory
                ctx.ob('C19.R6', '%s|%s@%s' % (f.name, f.path(tgt), f.loc(st['i']).split(':')[-1]), True,
                       '64-bit accumulator, +<=0xffff per input word: cannot wrap for inputs shorter than 2^47 words (assumption: objects fit the address space)', where=f.loc(st['i']))
                continue
        ctx.ob('C19.R6', '%s|%s@%s' % (f.name, f.path(tgt), f.loc(st['i']).split(':')[-1]), ok,
               'sum into %s stays within [%d, %d] (type holds %d)' % (f.path(tgt), iv[0], iv[1], tr[1]) if ok else
               'sum into %s can reach %s, beyond its type (max %d): the accumulator wraps on long inputs and an end-around carry is lost' %
               (f.path(tgt), 'an unbounded value' if iv is None else iv[1], tr[1]), where=f.loc(st['i']))
    if n < 2:
        raise AnalysisBroken('CalcCheckSum16: expected >= 2 accumulator updates, saw %d' % n)


def _loop_domain(f, var):
    """values a counted for-loop variable takes: for (int v = a; v < b; v++) with constant a, b (also <=, >=/-- forms)"""
    for lp in f.stmts:
        if not lp or lp['k'] != 'ForStmt' or lp.get('init') is None or lp.get('cond') is None:
            continue
        ini = f.s(lp['init'])
        if not ini or ini['k'] != 'DeclStmt' or not any(d.get('n') == var for d in ini['decls']):
            continue
        d = [d for d in ini['decls'] if d.get('n') == var][0]
        a = q.eval_int(f, d.get('init'), {})
        cs = f.s(f.strip_casts(lp['cond']))
        if a is None or not cs or cs['k'] != 'BinaryOperator' or cs.get('op') not in ('<', '<=', '>', '>='):
            return None
        b = q.eval_int(f, cs['ch'][1], {})
        if b is None or f.path(cs['ch'][0]) != var:
            return None
        inc = [st for st in f.stmts if st and st['i'] in set(f.walk(lp['i'])) and st['k'] == 'UnaryOperator' and st.get('op') in ('++', '--') and f.path(st['ch'][0]) == var]
        if len(inc) != 1:
            return None
        if inc[0]['op'] == '++' and cs['op'] in ('<', '<='):
            return list(range(a, b + (1 if cs['op'] == '<=' else 0)))
        if inc[0]['op'] == '--' and cs['op'] in ('>', '>='):
            return list(range(a, b - (1 if cs['op'] == '>=' else 0), -1))
    return None


def r7(ctx, prog):
    ctx.rule('C19.R7', 'A11 structure conformance with FIPS-197: block load/store is column-major; ShiftRows/InvShiftRows are the row rotations (index expressions '
             'evaluated over r, c in 0..3); MixColumns/InvMixColumns use the circulant matrices (02 03 01 01)/(0e 0b 0d 09); xtime reduces with 0x1b on the high bit; '
             'cipher = AddRoundKey(w[0]), 10 rounds of SubBytes, ShiftRows, MixColumns (not in the last), AddRoundKey(w[i]); invcipher is the inverse sequence', floor=9)
    def fn(short):
        fs = [g for g in prog.funcs.values() if g.short == short and g.file.endswith('crypto/aes.cpp') and not g.parent_usr]
        if len(fs) != 1:
            raise AnalysisBroken('aes.cpp: function %s not found' % short)
        return fs[0]
    # row rotations
    for name, want in (('ShiftRows', lambda r, c: (c + r) % 4), ('InvShiftRows', lambda r, c: (c - r) % 4)):
        f = fn(name)
        rd_ = _loop_domain(f, 'r')
        asg = [st for st in f.stmts if st and st['k'] == 'BinaryOperator' and st.get('op') == '=' and f.s(f.strip_casts(st['ch'][1])) is not None and
               f.s(f.strip_casts(st['ch'][1]))['k'] == 'ArraySubscriptExpr' and q.expr_text(f, st['ch'][1]).startswith('state[')]
        ok = rd_ == [1, 2, 3] and len(asg) == 1
        if ok:
            src = f.s(f.strip_casts(asg[0]['ch'][1]))          # state[r][E]
            row = f.s(f.strip_casts(src['ch'][0]))
            ok = q.expr_text(f, row['ch'][1]) == 'r' and all(q.eval_int(f, src['ch'][1], {'r': r, 'c': c}) == want(r, c) for r in (1, 2, 3) for c in range(4)) and \
                q.expr_text(f, asg[0]['ch'][0]) == 't[c]' and any(q.expr_text(f, st['i']) == '(state[r][c]=t[c])' for st in f.stmts if st and st['k'] == 'BinaryOperator')
        ctx.ob('C19.R7', 'aes|%s' % name, ok, 'rows 1..3 rotated by their row number (%s)' % ('left' if name == 'ShiftRows' else 'right') if ok else
               '%s does not rotate row r by r positions for r = 1..3' % name, where=f.loc(f.body))
    # column mixing
    for name, coef in (('MixColumns', (2, 3, 1, 1)), ('InvMixColumns', (14, 11, 13, 9))):
        f = fn(name)
        calls = [c for c in f.calls() if c.get('fn') == 'FFmul' or (c.get('callee') or '').endswith('FFmul')]
        mat = {}
        ok = len(calls) == 4
        for c in calls:
            k = q.eval_int(f, c['args'][0], {})
            t = f.s(f.strip_casts(c['args'][1]))
            if k is None or not t or t['k'] != 'ArraySubscriptExpr':
                ok = False
                continue
            for r in range(4):
                j = q.eval_int(f, t['ch'][1], {'r': r})
                if j is None:
                    ok = False
                else:
                    mat[(r, j)] = mat.get((r, j), 0) ^ k
        want = {(r, (r + d) % 4): coef[d] for r in range(4) for d in range(4)}
        ok = ok and mat == want and _loop_domain(f, 'r') == [0, 1, 2, 3] and _loop_domain(f, 'c') == [0, 1, 2, 3]
        ctx.ob('C19.R7', 'aes|%s' % name, ok, 'coefficient matrix is circulant(%s)' % ' '.join('%02x' % x for x in coef) if ok else
               '%s: coefficient matrix read off the code is %s, FIPS-197 requires circulant(%s)' % (name, sorted(mat.items()), ' '.join('%02x' % x for x in coef)), where=f.loc(f.body))
    # xtime
    f = fn('FFmul')
    txt = [q.expr_text(f, st['i']) for st in f.stmts if st and st['k'] in ('BinaryOperator', 'CompoundAssignOperator')]
    ok = '(bw[i]=(bw[(i-1)]<<1))' in txt and '(bw[i]^=27)' in txt and any(t == '(bw[(i-1)]&128)' for t in txt)
    ctx.ob('C19.R7', 'aes|xtime', ok, 'doubling shifts left and reduces with 0x1b when bit 7 was set', where=f.loc(f.body))
    # block load/store and round structure
    for name, first, seq, skip_fn, skip_i, rounds in (('cipher', 'w[0]', ['SubBytes', 'ShiftRows', 'MixColumns', 'AddRoundKey'], 'MixColumns', 10, list(range(1, 11))),
                                                      ('invcipher', 'w[10]', ['InvShiftRows', 'InvSubBytes', 'AddRoundKey', 'InvMixColumns'], 'InvMixColumns', 0, list(range(9, -1, -1)))):
        f = prog.fn1('tbox::crypto::AES::' + name)
        loads = [st for st in f.stmts if st and st['k'] == 'BinaryOperator' and st.get('op') == '=' and q.expr_text(f, st['i']) in ('(state[r][c]=input[((c*4)+r)])', '(output[((c*4)+r)]=state[r][c])')]
        ctx.ob('C19.R7', 'aes|%s|column-major' % name, len(loads) == 2, 'state[r][c] <-> byte 4c + r on load and store', where=f.loc(f.body))
        lp = [st for st in f.stmts if st and st['k'] == 'ForStmt' and any(c.get('fn') == 'AddRoundKey' and c['i'] in set(f.walk(st['body'])) for c in f.calls())]
        if len(lp) != 1:
            raise AnalysisBroken('AES::%s: round loop not found' % name)
        body = set(f.walk(lp[0]['body']))
        inloop = [c for c in f.calls() if c['i'] in body and c.get('fn') in seq]
        pre = [c for c in f.calls() if c['i'] not in body and c.get('fn') == 'AddRoundKey']
        ok = [c.get('fn') for c in sorted(inloop, key=lambda c: (c['l'], c['i']))] == seq and len(pre) == 1 and q.expr_text(f, pre[0]['args'][1]) == first and \
            f.cfg.dominates(q.pt(f, pre[0]), q.pt(f, inloop[0])) and _loop_domain(f, 'i') == rounds
        ark = [c for c in inloop if c.get('fn') == 'AddRoundKey']
        ok = ok and len(ark) == 1 and q.expr_text(f, ark[0]['args'][1]) == 'w[i]'
        # the mixing step is skipped exactly in the boundary round
        mix = [c for c in inloop if c.get('fn') == skip_fn]
        gl = [(c_, k_) for c_, k_, b_ in f.cfg.controlling_branches(q.pt(f, mix[0]))] if mix else []
        skip_ok = False
        for c_, k_ in gl:
            vals = [i for i in rounds if (lambda v: v is not None and bool(v))(q.eval_int(f, c_, {'i': i}) if f.s(f.strip_casts(c_))['k'] != 'BinaryOperator' or f.s(f.strip_casts(c_)).get('op') not in ('!=', '==', '<', '>', '<=', '>=') else
                                                                          _cmp_eval(f, c_, i)) == (k_ == 0)]
            if vals == [i for i in rounds if i != skip_i]:
                skip_ok = True
        # unconditional calls in the loop have only the loop condition as guard
        ctx.ob('C19.R7', 'aes|%s|rounds' % name, ok and skip_ok, '%s(%s), then rounds %s: %s, %s skipped only for i = %d' % ('AddRoundKey', first, '%d..%d' % (rounds[0], rounds[-1]), ' '.join(seq), skip_fn, skip_i)
               if ok and skip_ok else 'round structure of AES::%s differs from FIPS-197 (sequence %s, first key %s, rounds %s, %s skipped exactly in round %d: %s)' %
               (name, [c.get('fn') for c in sorted(inloop, key=lambda c: (c['l'], c['i']))], q.expr_text(f, pre[0]['args'][1]) if pre else '?', _loop_domain(f, 'i'), skip_fn, skip_i, skip_ok), where=f.loc(lp[0]['i']))


def r8(ctx, prog):
    ctx.rule('C19.R8', 'A10 width agreement in MD5::update (the digest must not depend on how the message is split): the 64-bit bit count kept in two 32-bit words is '
             'advanced with a carry test whose operands are truncated to the word\'s width, and the block loop\'s counter is as wide as the length it is compared with', floor=2)
    f = prog.fn1('tbox::crypto::MD5::update')
    from tbxlint.ival import type_range, ctype
    U32 = 2**32 - 1
    # carry idiom: count_[0] += A ... if (count_[0] < B)
    cmps = [st for st in f.stmts if st and st['k'] == 'BinaryOperator' and st.get('op') in ('<', '>') and 'count_[0]' in (q.expr_text(f, st['ch'][0]), q.expr_text(f, st['ch'][1]))]
    adds = [st for st in f.stmts if st and st['k'] == 'CompoundAssignOperator' and st.get('op') == '+=' and q.expr_text(f, st['ch'][0]) == 'count_[0]']
    if not cmps or not adds:
        raise AnalysisBroken('MD5::update: bit-count carry idiom (count_[0] += n; if (count_[0] < n)) not found')
    for st in cmps:
        other = st['ch'][1] if q.expr_text(f, st['ch'][0]) == 'count_[0]' else st['ch'][0]
        iv = ival.interval(f, other, f.cfg.point_of(st['i']))
        ok = iv is not None and iv[1] <= U32
        ctx.ob('C19.R8', 'MD5::update|carry-test', ok, 'the carry test compares count_[0] with a 32-bit quantity' if ok else
               'the carry test compares the 32-bit word count_[0] with %s, which can be as large as %s: for a single update of >= 512 MiB it is true although no carry occurred, '
               'count_[1] is bumped and the digest differs from the one obtained with the same bytes in smaller updates' % (q.expr_text(f, other), iv[1] if iv else 'unbounded'), where=f.loc(st['i']))
    # block loop counter vs length
    for lp in [x for x in f.stmts if x and x['k'] == 'ForStmt' and x.get('cond') is not None]:
        cs = f.s(f.strip_casts(lp['cond']))
        if not cs or cs['k'] != 'BinaryOperator' or cs.get('op') not in ('<', '<='):
            continue
        lhs_vars = [f.stmts[x] for x in f.walk(cs['ch'][0]) if f.stmts[x]['k'] == 'DeclRefExpr' and f.stmts[x].get('dk') == 'Var']
        rhs = f.s(f.strip_casts(cs['ch'][1]))
        if not lhs_vars or rhs is None:
            continue
        ltr = type_range(ctype(f.s(f.strip_casts(cs['ch'][0]))) or ctype(lhs_vars[0]))     # type in which the left side is computed (before it is widened for the comparison)
        rtr = ival.interval(f, cs['ch'][1], f.cfg.point_of(lp['cond']))
        ok = ltr is not None and rtr is not None and ltr[1] >= rtr[1]
        ctx.ob('C19.R8', 'MD5::update|block-loop-width', ok, 'the block loop compares in a type that holds the length' if ok else
               'the block loop computes %s in a type of maximum %s but compares it with %s (up to %s): for lengths >= 4 GiB the counter wraps and the loop never ends / reads out of bounds'
               % (q.expr_text(f, cs['ch'][0]), ltr[1] if ltr else '?', q.expr_text(f, cs['ch'][1]), rtr[1] if rtr else '?'), where=f.loc(lp['i']))


def r9(ctx, prog):
    ctx.rule('C19.R9', 'A10+A4 MD5::update consumes its input through one cursor: the bytes that complete the pending block, the whole blocks hashed in place and the tail kept '
             'for later are addressed as input + i with the same running count i (a bare `input` only where i is provably 0), so no byte is hashed twice or skipped '
             'whatever the split into updates', floor=3)
    f = prog.fn1('tbox::crypto::MD5::update')
    from tbxlint import absint, rd as _rd
    it = absint.Interp(f).run()
    # the input pointer: the parameter and every local pointer initialised from it
    inp = {f.params[0]['d']}
    for st in f.stmts:
        if st and st['k'] == 'DeclStmt':
            for d in st['decls']:
                if d.get('init') is not None and '*' in (d.get('t') or '') and any(f.stmts[x]['k'] == 'DeclRefExpr' and f.stmts[x].get('d') in inp for x in f.walk(d['init'])) and \
                        q.expr_text(f, d['init']) in [f.params[0]['n']] + [n for n in ()]:
                    inp.add(d['d'])
    # cursor: the variable X of the final  memcpy(buffer_ + ..., input + X, len - X)
    mcs = [st for st in f.calls() if st.get('callee') == 'memcpy']
    cursor = None
    for m in mcs:
        srcx = f.s(f.strip_casts(m['args'][1]))
        if srcx and srcx['k'] == 'BinaryOperator' and srcx.get('op') == '+':
            l, r = f.s(f.strip_casts(srcx['ch'][0])), f.s(f.strip_casts(srcx['ch'][1]))
            if l and l.get('d') in inp and r and r['k'] == 'DeclRefExpr':
                cursor = r
    if cursor is None:
        raise AnalysisBroken('MD5::update: tail copy memcpy(buffer_ + index, input + i, len - i) not found')
    n = 0
    for st in f.stmts:
        if not st or st['k'] != 'DeclRefExpr' or st.get('d') not in inp:
            continue
        par = f.s(f.parent.get(st['i']))
        # skip the initialiser that defines an alias of the input pointer itself and null checks
        top = st['i']
        while par is not None and par['k'] in ('ImplicitCastExpr', 'CXXStaticCastExpr', 'CStyleCastExpr', 'ParenExpr', 'CXXReinterpretCastExpr'):
            top = par['i']
            par = f.s(f.parent.get(top))
        if par is None:
            continue
        if par['k'] == 'DeclStmt' and any(d.get('d') in inp for d in par['decls']):
            continue
        if par['k'] == 'BinaryOperator' and par.get('op') in ('!=', '=='):
            continue
        if par['k'] in q.CALL_KINDS and (par.get('callee') or '').startswith(('tbox::', '__assert')) is False and par.get('callee') not in ('memcpy', 'memmove') and 'Transform' not in (par.get('callee') or '') and par['k'] == 'CallExpr' and False:
            continue
        n += 1
        if par['k'] == 'BinaryOperator' and par.get('op') == '+':
            other = par['ch'][1] if f.strip_casts(par['ch'][0]) == st['i'] or top == par['ch'][0] else par['ch'][0]
            o = f.s(f.strip_casts(other))
            ok = o is not None and o['k'] == 'DeclRefExpr' and o.get('d') == cursor['d']
            ctx.ob('C19.R9', 'MD5::update|input+%s@%s' % (q.expr_text(f, other), f.loc(st['i']).split(':')[-1]), ok,
                   'input addressed through the cursor %s' % cursor['n'] if ok else
                   'input addressed as input + %s, not through the running count %s: bytes are hashed twice or skipped for some splits' % (q.expr_text(f, other), cursor['n']), where=f.loc(st['i']))
        else:
            env = it.at(st['i']) or {}
            iv = it.var(env, cursor['d'])
            ok = iv == (0, 0)
            ctx.ob('C19.R9', 'MD5::update|input@%s' % f.loc(st['i']).split(':')[-1], ok,
                   'bare input pointer used where %s == 0' % cursor['n'] if ok else
                   'the input pointer is used without the offset %s at a point where %s can be %s: the bytes already consumed to complete the pending block are hashed again' %
                   (cursor['n'], cursor['n'], iv), where=f.loc(st['i']))
    if n < 3:
        raise AnalysisBroken('MD5::update: expected >= 3 uses of the input pointer, saw %d' % n)


def r10(ctx, prog):
    ctx.rule('C19.R10', 'A10 no use of a wrapped length: in the CRC/checksum loops an unsigned remaining-length that is decremented where it may already be 0 (the `n-- > 0` idiom '
             'leaves SIZE_MAX behind when the test fails) is never read again after that test failed', floor=1)
    from tbxlint import absint
    n = 0
    for f in prog.funcs.values():
        if f.parent_usr or not f.file.endswith(('util/crc.cpp', 'util/checksum.cpp')):
            continue
        it = absint.Interp(f).run()
        for st in f.stmts:
            if not st or st['k'] != 'UnaryOperator' or st.get('op') != '--':
                continue
            v = f.s(f.strip_casts(st['ch'][0]))
            if not v or v['k'] != 'DeclRefExpr' or v.get('d') not in it.types or it.types[v['d']][0] != 0:
                continue
            env = it.at(st['i']) or {}
            cur = it.var(env, v['d'])
            if cur is None or cur[0] > 0:
                continue        # cannot be zero here
            n += 1
            # the block whose condition contains this decrement, and its false edge
            bad = None
            for b in f.cfg.blocks.values():
                if b.cond is not None and st['i'] in set(f.walk(b.cond)) and len(b.succ) == 2 and b.succ[1] is not None:
                    start = (b.succ[1], 0)
                    redefs = [q.pt(f, a) for a in f.stmts if a and a['k'] in ('BinaryOperator',) and a.get('op') == '=' and (f.s(f.strip_casts(a['ch'][0])) or {}).get('d') == v['d']]
                    for r in f.stmts:
                        if r and r['k'] == 'DeclRefExpr' and r.get('d') == v['d'] and r['i'] != v['i']:
                            rp = f.cfg.point_of(r['i'])
                            if rp is not None and (rp == start or f.cfg.exists_path(start, rp, avoid=[x for x in redefs if x], src_inclusive=True)):
                                bad = r
                                break
            ctx.ob('C19.R10', '%s|%s--@%s' % (f.name, v['n'], f.loc(st['i']).split(':')[-1]), bad is None,
                   '%s may be 0 at this decrement, and it is not read again after the test failed' % v['n'] if bad is None else
                   '%s can be 0 when it is decremented here, wraps to the maximum of its type, and is read again at %s: the following loop runs over memory far beyond the input' %
                   (v['n'], f.loc(bad['i'])), where=f.loc(st['i']))
    scanned = [f for f in prog.funcs.values() if not f.parent_usr and f.file.endswith(('util/crc.cpp', 'util/checksum.cpp')) and
               any('unsigned' in (p_.get('ct') or '') for p_ in f.params)]
    ctx.ob('C19.R10', 'scan', len(scanned) >= 4, '%d CRC/checksum functions with an unsigned length scanned, %d decrement-at-zero site(s) examined' % (len(scanned), n))
    if len(scanned) < 4:
        raise AnalysisBroken('expected >= 4 CRC/checksum functions with an unsigned length parameter, found %d' % len(scanned))


def _cmp_eval(f, cond, i):
    cs = f.s(f.strip_casts(cond))
    a, b = q.eval_int(f, cs['ch'][0], {'i': i}), q.eval_int(f, cs['ch'][1], {'i': i})
    if a is None or b is None:
        return None
    return {'!=': a != b, '==': a == b, '<': a < b, '>': a > b, '<=': a <= b, '>=': a >= b}[cs['op']]


def r11(ctx, prog):
    ctx.rule('C19.R11', 'A10 residue-class abstraction of the Base64 decoder writing to a caller buffer: the loop is a 4-state machine (position mod 4); walking the four '
             'case bodies with the output cursor as base+delta gives every store its offset inside the 3-byte group, and the capacity that the dominating '
             'DecodeLength() test guarantees when the input ends (pads) right after that character is 3 - min(pad decrements, 3 - k): every store offset must lie '
             'below it, and one cycle must advance the cursor by exactly 3 (a decoding loop that is not a switch over the position is decided by replay instead: every placement '
             'of padding in texts of one to three quartets, decoded into exactly DecodeLength(text) cells with a guard cell behind)', floor=5)
    cands = [f for f in prog.funcs.values() if f.file.endswith('util/base64.cpp') and f.short == 'Decode' and f.parent_func is None and len(f.params) == 4 and
             '*' in f.params[2]['ct'] and 'const' not in f.params[2]['ct']]
    dl = [f for f in prog.funcs.values() if f.file.endswith('util/base64.cpp') and f.short == 'DecodeLength' and len(f.params) == 2]
    if len(cands) != 1 or len(dl) != 1:
        raise AnalysisBroken('Base64 raw Decode/DecodeLength not found (%d/%d)' % (len(cands), len(dl)))
    f, dl = cands[0], dl[0]
    # pad decrements of the advertised length: `--len` / `len--` / `len -= 1` on the true edge of a comparison with the pad character
    pad = None
    for g in prog.globals.values() if hasattr(prog, 'globals') else ():
        pass
    decs = 0
    for st in dl.stmts:
        if st and ((st['k'] == 'UnaryOperator' and st.get('op') == '--') or (st['k'] == 'CompoundAssignOperator' and st.get('op') == '-=' and (dl.s(st['ch'][1]) or {}).get('cv') == 1)):
            p_ = q.pt_or_term(dl, st)
            gs = [(c, k) for c, k, b in dl.cfg.controlling_branches(p_)]
            if any(k == 0 and (q.edge_relation(dl, c, k) or (0, '', 0))[1] == '==' and any(dl.stmts[x]['k'] == 'ArraySubscriptExpr' for x in dl.walk(c)) for c, k in gs):
                decs += 1
    rets = q.returns(dl)
    if not decs or not rets:
        raise AnalysisBroken('DecodeLength: no pad-conditional decrement of the advertised length found')
    # the capacity test that dominates the loop: DecodeLength(...) > capacity  => return
    cap = f.params[3]['d']
    loop = [st for st in f.stmts if st and st['k'] in ('ForStmt', 'WhileStmt') and any(f.stmts[x]['k'] == 'SwitchStmt' for x in f.walk(st['i']))]
    if len(loop) != 1:
        # the decoding loop is not written as a switch over the position: the same bound — no store beyond what DecodeLength() advertises, wherever the padding starts —
        # is decided by replay: every placement of padding in texts of one to three quartets, decoded into exactly DecodeLength(text) cells with a guard cell behind
        from rules import C19_digests
        res = C19_digests.b64_pad_walk(prog)
        if len(res) < 5:
            raise AnalysisBroken('Base64 Decode: the replay over padding placements covered %d classes' % len(res))
        for cls, (n_, why) in sorted(res.items()):
            ctx.ob('C19.R11', '%s|%s' % (f.name, cls), why is None, '%d texts decoded inside the advertised length' % n_ if why is None else why, where=f.loc(f.body))
        return
    loop = loop[0]
    sw = [f.stmts[x] for x in f.walk(loop['i']) if f.stmts[x]['k'] == 'SwitchStmt'][0]
    lp = f.cfg.point_of(sw['cond'])
    guarded = False
    for c, k, b in f.cfg.controlling_branches(lp):
        cs = f.s(f.strip_casts(c))
        neg = False
        while cs is not None and cs['k'] == 'UnaryOperator' and cs.get('op') == '!':
            neg = not neg
            cs = f.s(f.strip_casts(cs['ch'][0]))
        if cs is None or cs['k'] != 'BinaryOperator' or cs.get('op') not in ('<', '<=', '>', '>='):
            continue
        a, b_ = f.s(f.strip_casts(cs['ch'][0])), f.s(f.strip_casts(cs['ch'][1]))
        is_dl = lambda x: x is not None and x['k'] in q.CALL_KINDS and x.get('usr') == dl.usr and \
            [(f.s(f.strip_casts(a_)) or {}).get('d') for a_ in x.get('args', [])] == [f.params[0]['d'], f.params[1]['d']]
        is_cap = lambda x: x is not None and x['k'] == 'DeclRefExpr' and x.get('d') == cap
        op = cs['op'] if (k == 0) != neg else {'<': '>=', '<=': '>', '>': '<=', '>=': '<'}[cs['op']]
        # exactly  DecodeLength(...) <= capacity  (or < capacity, which is stronger) on the edge into the loop
        if (is_dl(a) and is_cap(b_) and op in ('<=', '<')) or (is_cap(a) and is_dl(b_) and op in ('>=', '>')):
            guarded = True
    ctx.ob('C19.R11', '%s|capacity-test' % f.name, guarded, 'the decoding loop is entered only with DecodeLength(input) <= capacity' if guarded else
           'no test DecodeLength(input) <= capacity dominates the decoding loop', where=f.loc(loop['i']))
    # the cursor: the local returned at the end
    fr = [r for r in q.returns(f) if r.get('ch') and (f.s(f.strip_casts(r['ch'][0])) or {}).get('k') == 'DeclRefExpr' and (f.s(f.strip_casts(r['ch'][0])) or {}).get('dk') == 'Var']
    if not fr:
        raise AnalysisBroken('Base64 Decode: no returned cursor variable')
    cur = f.s(f.strip_casts(fr[-1]['ch'][0]))['d']
    outp = {f.params[2]['d']}
    for st in f.stmts:
        if st and st['k'] == 'DeclStmt':
            for d in st['decls']:
                if 'init' in d and '*' in d.get('t', '') and any(f.stmts[x]['k'] == 'DeclRefExpr' and f.stmts[x].get('d') in outp for x in f.walk(d['init'])):
                    outp.add(d['d'])
    # residues: the switch selector must be position mod 4
    sel_ok = True
    ivar = None
    for x in f.walk(sw['cond']):
        sx = f.stmts[x]
        if sx['k'] == 'DeclRefExpr' and sx.get('dk') == 'Var':
            ivar = sx['d']
    for r_ in range(8):
        v = q.eval_expr(f, sw['cond'], lambda sx: r_ if sx['k'] == 'DeclRefExpr' and sx.get('d') == ivar else None)
        sel_ok = sel_ok and v == r_ % 4
    if not sel_ok:
        raise AnalysisBroken('Base64 Decode: the switch does not select on position mod 4')
    body = f.s(sw['body'])
    cases = {}
    curk = None
    def sub_stmts(cs):
        """(case values, first statement) of possibly stacked case labels"""
        vals = [cs.get('v')]
        sub = f.s(cs['ch'][-1])
        while sub is not None and sub['k'] == 'CaseStmt':
            vals.append(sub.get('v'))
            sub = f.s(sub['ch'][-1])
        return vals, sub
    active = []
    for c in body['ch']:
        st = f.s(c)
        if st['k'] == 'CaseStmt':
            vals, sub = sub_stmts(st)
            active = active + vals         # fall-through keeps earlier labels active
            for v in active:
                cases.setdefault(v, [])
            if sub is not None and sub['k'] != 'BreakStmt':
                for v in active:
                    cases[v].append(sub)
            elif sub is not None:
                active = []
        elif st['k'] == 'BreakStmt':
            active = []
        elif st['k'] == 'DefaultStmt':
            active = []
        else:
            for v in active:
                cases[v].append(st)
    if sorted(cases) != [0, 1, 2, 3]:
        raise AnalysisBroken('Base64 Decode: expected case labels 0..3, found %s' % sorted(cases))
    state = {'d': 0}
    stores = []

    def idx_off(e):
        """offset of an index expression relative to the cursor's value at group start; applies ++/-- side effects"""
        x = f.s(f.strip_casts(e))
        if x is None:
            return None
        if x['k'] == 'ParenExpr':
            return idx_off(x['ch'][0])
        if x['k'] == 'DeclRefExpr' and x.get('d') == cur:
            return state['d']
        if x['k'] == 'UnaryOperator' and x.get('op') in ('++', '--') and (f.s(f.strip_casts(x['ch'][0])) or {}).get('d') == cur:
            step = 1 if x['op'] == '++' else -1
            if x.get('post'):
                o = state['d']
                state['d'] += step
                return o
            state['d'] += step
            return state['d']
        if x['k'] == 'BinaryOperator' and x.get('op') in ('+', '-'):
            a, b = idx_off(x['ch'][0]), f.s(x['ch'][1]).get('cv')
            if a is None or b is None:
                return None
            return a + b if x['op'] == '+' else a - b
        return None

    def visit(e, k):
        st = f.s(e)
        if st is None:
            return
        if st['k'] in ('BinaryOperator', 'CompoundAssignOperator') and st.get('op', '').endswith('=') and st['op'] not in ('==', '!=', '<=', '>='):
            lhs = f.s(f.strip_casts(st['ch'][0]))
            if lhs and lhs['k'] == 'ArraySubscriptExpr' and (f.s(f.strip_casts(lhs['ch'][0])) or {}).get('d') in outp:
                visit(st['ch'][1], k)
                o = idx_off(lhs['ch'][1])
                stores.append((k, o, st))
                return
            if lhs and lhs['k'] == 'DeclRefExpr' and lhs.get('d') == cur:
                c_ = f.s(st['ch'][1]).get('cv')
                if st['op'] == '+=' and c_ is not None:
                    state['d'] += c_
                elif st['op'] == '-=' and c_ is not None:
                    state['d'] -= c_
                else:
                    raise AnalysisBroken('Base64 Decode: cursor assigned a non-constant step at %s' % f.loc(st['i']))
                return
        if st['k'] == 'UnaryOperator' and st.get('op') in ('++', '--') and (f.s(f.strip_casts(st['ch'][0])) or {}).get('d') == cur:
            state['d'] += 1 if st['op'] == '++' else -1
            return
        if st['k'] in ('IfStmt', 'ForStmt', 'WhileStmt', 'DoStmt', 'SwitchStmt') and any((f.stmts[x].get('d') == cur and f.stmts[x]['k'] == 'DeclRefExpr') or
                                                                                       (f.stmts[x]['k'] == 'ArraySubscriptExpr') for x in f.walk(st['i'])):
            raise AnalysisBroken('Base64 Decode: branching inside a case body touches the cursor/output at %s' % f.loc(st['i']))
        for c in st.get('ch', []):
            visit(c, k)

    entry = {}
    for k in range(4):
        entry[k] = state['d']
        for st in cases[k]:
            visit(st['i'], k)
    cyc = state['d']
    ctx.ob('C19.R11', '%s|cycle' % f.name, cyc == 3, 'four characters advance the output cursor by exactly 3' if cyc == 3 else
           'one pass over the four positions advances the output cursor by %d, not 3: the decoder does not produce DecodeLength() bytes' % cyc, where=f.loc(sw['i']))
    if not stores:
        raise AnalysisBroken('Base64 Decode: no store through the output pointer found in the case bodies')
    sample = {0: 'Q===', 1: 'QQ==', 2: 'QUI=', 3: 'QUJD'}
    for k, o, st in stores:
        capk = 3 - min(decs, 3 - k)
        ok = o is not None and 0 <= o < capk
        ctx.ob('C19.R11', '%s|case%d-store@%s' % (f.name, k, f.loc(st['i']).split(':')[-1]), ok,
               'store at group offset %s; capacity guaranteed when the input ends after character %d of the group is %d' % (o, k, capk) if ok else
               'the store at position mod 4 == %d writes group offset %s, but when the input is padded right after this character DecodeLength() — the only thing the '
               'capacity was compared with — is 3g+%d: with an exactly sufficient buffer (e.g. "%s" into %d byte%s) the byte at index %s is outside the output capacity'
               % (k, o, capk, sample[k], capk, '' if capk == 1 else 's', o), where=f.loc(st['i']))


def run(ctx):
    prog = extract('ALL' if ctx.tier == 'thorough' else SCOPE)
    ctx.guard(r1, ctx, prog)
    ctx.guard(r2, ctx, prog)
    ctx.guard(r3, ctx, prog)
    ctx.guard(r4, ctx, prog)
    ctx.guard(r5, ctx, prog)
    ctx.guard(r6, ctx, prog)
    ctx.guard(r7, ctx, prog)
    ctx.guard(r8, ctx, prog)
    ctx.guard(r9, ctx, prog)
    ctx.guard(r10, ctx, prog)
    ctx.guard(r11, ctx, prog)
    ctx.guard(C19_bounds.r12, ctx, prog)
    ctx.guard(C19_bounds.r13, ctx, prog)
    ctx.guard(C19_bounds.r14, ctx, prog)
    ctx.guard(C19_bounds.r15, ctx, prog)
    ctx.guard(C19_md5.r16, ctx, prog, gvals)
    ctx.guard(C19_md5.r17, ctx, prog)
    from tbxlint import progress
    ctx.guard(progress.run_files, ctx, prog, 'C19.R18', ['util/base64.cpp', 'util/string.cpp', 'util/scalable_integer.cpp', 'util/serializer.cpp', 'http/url.cpp', 'util/crc.cpp', 'util/checksum.cpp', 'crypto/md5.cpp', 'crypto/aes.cpp'], 'codecs', floor=1)
    from rules import C19_values
    ctx.guard(C19_values.r19, ctx, prog)
    ctx.guard(C19_values.r20, ctx, prog)
    from rules import C19_digests
    ctx.guard(C19_digests.r21, ctx, prog)
    ctx.guard(C19_digests.r22, ctx, prog)
    from rules import C19_text
    ctx.guard(C19_text.r23, ctx, prog)
    return prog
