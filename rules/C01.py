"""C01 — deferred tasks of the event loop (DESIGN §4 C01)."""
from tbxlint.facts import extract, AnalysisBroken
from tbxlint import locks, q, rd

SCOPE = ['event/common_loop.cpp', 'event/common_loop_run.cpp', 'event/common_loop_timer.cpp',
         'event/common_loop_signal.cpp', 'event/engines/epoll/loop.cpp', 'event/engines/select/loop.cpp']
CL = 'tbox::event::CommonLoop'
LOCK = CL + '::lock_'
LOOPS = ['tbox::event::EpollLoop', 'tbox::event::SelectLoop']
ANY = ['runInLoop', 'run', 'isInLoopThread', 'isRunning']
XFIELDS = ['run_in_loop_func_queue_', 'has_commit_run_req_', 'run_event_fd_', 'sp_run_read_event_',
           'loop_thread_id_', 'run_in_loop_id_alloc_', 'request_stat_start_']
QUEUES = ['run_in_loop_func_queue_', 'run_next_func_queue_', 'tmp_func_queue_']


def scope_funcs(prog):
    classes = [CL] + LOOPS
    return [f for f in prog.funcs.values() if (prog.outermost(f).cls or '') in classes or
            any((prog.outermost(f).cls or '').startswith(c + '::') for c in classes)]


def setup(prog):
    fs = scope_funcs(prog)
    eng = locks.LockEngine(prog, fs, sync_hof=('std::remove_if', 'std::find', 'std::for_each', 'tbox::CatchThrow'),
                           deferred={})
    anyf, loopf = [], []
    for c in [CL] + LOOPS:
        for f in prog.methods_of(c):
            if f.d.get('ctor') or f.d.get('dtor'):
                continue   # construction/destruction are quiescent by contract
            if f.d.get('access') != 'public':
                continue
            (anyf if (c == CL and f.short in ANY) else loopf).append(f)
    if len(anyf) < 6:
        raise AnalysisBroken('any-thread entry points of CommonLoop: expected 6 (runInLoop x2, run x2, isInLoopThread, isRunning), found %d' % len(anyf))
    # destructors drain the queues on the destroying thread: treated as loop role (single owner)
    dt = [f for c in [CL] + LOOPS for f in prog.methods_of(c) if f.d.get('dtor')]
    ctxs = eng.contexts({'any': anyf, 'loop': loopf, 'dtor': dt})
    return eng, ctxs, anyf, loopf


def r1(ctx, prog, eng, ctxs):
    ctx.rule('C01.R1', 'A1: the cross-thread queue, wake-up token and loop identity are only touched under lock_ '
                       '(any-thread entries: runInLoop/run/isInLoopThread/isRunning; everything else is the loop thread)', floor=20)
    fields = {CL + '::' + x for x in XFIELDS}
    for x in XFIELDS:
        prog.field(CL, x)
    accs = locks.race_rule(ctx, 'C01.R1', prog, eng, ctxs, fields, multi_roles=('any',),
                           not_concurrent=[('dtor', 'any'), ('dtor', 'loop')])
    roles = {a['role'] for a in accs if a['field'].endswith('run_in_loop_func_queue_')}
    if not {'any', 'loop'} <= roles:
        raise AnalysisBroken('run_in_loop_func_queue_ not seen in any-thread and loop roles: %s' % roles)


def r2(ctx, prog, eng):
    ctx.rule('C01.R2', 'A3: the consumer takes the queue and acknowledges the wake-up token in one lock_ critical section', floor=1)
    f = prog.fn1(CL + '::handleRunInLoopFunc')
    swaps = [st for st in f.calls() if st.get('fn') == 'swap' and (q.obj_field_is(f, st, 'run_in_loop_func_queue_') or
             any((f.field_of(a) or '').endswith('run_in_loop_func_queue_') for a in st.get('args', [])))]
    swaps += [a for a, rhs in q.assigns(f, 'run_in_loop_func_queue_')]
    def is_ack(g, st):
        return st['k'] == 'CallExpr' and st.get('callee') == 'read' and any((g.field_of(a) or '').endswith('run_event_fd_') for a in st.get('args', []))
    acks = q.event_stmts(prog, eng, f, is_ack)
    if not swaps or not acks:
        raise AnalysisBroken('handleRunInLoopFunc: swap of the cross-thread queue / eventfd read not found (%d/%d)' % (len(swaps), len(acks)))
    for s in swaps:
        for a in acks:
            sp, ap = q.pt(f, s), q.pt(f, a)
            first, second = (sp, ap) if f.cfg.exists_path(sp, ap) else (ap, sp)
            ok, bad = q.region_atomic(eng, f, frozenset(), first, second, LOCK)
            ctx.ob('C01.R2', '%s|swap+ack' % f.name, ok,
                   'queue swap and eventfd acknowledgement are in one lock_ region' if ok else
                   'lock_ is not held continuously between the queue swap (%s) and the wake-up acknowledgement (%s): a submission in between '
                   'sees has_commit_run_req_ still set, skips the eventfd write and is never woken for' % (f.loc(s['i']), f.loc(a['i'])),
                   where=f.loc(a['i']))
    # the acknowledgement resets the flag
    fr = prog.fn1(CL + '::finishRunRequest')
    ws = q.assigns(fr, 'has_commit_run_req_')
    ctx.ob('C01.R2', '%s|flag-reset' % fr.name, any(fr.s(fr.strip_casts(r)).get('v') is False for a, r in ws),
           'finishRunRequest clears has_commit_run_req_', where=fr.loc(fr.body))
    # token/acknowledgement pairing at every site that empties the eventfd: "the eventfd is empty" and "no request is pending" change together
    n_ack = 0
    for g in prog.methods_of(CL):
        for st in g.stmts:
            if st and is_ack(g, st):
                n_ack += 1
                rs_ = [a for a, r in q.assigns(g, 'has_commit_run_req_') if g.s(g.strip_casts(r)).get('v') is False]
                ok = bool(rs_) and q.must_follow(g, q.pt(g, st), q.pts(g, rs_))
                ctx.ob('C01.R2', '%s|ack-resets-token@%s' % (g.name, g.loc(st['i']).split(':')[-1]), ok,
                       'the eventfd read is followed by has_commit_run_req_ = false on every path' if ok else
                       '%s() empties the eventfd but a path leaves with has_commit_run_req_ still set: every later runInLoop()/run() believes a wake-up is pending, '
                       'skips the eventfd write, and its task is not run until something else wakes the loop' % g.short, where=g.loc(st['i']))
    if n_ack < 1:
        raise AnalysisBroken('no read of run_event_fd_ found in CommonLoop')


def _cond_is(f, cond, field, want_nonnull=None):
    flds = q.subtree_fields(f, cond)
    return any(x.endswith(field) for x in flds)


def _is_begin_of(f, e, queues, depth=0):
    """the expression is <member queue>.begin(), possibly through a local iterator, std::make_move_iterator or an iterator copy"""
    x = f.s(f.strip_casts(e))
    while x is not None and x['k'] in ('CXXConstructExpr', 'MaterializeTemporaryExpr', 'CXXBindTemporaryExpr', 'ExprWithCleanups') and x.get('ch'):
        x = f.s(f.strip_casts(x['ch'][0]))
    if x is None or depth > 4:
        return False
    if x['k'] in q.CALL_KINDS and x.get('fn') in ('begin', 'cbegin') and 'obj' in x and (f.field_of(x['obj']) or '').split('::')[-1] in queues:
        return True
    if x['k'] in q.CALL_KINDS and (x.get('fn') or '').startswith('make_move_iterator') and x.get('args'):
        return _is_begin_of(f, x['args'][0], queues, depth + 1)
    if x['k'] == 'DeclRefExpr' and x.get('dk') == 'Var':
        defs = rd.local_defs(f, x['d'])
        return len(defs) == 1 and defs[0]['rhs'] is not None and _is_begin_of(f, defs[0]['rhs'], queues, depth + 1)
    return False


def r3(ctx, prog, eng):
    ctx.rule('C01.R3', 'A4: no lost wake-up at the producers: runInLoop commits after the push under the same lock whenever the loop '
                       'is running; loop start commits when work is already queued; commitRunRequest writes the eventfd iff no token is pending', floor=6)
    rs = [f for f in prog.fn(CL + '::runInLoop') if any(st.get('fn') in ('emplace_back', 'push_back') for st in f.calls())]
    if len(rs) != 1:
        raise AnalysisBroken('runInLoop: expected exactly one overload that enqueues, found %d' % len(rs))
    f = rs[0]
    res = eng.analyze(f, frozenset())
    push = [st for st in f.calls() if st.get('fn') in ('emplace_back', 'push_back') and q.obj_field_is(f, st, 'run_in_loop_func_queue_')]
    com = q.calls(f, callee=CL + '::commitRunRequest')
    if not push:
        raise AnalysisBroken('runInLoop: enqueue not found')
    ctx.ob('C01.R3', '%s|commit-present' % f.name, bool(com), 'runInLoop commits a wake-up request', where=f.loc(f.body))
    for c in com:
        cp = q.pt(f, c)
        guards = f.cfg.controlling_branches(cp)
        only = [g for g in guards]
        ok_guard = all(_cond_is(f, g[0], 'sp_run_read_event_') and g[1] == 0 for g in only) and len(only) <= 1
        # polarity: `sp_run_read_event_ != nullptr` true edge
        for g in only:
            cs = f.s(f.strip_casts(g[0]))
            if not (cs and cs['k'] == 'BinaryOperator' and cs.get('op') == '!='):
                ok_guard = False
        ctx.ob('C01.R3', '%s|commit-iff-running' % f.name, ok_guard, 'commitRunRequest() is conditional only on sp_run_read_event_ != nullptr', where=f.loc(c['i']))
        ctx.ob('C01.R3', '%s|push-before-commit' % f.name, all(f.cfg.dominates(q.pt(f, p), cp) for p in push), 'the task is queued before the wake-up is committed', where=f.loc(c['i']))
        ok, bad = q.region_atomic(eng, f, frozenset(), q.pt(f, push[0]), cp, LOCK)
        ctx.ob('C01.R3', '%s|push+commit-atomic' % f.name, ok, 'push and commit are in one lock_ region', where=f.loc(c['i']))
    # loop start
    b = prog.fn1(CL + '::runThisBeforeLoop')
    st_ev = [a for a, rhs in q.assigns(b, 'sp_run_read_event_')]
    comb = q.calls(b, callee=CL + '::commitRunRequest')
    if not st_ev:
        raise AnalysisBroken('runThisBeforeLoop: store of sp_run_read_event_ not found')
    ctx.ob('C01.R3', '%s|commit-present' % b.name, bool(comb), 'loop start commits a wake-up for tasks queued before the loop ran', where=b.loc(b.body))
    for c in comb:
        cp = q.pt(b, c)
        gs = [g for g in b.cfg.controlling_branches(cp) if not b.cfg.dominates(q.pt(b, st_ev[0]), b.cfg.point_of(g[0])) is False]
        gs = [g for g in b.cfg.controlling_branches(cp) if b.cfg.dominates(q.pt(b, st_ev[0]), b.cfg.point_of(g[0]))]
        okg = len(gs) == 1 and any(x.endswith('run_in_loop_func_queue_') for x in q.subtree_fields(b, gs[0][0])) and \
            any(c2.get('fn') == 'empty' for c2 in q.subtree_calls(b, gs[0][0]))
        if okg:
            cs = b.s(b.strip_casts(gs[0][0]))
            neg = cs['k'] == 'UnaryOperator' and cs.get('op') == '!'
            okg = (neg and gs[0][1] == 0) or (not neg and gs[0][1] == 1)
        ctx.ob('C01.R3', '%s|commit-iff-queued' % b.name, okg, 'after publishing the read event, commit is conditional only on the queue being non-empty', where=b.loc(c['i']))
        ok, bad = q.region_atomic(eng, b, frozenset(), q.pt(b, st_ev[0]), cp, LOCK)
        ctx.ob('C01.R3', '%s|publish+commit-atomic' % b.name, ok, 'publishing sp_run_read_event_ and the commit are in one lock_ region', where=b.loc(c['i']))
    # commitRunRequest
    c = prog.fn1(CL + '::commitRunRequest')
    wr = [st for st in c.stmts if st and st['k'] == 'CallExpr' and st.get('callee') == 'write' and any((c.field_of(a) or '').endswith('run_event_fd_') for a in st.get('args', []))]
    fl = [a for a, rhs in q.assigns(c, 'has_commit_run_req_') if c.s(c.strip_casts(rhs)).get('v') is True]
    if not wr:
        raise AnalysisBroken('commitRunRequest: eventfd write not found')
    for w in wr:
        wp = q.pt(c, w)
        gs = c.cfg.controlling_branches(wp)
        okg = len(gs) == 1 and _cond_is(c, gs[0][0], 'has_commit_run_req_')
        if okg:
            cs = c.s(c.strip_casts(gs[0][0]))
            neg = cs['k'] == 'UnaryOperator' and cs.get('op') == '!'
            okg = (neg and gs[0][1] == 0) or (not neg and gs[0][1] == 1)
        ctx.ob('C01.R3', '%s|write-iff-no-token' % c.name, okg, 'eventfd write is conditional only on !has_commit_run_req_', where=c.loc(w['i']))
        ctx.ob('C01.R3', '%s|flag-after-write' % c.name, bool(fl) and (q.must_follow(c, wp, q.pts(c, fl)) or q.must_precede(c, q.pts(c, fl), wp)),
               'the pending flag is set on every path that writes the token (before or after the write: both happen under lock_)', where=c.loc(w['i']))


def r4(ctx, prog, eng):
    ctx.rule('C01.R4', 'A4+A6: nothing pending is dropped: loop exit and every loop destructor drain both queues; each runLoop brackets its '
                       'iterations with runThisBeforeLoop/runThisAfterLoop and every iteration serves timers and next-tasks', floor=10)
    a = prog.fn1(CL + '::runThisAfterLoop')
    dr = q.calls(a, callee=CL + '::cleanupDeferredTasks')
    clr = [x for x, rhs in q.assigns(a, 'loop_thread_id_')] + q.writes(a, 'sp_run_read_event_')
    ctx.ob('C01.R4', '%s|drain-first' % a.name, bool(dr) and all(a.cfg.dominates(q.pt(a, dr[0]), q.pt(a, c)) for c in clr if q.pt(a, c)),
           'cleanupDeferredTasks() dominates the clearing of the loop identity/read event', where=a.loc(a.body))
    def is_drain(g, st):
        return q.is_call(st, callee=CL + '::cleanupDeferredTasks')
    for c in LOOPS:
        d = [f for f in prog.methods_of(c) if f.d.get('dtor')]
        if len(d) != 1:
            raise AnalysisBroken('%s: destructor definition not found' % c)
        ev = q.event_stmts(prog, eng, d[0], is_drain)
        ctx.ob('C01.R4', '%s|dtor-drains' % d[0].name, bool(ev), 'the destructor reaches cleanupDeferredTasks()', where=d[0].loc(d[0].body))
        r = prog.fn1(c + '::runLoop')
        bl = q.calls(r, callee=CL + '::runThisBeforeLoop')
        al = q.calls(r, callee=CL + '::runThisAfterLoop')
        tm = q.calls(r, callee=CL + '::handleExpiredTimers')
        nx = q.calls(r, callee=CL + '::handleNextFunc')
        if not (bl and al and tm and nx):
            ctx.ob('C01.R4', '%s|phases' % r.name, False, 'runLoop must call runThisBeforeLoop/handleExpiredTimers/handleNextFunc/runThisAfterLoop (%d/%d/%d/%d)' % (len(bl), len(tm), len(nx), len(al)), where=r.loc(r.body))
            continue
        ctx.ob('C01.R4', '%s|after-follows' % r.name, q.must_follow(r, q.pt(r, bl[0]), q.pts(r, al)), 'every exit after runThisBeforeLoop passes runThisAfterLoop (incl. error breaks)', where=r.loc(al[0]['i']))
        ctx.ob('C01.R4', '%s|before-first' % r.name, all(r.cfg.dominates(q.pt(r, bl[0]), q.pt(r, x)) for x in tm + nx), 'runThisBeforeLoop dominates the iterations', where=r.loc(bl[0]['i']))
        # the blocking wait (epoll_wait/select): every cycle through it serves timers and next-tasks
        waits = [st for st in r.stmts if st and st['k'] == 'CallExpr' and st.get('callee') in ('epoll_wait', 'select')]
        if not waits:
            raise AnalysisBroken('%s::runLoop: blocking wait not found' % c)
        for w in waits:
            wp = q.pt(r, w)
            ctx.ob('C01.R4', '%s|iteration-timers' % r.name, not r.cfg.exists_path(wp, wp, avoid=q.pts(r, tm)), 'no iteration skips handleExpiredTimers', where=r.loc(w['i']))
            ok = not r.cfg.exists_path(wp, wp, avoid=q.pts(r, nx))
            ctx.ob('C01.R4', '%s|iteration-next' % r.name, ok, 'no iteration skips handleNextFunc', where=r.loc(w['i']))
    cd = prog.fn1(CL + '::cleanupDeferredTasks')
    outer = [st for st in cd.stmts if st and st['k'] in ('WhileStmt', 'ForStmt', 'DoStmt') and cd.enclosing(st['i'], ('WhileStmt', 'ForStmt', 'DoStmt')) is None]
    ok = False
    if outer:
        cf = q.subtree_fields(cd, outer[0]['cond'])
        ok = any(x.endswith('run_in_loop_func_queue_') for x in cf) and any(x.endswith('run_next_func_queue_') for x in cf)
    ctx.ob('C01.R4', '%s|both-queues-cond' % cd.name, ok, 'the drain loop continues while either member queue is non-empty', where=cd.loc(cd.body))
    inv = q.invokes(cd, 'RunFuncItem::func')
    srcs = set()
    for st in cd.stmts:
        if st and st['k'] == 'DeclStmt':
            for d in st['decls']:
                if 'init' in d:
                    for x in q.subtree_fields(cd, d['init']):
                        if x.endswith('_func_queue_'):
                            srcs.add(x.split('::')[-1])
    # ... or taken by a swap with a local, or consumed in place (front / pop_front on the member): a queue that is neither is not drained here
    for st in cd.calls():
        if st.get('fn') in ('swap', 'front', 'pop_front', 'begin') or (st.get('callee') or '').startswith('std::swap'):
            for x in q.subtree_fields(cd, st['i']):
                if x.endswith('_func_queue_'):
                    srcs.add(x.split('::')[-1])
    ctx.ob('C01.R4', '%s|both-queues-drained' % cd.name, {'run_in_loop_func_queue_', 'run_next_func_queue_'} <= srcs and len(inv) >= 1,
           'both member queues are taken (moved or swapped out, or consumed in place) and their tasks invoked (%s, %d invoke sites)' % (sorted(srcs), len(inv)), where=cd.loc(cd.body))


def r5(ctx, prog, eng):
    ctx.rule('C01.R5', 'A4+A7: exactly once per dequeue: every invoked task was copied out of (or lives in a queue unreachable from) the member '
                       'queues that cancel() can erase from, and one element is popped per invocation', floor=4)
    n = 0
    for f in scope_funcs(prog):
        for inv in q.invokes(f, 'RunFuncItem::func'):
            n += 1
            base = f.s(f.strip_casts(f.s(f.strip_casts(inv['obj']))['ch'][0]))
            ok = False
            why = 'receiver is not a local variable'
            qpath = None
            if base and base['k'] == 'DeclRefExpr' and base.get('dk') == 'Var':
                # find its declaration
                for st in f.stmts:
                    if st and st['k'] == 'DeclStmt':
                        for d in st['decls']:
                            if d.get('d') == base.get('d') and 'init' in d:
                                isref = d['t'].rstrip().endswith('&')
                                srcq = None
                                for x in f.walk(d['init']):
                                    sx = f.stmts[x]
                                    if sx['k'] in q.CALL_KINDS and sx.get('fn') in ('front', 'back') and 'obj' in sx:
                                        srcq = sx
                                if srcq is None:
                                    why = 'task variable is not taken from a queue front'
                                    continue
                                qpath = f.path(srcq['obj'])
                                member = f.field_of(srcq['obj']) is not None
                                if isref and member:
                                    why = 'a reference into member queue %s is live across the user callback (cancel() may erase it)' % qpath
                                elif srcq['fn'] != 'front':
                                    why = 'tasks must be taken from the front'
                                else:
                                    ok = True
                                    why = ('copied out of %s' % qpath) if not isref else ('reference into local queue %s' % qpath)
            ctx.ob('C01.R5', '%s|invoke-safe' % locks.site_name(prog, f), ok, why, where=f.loc(inv['i']))
            if ok and qpath:
                pops = [st for st in f.calls() if st.get('fn') == 'pop_front' and 'obj' in st and f.path(st['obj']) == qpath]
                ip = q.pt(f, inv)
                ok2 = bool(pops) and not f.cfg.exists_path(ip, ip, avoid=q.pts(f, pops))
                ctx.ob('C01.R5', '%s|one-pop-per-invoke' % locks.site_name(prog, f), ok2, 'between two invocations the queue %s is popped' % qpath, where=f.loc(inv['i']))
                # and a pop is never repeated without re-reading the front (no element skipped)
                fronts = [st for st in f.calls() if st.get('fn') == 'front' and 'obj' in st and f.path(st['obj']) == qpath]
                ok3 = all(not f.cfg.exists_path(q.pt(f, p), q.pt(f, p), avoid=q.pts(f, fronts)) for p in pops)
                ctx.ob('C01.R5', '%s|no-skip' % locks.site_name(prog, f), ok3, 'every pop is preceded by a front() of the same iteration', where=f.loc(inv['i']))
    if n < 4:
        raise AnalysisBroken('expected >=4 task invocation sites, found %d' % n)


def parity_on_edge(f, cond, k, depth=0):
    """which parity of the tested id holds on successor edge k (0 = true edge) of condition `cond`: 'odd' / 'even' / None.
    Understands id & 1, id % 2, comparisons of those with 0/1, negation, and a local bool with a single such definition."""
    from tbxlint import rd
    cs = f.s(f.strip_casts(cond))
    if cs is None or depth > 3:
        return None
    true_is = None
    if cs['k'] == 'UnaryOperator' and cs.get('op') == '!':
        r = parity_on_edge(f, cs['ch'][0], 0, depth + 1)
        true_is = {'odd': 'even', 'even': 'odd'}.get(r)
    elif cs['k'] == 'BinaryOperator' and cs.get('op') in ('&', '%'):
        c = f.s(f.strip_casts(cs['ch'][1])).get('cv')
        if (cs['op'] == '&' and c == 1) or (cs['op'] == '%' and c == 2):
            true_is = 'odd'
    elif cs['k'] == 'BinaryOperator' and cs.get('op') in ('==', '!='):
        for a, b in ((cs['ch'][0], cs['ch'][1]), (cs['ch'][1], cs['ch'][0])):
            inner = parity_on_edge(f, a, 0, depth + 1)
            c = f.s(f.strip_casts(b)).get('cv') if f.s(f.strip_casts(b)) else None
            if inner and c in (0, 1):
                eq_one = (cs['op'] == '==') == (c == 1)      # the condition is true exactly when the inner test is non-zero
                true_is = inner if eq_one else {'odd': 'even', 'even': 'odd'}[inner]
    elif cs['k'] == 'DeclRefExpr' and cs.get('dk') == 'Var':
        defs = rd.local_defs(f, cs['d'])
        if len(defs) == 1 and defs[0]['kind'] == 'init' and defs[0]['rhs'] is not None:
            true_is = parity_on_edge(f, defs[0]['rhs'], 0, depth + 1)
    if true_is is None:
        return None
    return true_is if k == 0 else {'odd': 'even', 'even': 'odd'}[true_is]


def r6(ctx, prog, eng):
    ctx.rule('C01.R6', 'A6+A12: FIFO by construction (member queues: append at back, take from front, wholesale swap/move, erase by id only '
                       'in cancel); id spaces of different parity; cancel searches the running batch first, then the queue of that parity', floor=8)
    allowed = {'emplace_back', 'push_back', 'front', 'pop_front', 'empty', 'size', 'swap', 'begin', 'end', 'clear'}
    for f in scope_funcs(prog):
        for st in f.calls():
            if 'obj' not in st:
                continue
            fq = f.field_of(st['obj'])
            if fq and fq.split('::')[-1] in QUEUES and fq.startswith(CL):
                fn = st.get('fn')
                okop = fn in allowed
                why = 'member queue operation %s' % fn
                if not okop and fn in ('erase', 'assign') and len(st.get('args', [])) == 2 and _is_begin_of(f, st['args'][0], set(QUEUES)):
                    # a prefix range [begin, begin + k): what is taken keeps its order, and so does what stays
                    okop, why = True, 'member queue operation %s on a prefix range (begin .. begin + k)' % fn
                ctx.ob('C01.R6', '%s|%s.%s' % (locks.site_name(prog, f), fq.split('::')[-1], fn), okop, why, where=f.loc(st['i']))
    # erase only inside RemoveRunFuncItemById, called only by cancel
    rm = prog.fn1(CL + '::RemoveRunFuncItemById')
    callers = set()
    for f in scope_funcs(prog):
        for st in f.calls():
            if st.get('usr') == rm.usr:
                callers.add(prog.outermost(f).name)
    ctx.ob('C01.R6', '%s|erase-callers' % rm.name, callers == {CL + '::cancel'}, 'RemoveRunFuncItemById is called only by cancel(): %s' % sorted(callers))
    # the eraser removes stably: cancelling one task must not change the relative order of the others.  On the queue it was handed it may only look (begin/end/
    # empty/size, find/find_if), compact with the order-preserving std::remove/remove_if, and erase; it never assigns to, swaps, moves out of or pops an element
    qpar = [p_ for p_ in rm.params if 'deque' in (p_.get('ct') or '') or 'RunFuncQueue' in (p_.get('t') or '')]
    if len(qpar) != 1:
        raise AnalysisBroken('RemoveRunFuncItemById: queue parameter not found')
    MEM_OK = {'begin', 'end', 'cbegin', 'cend', 'empty', 'size', 'erase'}
    ALG_OK = {'remove_if', 'remove', 'find_if', 'find', 'next', 'prev', 'distance', 'advance', 'operator!=', 'operator==', 'operator++', 'operator--', 'operator+', 'operator-', 'operator*',
              'operator->', 'operator()'}
    badops = []
    for st in rm.calls():
        if prog.outermost(rm) is not rm:
            continue
        fn = st.get('fn') or ''
        if 'obj' in st and rm.path(st['obj']) == qpar[0]['n']:
            if fn not in MEM_OK:
                badops.append((st, '%s.%s()' % (qpar[0]['n'], fn)))
        elif st['k'] == 'CXXOperatorCallExpr' and st.get('op') == '=' and 'RunFuncItem' in (st.get('t') or '') + (st.get('cls') or ''):
            badops.append((st, 'assignment to an element'))
        elif (st.get('callee') or '').startswith('std::') and fn not in ALG_OK and 'deque' not in (st.get('cls') or ''):
            badops.append((st, 'std::%s()' % fn))
    for st in rm.stmts:
        if st and st['k'] == 'BinaryOperator' and st.get('op') == '=' and 'RunFuncItem' in (st.get('t') or '') + (st.get('ct') or ''):
            badops.append((st, 'assignment to an element'))
    ctx.ob('C01.R6', '%s|stable-removal' % rm.name, not badops, 'the eraser only looks, compacts with std::remove_if and erases' if not badops else
           'the eraser uses %s on the queue it searches: removing one task moves another one out of its place, so tasks no longer run in the order they were submitted'
           % ', '.join(sorted({w for _, w in badops})), where=rm.loc(badops[0][0]['i']) if badops else rm.loc(rm.body))
    # id allocators
    fa = prog.field(CL, 'run_in_loop_id_alloc_')
    fb = prog.field(CL, 'run_next_id_alloc_')
    ok = fa.get('initv') is not None and fb.get('initv') is not None and (fa['initv'] % 2) != (fb['initv'] % 2)
    ctx.ob('C01.R6', '%s|id-parity-init' % CL, ok, 'allocators start at different parities (%s, %s)' % (fa.get('initv'), fb.get('initv')))
    for fname, fld in (('allocRunInLoopId', 'run_in_loop_id_alloc_'), ('allocRunNextId', 'run_next_id_alloc_')):
        g = prog.fn1(CL + '::' + fname)
        steps = []
        for st in g.stmts:
            if st and st['k'] == 'CompoundAssignOperator' and (g.field_of(st['ch'][0]) or '').endswith(fld):
                steps.append((st.get('op'), g.s(g.strip_casts(st['ch'][1])).get('cv')))
            elif st and st['k'] in ('BinaryOperator', 'UnaryOperator') and st.get('op') in ('=', '++', '--') and (g.field_of(st['ch'][0]) or '').endswith(fld):
                steps.append((st.get('op'), None))
        ok = bool(steps) and all(op == '+=' and v is not None and v % 2 == 0 and v > 0 for op, v in steps)
        ctx.ob('C01.R6', '%s|even-step' % g.name, ok, 'allocator only advances by a positive even constant (%s)' % steps, where=g.loc(g.body))
    # which queue gets which ids
    for fname, alloc, queue in (('runInLoop', 'allocRunInLoopId', 'run_in_loop_func_queue_'), ('runNext', 'allocRunNextId', 'run_next_func_queue_')):
        for g in prog.fn(CL + '::' + fname):
            pushes = [st for st in g.calls() if st.get('fn') in ('emplace_back', 'push_back')]
            if not pushes:
                continue
            okq = all(q.obj_field_is(g, p, queue) for p in pushes) and bool(q.calls(g, callee=CL + '::' + alloc)) and \
                not q.calls(g, callee=CL + '::' + ('allocRunNextId' if alloc == 'allocRunInLoopId' else 'allocRunInLoopId'))
            ctx.ob('C01.R6', '%s|id-space' % g.name, okq, '%s pushes to %s with ids from %s' % (fname, queue, alloc), where=g.loc(pushes[0]['i']))
    # cancel routing
    c = prog.fn1(CL + '::cancel')
    res = eng.analyze(c, frozenset())
    rcs = [st for st in c.calls() if st.get('usr') == rm.usr]
    byq = {}
    for st in rcs:
        fq = c.field_of(st['args'][0])
        byq[fq.split('::')[-1] if fq else '?'] = st
    ok = set(byq) == set(QUEUES)
    ctx.ob('C01.R6', '%s|searches-all' % c.name, ok, 'cancel searches %s' % sorted(byq), where=c.loc(c.body))
    if ok:
        tp = q.pt(c, byq['tmp_func_queue_'])
        ctx.ob('C01.R6', '%s|batch-first' % c.name, all(c.cfg.dominates(tp, q.pt(c, byq[x])) for x in QUEUES[:2]), 'the running batch is searched first', where=c.loc(byq['tmp_func_queue_']['i']))
        for qn, want_odd in (('run_next_func_queue_', True), ('run_in_loop_func_queue_', False)):
            p = q.pt(c, byq[qn])
            good = False
            for cond, k, b in c.cfg.controlling_branches(p):
                par = parity_on_edge(c, cond, k)
                if par is not None:
                    good = (par == 'odd') == want_odd
            ctx.ob('C01.R6', '%s|parity-%s' % (c.name, qn), good, '%s is searched on the %s branch of (id & 1)' % (qn, 'odd' if want_odd else 'even'), where=c.loc(byq[qn]['i']))
        ctx.ob('C01.R6', '%s|locked-erase' % c.name, LOCK in (res.get(q.pt(c, byq['run_in_loop_func_queue_'])) or ()), 'the cross-thread queue is searched under lock_', where=c.loc(byq['run_in_loop_func_queue_']['i']))


def r7(ctx, prog, eng, ctxs):
    ctx.rule('C01.R7', 'A1 role closure: tasks are only ever invoked by loop-thread functions, never by an any-thread entry', floor=4)
    roles_of = {}
    for f, e, r in ctxs:
        roles_of.setdefault(f.key, set()).add(r)
    for f in scope_funcs(prog):
        for inv in q.invokes(f, 'RunFuncItem::func'):
            rs = roles_of.get(f.key, set())
            ctx.ob('C01.R7', '%s|invoke-role' % locks.site_name(prog, f), 'any' not in rs and bool(rs), 'invoked in role(s) %s' % sorted(rs), where=f.loc(inv['i']))


def r8(ctx, prog, eng, ctxs, anyf):
    ctx.rule('C01.R8', 'A1 role closure for the rest of the loop state: an any-thread entry (runInLoop/run/isInLoopThread/isRunning) touches no other field that the '
             'loop thread writes, except under lock_; run() may hand over to the loop-thread-only runNext() only behind the role test it evaluates under lock_', floor=3)
    # 1. the role switch inside run()
    n = 0
    for f in prog.fn(CL + '::run'):
        calls = [st for st in f.calls() if st.get('fn') == 'runNext' and st.get('cls') == CL]
        tests = [st for st in f.calls() if st.get('fn') in ('isInLoopThreadLockless', 'isInLoopThread')]
        res = eng.analyze(f, frozenset())
        for c in calls:
            n += 1
            cp = q.pt(f, c)
            locked = [t for t in tests if t['fn'] == 'isInLoopThread' or LOCK in (res.get(q.pt(f, t)) or ())]
            dep = False
            for cond, k, b in f.cfg.controlling_branches(cp):
                if any(t['i'] in set(f.walk(cond)) for t in locked):
                    dep = True
                defs = None
                tst = q.simple_test(f, cond)
                if tst is not None:
                    from tbxlint import rd
                    for d in rd.local_defs(f, tst[0]):
                        if d['point'] is not None and any(any(t['i'] in set(f.walk(c2)) for t in locked) for c2, k2, b2 in f.cfg.controlling_branches(d['point'])):
                            dep = True
            ctx.ob('C01.R8', '%s|runNext-behind-role-test@%s' % (f.name, f.loc(c['i']).split(':')[-1]), bool(locked) and dep,
                   'runNext() is reached only through the role test (isRunning/isInLoopThread evaluated under lock_)' if locked and dep else
                   'run() can reach the loop-thread-only runNext() without the role test evaluated under lock_: a caller on another thread pushes into the unlocked queue '
                   '(data race, lost or reordered tasks, no wake-up)', where=f.loc(c['i']))
    if n == 0:
        raise AnalysisBroken('CommonLoop::run: no hand-over to runNext found')
    # 2. every other loop-written field: not touched by the any-thread entries themselves (runNext is behind the role switch)
    any_funcs = {}
    work = [(f, frozenset()) for f in anyf]
    while work:
        f, entry = work.pop()
        if (f.key, entry) in any_funcs:
            continue
        any_funcs[(f.key, entry)] = f
        res = eng.analyze(f, entry)
        for pt, st in f.cfg.stmt_points():
            if st['k'] in q.CALL_KINDS and res.get(pt) is not None:
                g = eng.resolve_callee(st)
                if g is not None and not (g.short == 'runNext' and g.cls == CL):
                    work.append((g, frozenset(res[pt])))
    keep = set(k for k in any_funcs)
    ctxs2 = [(f, e, r) for f, e, r in ctxs if r != 'any' or (f.key, e) in keep]
    fields = locks.class_fields(prog, CL) - {CL + '::' + x for x in XFIELDS}
    # only fields that the loop role writes after construction matter
    accs = locks.collect_accesses(prog, eng, ctxs2, fields)
    written = {a['field'] for a in accs if a['rw'] == 'w' and a['role'] == 'loop'}
    STATS = ('the statistics / water-line API (getStat, resetStat, water_line) is outside the histories the property quantifies over (submissions against loop '
             'start, iteration, exit, re-run, destruction); the submitting side holds lock_')
    locks.race_rule(ctx, 'C01.R8', prog, eng, [c for c in ctxs2], written, multi_roles=('any',), not_concurrent=[('dtor', 'any'), ('dtor', 'loop')],
                    exceptions={(CL + '::getStat', 'run_in_loop_peak_num_'): STATS, (CL + '::resetStat', 'run_in_loop_peak_num_'): STATS,
                                (CL + '::water_line', 'water_line_'): STATS})
    ctx.ob('C01.R8', CL + '|fields', True, '%d loop-written fields outside the cross-thread set checked against the any-thread entries' % len(written))


def r10(ctx, prog, eng):
    ctx.rule('C01.R10', 'A5 wake-up token vs channel: has_commit_run_req_ means "a wake-up is pending in run_event_fd_"; when the channel is torn down and re-created '
             '(loop stop / next runLoop) the token is reset under lock_ — after the teardown, or before the start-time commit — so that the re-created eventfd is written again', floor=1)
    after = prog.fn1(CL + '::runThisAfterLoop')
    before = prog.fn1(CL + '::runThisBeforeLoop')

    def resets(f):
        return [a for a, rhs in q.assigns(f, 'has_commit_run_req_') if f.s(f.strip_casts(rhs)) is not None and f.s(f.strip_casts(rhs)).get('v') is False]
    closes = [st for st in after.stmts if st and st['k'] == 'CallExpr' and st.get('callee') == 'close' and any((after.field_of(a) or '').endswith('run_event_fd_') for a in st.get('args', ()))]
    closes += [a for a, rhs in q.assigns(after, 'run_event_fd_')]
    if not closes:
        raise AnalysisBroken('runThisAfterLoop: teardown of run_event_fd_ not found')
    res_a = eng.analyze(after, frozenset())
    ok_after = False
    for r in resets(after):
        rp = q.pt(after, r)
        if LOCK in (res_a.get(rp) or ()) and all(not after.cfg.exists_path(q.pt(after, c), 'exit', avoid=[rp]) or after.cfg.dominates(rp, q.pt(after, c)) for c in closes):
            ok_after = True
    res_b = eng.analyze(before, frozenset())
    commits = q.calls(before, callee=CL + '::commitRunRequest')
    ok_before = False
    for r in resets(before):
        rp = q.pt(before, r)
        if LOCK in (res_b.get(rp) or ()) and commits and all(before.cfg.dominates(rp, q.pt(before, c)) for c in commits):
            ok_before = True
    ctx.ob('C01.R10', CL + '|token-reset-with-channel', ok_after or ok_before,
           'the token is reset %s' % ('where the channel is torn down (runThisAfterLoop, under lock_)' if ok_after else 'before the start-time commit of the next run (runThisBeforeLoop, under lock_)')
           if ok_after or ok_before else
           'has_commit_run_req_ survives the teardown of the eventfd: a runInLoop() committed after the last handleRunInLoopFunc() of a run leaves it true, and in the next '
           'runLoop() every runInLoop() — and the start-time commit — skips the eventfd write: the loop is never woken for cross-thread tasks again',
           where=after.loc(closes[0]['i']))


def r9(ctx, prog):
    ctx.rule('C01.R9', 'A4 (must-fact): the batch being executed is always finished: tmp_func_queue_ is empty at every exit of handleNextFunc / '
             'handleRunInLoopFunc (nothing but the loop shutdown code looks into it again, and that does not), assuming it empty at entry', floor=2)
    def is_tmp(g, st):
        return 'obj' in st and (g.field_of(st['obj']) or '').endswith('tmp_func_queue_')
    for name in ('handleNextFunc', 'handleRunInLoopFunc'):
        f = prog.fn1(CL + '::' + name)

        def gen(b, k, f=f):
            return b.cond is not None and q.edge_holds(f, b.cond, k, 'tmp_func_queue_.empty()', '!=', '0')

        def kill(pt, st, f=f):
            if st['k'] in q.CALL_KINDS and st.get('fn') in ('swap', 'push_back', 'emplace_back', 'push_front', 'insert', 'operator=') and \
                    (is_tmp(f, st) or any((f.field_of(a) or '').endswith('tmp_func_queue_') for a in st.get('args', ()))):
                return True
            return False
        fact = q.must_fact(f, gen, kill, entry=True)
        bad = []
        for r in q.returns(f):
            if not fact.get(q.pt(f, r), False):
                bad.append(f.loc(r['i']))
        # the implicit return at the end of a void function: the predecessors of the exit block
        for b in f.cfg.blocks.values():
            for k_, s_ in enumerate(b.succ):
                if s_ != f.cfg.exit:
                    continue
                endp = (b.id, len(b.el))
                v = fact.get(endp)
                if gen(b, k_):
                    v = True
                if v is False:
                    last = [e for e in b.el if e[0] == 'S']
                    bad.append(f.loc(last[-1][1]) if last else f.loc(f.body))
        ctx.ob('C01.R9', '%s|batch-finished' % f.name, not bad, 'every exit is reached with tmp_func_queue_ known empty' if not bad else
               'the function can return (at %s) while tasks swapped into tmp_func_queue_ are still there: nothing runs them later, they are dropped when the loop is destroyed'
               % ', '.join(sorted(set(bad))[:3]), where=f.loc(f.body))


def r11(ctx, prog, eng):
    ctx.rule('C01.R11', 'A4 no lost wake-up at the consumer: "tasks are waiting in the cross-thread queue => a wake-up is pending" holds at every exit of handleRunInLoopFunc — the '
             'handler that acknowledges the wake-up either took the whole queue (wholesale swap / clear / move), or is on the empty edge of a test of the queue, or committed a new '
             'wake-up after the acknowledgement. Forward dataflow of the two facts "queue known empty" and "wake-up known pending" (joined with AND); whatever it leaves behind without '
             'a wake-up waits until an unrelated submission', floor=1)
    f = prog.fn1(CL + '::handleRunInLoopFunc')
    QN = 'run_in_loop_func_queue_'

    def is_ack(g, st):
        return st['k'] == 'CallExpr' and st.get('callee') == 'read' and any((g.field_of(a) or '').endswith('run_event_fd_') for a in st.get('args', []))

    def is_commit(g, st):
        return st['k'] == 'CallExpr' and st.get('callee') == 'write' and any((g.field_of(a) or '').endswith('run_event_fd_') for a in st.get('args', []))
    acks = {st['i'] for st in q.event_stmts(prog, eng, f, is_ack)}
    commits = {st['i'] for st in q.event_stmts(prog, eng, f, is_commit)}
    if not acks:
        raise AnalysisBroken('handleRunInLoopFunc: no acknowledgement of the wake-up found')

    def on_q(st):
        return 'obj' in st and (f.field_of(st['obj']) or '').endswith(QN)

    def transfer(pt, e, st):
        if e[0] != 'S' or st is None:
            return st
        x = f.stmts[e[1]]
        E, W, I = st
        E0, W0 = E, W
        if x['i'] in acks:
            W = False
        if x['i'] in commits:
            W = True
        if x['k'] in q.CALL_KINDS:
            args_q = any((f.field_of(a) or '').endswith(QN) for a in x.get('args', ()))
            if x.get('fn') == 'swap' and (on_q(x) or args_q):
                other = [a for a in x.get('args', ())] + ([x['obj']] if 'obj' in x else [])
                E = any((f.field_of(o) or '').endswith('tmp_func_queue_') for o in other)     # the batch queue is empty between batches (C01.R9)
            elif on_q(x) and x.get('fn') == 'clear':
                E = True
            elif on_q(x) and x.get('fn') in ('push_back', 'emplace_back', 'push_front', 'emplace_front', 'insert', 'emplace', 'operator=', 'assign'):
                E = False
            elif (x.get('callee') or '').startswith('std::move') and args_q:
                E = True
        # I = "E or W" kept as a fact of its own, so that it survives a join of an "empty" path with a "woken" path
        if (E0 and not E) or (W0 and not W):
            I = E or W
        if E or W:
            I = True
        return (E, W, I)

    def edge(b, k, st):
        if st is None:
            return st
        blk = b if hasattr(b, 'cond') else f.cfg.blocks[b]
        if blk.cond is not None and len(blk.succ) == 2:
            if q.edge_holds(f, blk.cond, k, QN + '.empty()', '!=', '0') or q.edge_holds(f, blk.cond, k, QN + '.size()', '==', '0'):
                return (True, st[1], True)
        return st
    inn, before = f.cfg.forward((False, True, True), transfer, lambda a, b: (a[0] and b[0], a[1] and b[1], a[2] and b[2]), edge=edge)
    bad = []
    ends = [q.pt(f, r) for r in q.returns(f)]
    for b in f.cfg.blocks.values():
        if f.cfg.exit in [s_ for s_ in b.succ if s_ is not None] and not any(p_[0] == b.id for p_ in ends):
            ends.append((b.id, len(b.el)))
    for p_ in ends:
        v = before.get(p_)
        if v is not None and not v[2]:
            bad.append(p_)
    ctx.ob('C01.R11', '%s|queue-empty-or-woken' % f.name, not bad, 'at every exit the cross-thread queue was taken whole or a wake-up is pending' if not bad else
           'a path through handleRunInLoopFunc() acknowledges the wake-up (the eventfd is emptied, has_commit_run_req_ cleared) while tasks may remain in %s and no new wake-up is '
           'committed: a running, idle loop leaves them there until some unrelated submission arrives' % QN, where=f.loc(f.body))


def run(ctx):
    prog = extract('ALL' if ctx.tier == 'thorough' else SCOPE)
    eng, ctxs, anyf, loopf = setup(prog)
    ctx.guard(r1, ctx, prog, eng, ctxs)
    ctx.guard(r2, ctx, prog, eng)
    ctx.guard(r3, ctx, prog, eng)
    ctx.guard(r4, ctx, prog, eng)
    ctx.guard(r5, ctx, prog, eng)
    ctx.guard(r6, ctx, prog, eng)
    ctx.guard(r8, ctx, prog, eng, ctxs, anyf)
    ctx.guard(r9, ctx, prog)
    ctx.guard(r10, ctx, prog, eng)
    ctx.guard(r11, ctx, prog, eng)
    ctx.guard(r7, ctx, prog, eng, ctxs)
    from tbxlint import progress
    ctx.guard(progress.run_files, ctx, prog, 'C01.R12', ['event/common_loop.cpp', 'event/common_loop_run.cpp', 'event/engines/epoll/loop.cpp', 'event/engines/select/loop.cpp'], 'loop run/drain code', floor=1)
    from rules import C01_replay
    ctx.guard(C01_replay.r13, ctx, prog)
    return prog
