"""C13 — the history commands !n, !-n and !! replayed (C13.R21).  Imported by rules/C13.py.

tbxlint/minterp.py interprets Terminal::Impl::executeRunHistoryCmd with std::string as concrete text; std::stoi is the library function (optional blanks, sign, digits,
trailing text ignored; invalid_argument without digits, out_of_range beyond int) raising interpreted exceptions that the catch clauses of the code receive; execute() is a probe
that notes the line it is asked to run; what is sent to the client is noted.  Histories of 0..4 distinct lines and a list of arguments."""
from tbxlint.facts import AnalysisBroken
from tbxlint import minterp
from tbxlint.minterp import P, S, Throw

TI = 'tbox::terminal::Terminal::Impl'


def stoi(text):
    t = text.lstrip(' \t\n\r\f\v')
    i = 0
    sign = 1
    if i < len(t) and t[i] in '+-':
        sign = -1 if t[i] == '-' else 1
        i += 1
    j = i
    while j < len(t) and t[j].isdigit():
        j += 1
    if j == i:
        raise Throw(['std::invalid_argument', 'std::logic_error', 'std::exception'], 'stoi')
    v = sign * int(t[i:j])
    if not (-(1 << 31) <= v < (1 << 31)):
        raise Throw(['std::out_of_range', 'std::logic_error', 'std::exception'], 'stoi')
    return v


def h_strtol(it, f, st, a):
    """strtol(nptr, endptr, base) as C defines it (base 10 here): blanks, sign, digits; *endptr = first unused character; ERANGE beyond long"""
    p, endp = a[0], a[1]
    if not isinstance(p, P) or p.r not in it.mem:
        raise AnalysisBroken('strtol: the text argument is not a region the replay holds (%s)' % f.loc(st['i']))
    cells = it.mem[p.r]
    i = p.o
    ch = lambda k: chr(cells[k]) if k < len(cells) and isinstance(cells[k], int) and cells[k] else ''
    while ch(i) in (' ', '\t', '\n', '\r', '\f', '\v') and ch(i):
        i += 1
    j = i
    sign = 1
    if ch(j) in ('+', '-') and ch(j):
        sign = -1 if ch(j) == '-' else 1
        j += 1
    k = j
    while ch(k).isdigit():
        k += 1
    v = 0
    end = p.o
    if k > j:
        v = sign * int(''.join(ch(x) for x in range(j, k)))
        end = k
        if not (-(1 << 63) <= v < (1 << 63)):
            v = (1 << 63) - 1 if v > 0 else -(1 << 63)
            it.mem.setdefault('errno', [0])[0] = 34      # ERANGE
    if isinstance(endp, P) and endp.r in it.mem and not isinstance(it.mem[endp.r], dict):
        it.mem[endp.r][endp.o] = P(p.r, end)
    return v


def libc_hooks(it):
    it.mem.setdefault('errno', [0])
    it.hooks.update({'strtol': h_strtol, '__errno_location': lambda it_, f, st, a: P('errno', 0)})


def reference(history, arg):
    """('run', line) | ('error',)"""
    sub = arg[1:]
    if sub == '!':
        return ('run', history[-1]) if history else ('error',)
    try:
        idx = stoi(sub)
    except Throw:
        return ('error',)
    if idx >= 0:
        return ('run', history[idx]) if idx < len(history) else ('error',)
    return ('run', history[len(history) + idx]) if -idx <= len(history) else ('error',)


def one(prog, history, arg):
    ran, sent = [], []
    noop = lambda it, f, st, a: None
    hooks = dict(minterp.VECTOR_HOOKS)
    def h_at(it_, f, st, a):
        v = minterp._vec(it_, f, st)
        i = a[-1]
        if not isinstance(i, int) or not (0 <= i < len(v)):
            raise Throw(['std::out_of_range', 'std::logic_error', 'std::exception'], 'at')      # what the library does; the code has a handler for it
        return v[i]
    hooks['at'] = h_at
    hooks.update({'stoi': lambda it, f, st, a: stoi(str(a[0])), 'send': lambda it, f, st, a: sent.append(str(a[-1]) if isinstance(a[-1], S) else it.to_text(a[-1])) or 1})
    it = minterp.Interp(prog, {'str:empty': [0]}, hooks=hooks, inline=('*',), max_steps=200000)
    it.string_mode = True
    libc_hooks(it)
    it.noeval = set(getattr(it, 'noeval', ())) | {'LogInfo', 'LogWarn', 'LogDbg'}
    sess = {'__cls__': 'SessionContext', '__open__': True, 'history': [S(h) for h in history], 'curr_input': S(''), 'token': 0, 'wp_conn': 0}
    conn = {'__cls__': 'Connection', '__open__': True}
    it._keep += [sess, conn]
    sess['wp_conn'] = it.ref(conn)
    impl = {'__cls__': TI, '__open__': True}
    it._keep.append(impl)

    def h_execute(it_, f, st, a):
        r = it_.record_of(a[0])
        ran.append(str(r.get('curr_input')))
        return 1
    it.hooks['execute'] = h_execute
    g = prog.fn1(TI + '::executeRunHistoryCmd')
    try:
        ret = it.call(g, [it.ref(sess), [S(arg)]], this=impl)
    except Throw as ex:
        it.faults.append('an exception (%s) escapes executeRunHistoryCmd' % ex.types[0])
        ret = None
    except AnalysisBroken:
        if not it.faults:
            raise
        ret = None          # the fault (an access outside the history) is the finding; what the code does with the garbage afterwards is not
    return ret, ran, sent, it.faults


def r21(ctx, prog):
    ctx.rule('C13.R21', 'A10 the history commands by abstract replay: executeRunHistoryCmd is interpreted (std::string as text, std::stoi raising the exceptions of the library into the '
             'catch clauses of the code) for histories of 0..4 lines and the arguments !!, !0..!4, !-1..!-5, !+1, ! 2, !2x, !x, !, !-, !99999999999, !-99999999999: it runs exactly the '
             'addressed line — !n the n-th stored line, !-n the n-th from the end, !! the last — once, or runs nothing, answers false and tells the client about the error when there '
             'is no such line or the index does not parse', floor=1)
    if not any(g.name == TI + '::executeRunHistoryCmd' for g in prog.funcs.values()):
        from tbxlint.facts import extract
        prog = extract('ALL')
    args = ['!!'] + ['!%d' % i for i in range(0, 5)] + ['!-%d' % i for i in range(1, 6)] + ['!+1', '! 2', '!2x', '!x', '!', '!-', '!99999999999', '!-99999999999', '!-0']
    bad = None
    n = 0
    for L in range(0, 5):
        history = ['line%d' % i for i in range(L)]
        for a in args:
            n += 1
            want = reference(history, a)
            ret, ran, sent, faults = one(prog, history, a)
            why = None
            if faults:
                why = faults[0]
            elif want[0] == 'run' and ran != [want[1]]:
                why = 'runs %s where the addressed line is "%s"' % (ran or 'nothing', want[1])
            elif want[0] == 'error' and (ran or ret):
                why = 'there is no such line and it %s' % ('runs "%s"' % ran[0] if ran else 'answers true')
            elif want[0] == 'error' and not any('rror' in (x or '') for x in sent):
                why = 'there is no such line and the client is told nothing'
            if why and bad is None:
                bad = (history, a, why)
    f = prog.fn1(TI + '::executeRunHistoryCmd')
    ctx.ob('C13.R21', 'history-commands|replay', bad is None, '%d combinations of history and argument' % n if bad is None else
           'history of %d line(s), argument "%s": %s' % (len(bad[0]), bad[1], bad[2]), where=f.loc(f.body))
