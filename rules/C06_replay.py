"""C06 — the buffered descriptor replayed against a model of the kernel (C06.R15).  Imported by rules/C06.py.

tbxlint/minterp.py interprets the syntax trees of network::BufferedFd (initialize, enable, send, onWriteCallback, onReadCallback) over the interpreted util::Buffer.  The
descriptor is a model: write() accepts at most as many bytes as the peer has left room for (none: EAGAIN), readv() hands out what the peer has sent (nothing: EAGAIN,
after a close: 0), the write / read events are flags the harness consults before it calls the handlers.  Every byte handed to send() and every byte the peer sends is a
marker of its own.  Scripts of user and peer actions (sends of several sizes before and after enable(), the peer draining little or everything, the peer sending little
or more than the receive buffer and its 1 KiB spill can take, the peer closing, turns of the event loop) are enumerated; the user's receive callback consumes everything, one byte or nothing.
At the end of each script, after the peer has drained everything: the peer has received exactly the bytes sent, in order, once; send-complete was reported only with an
empty queue; the receive callback was shown, each time, exactly the bytes not yet consumed followed by the new ones; the close was reported once, after all data."""
import itertools
from tbxlint.facts import AnalysisBroken
from tbxlint import minterp
from tbxlint.minterp import P

B = 'tbox::network::BufferedFd'
EAGAIN = 11


class Bench:
    def __init__(self, prog, consume, threshold=0):
        self.prog = prog
        self.room = 0               # bytes the kernel still accepts
        self.wire = []              # what the peer has received
        self.inq = []               # what the peer has sent and the descriptor has not read yet
        self.peer_closed = False
        self.sent = []              # every byte handed to send()
        self.delivered = []         # every byte the peer has sent
        self.consumed = 0
        self.shown_problem = None
        self.complete_calls = []    # (bytes on the wire, bytes accepted) at each send-complete
        self.zero_calls = 0
        self.consume = consume
        self.serial = 0
        noop = lambda it, f, st, a: None
        hooks = dict(minterp.VECTOR_HOOKS)
        hooks.update({'memcpy': minterp.h_memcpy, 'memmove': minterp.h_memcpy, 'Fd::write': self.h_write, 'Fd::readv': self.h_readv, 'Fd::isNull': lambda it, f, st, a: 0, 'Fd::setNonBlock': noop, 'Fd::operator=': noop, 'Fd::Fd': noop, 'Fd::~Fd': noop,
                      'Fd::get': lambda it, f, st, a: 5, 'newFdEvent': self.h_new_event, '__errno_location': lambda it, f, st, a: P('errno', 0), 'strerror': noop,
                      'bind': lambda it, f, st, a: ('bind', a[0], list(a[1:])), 'move': lambda it, f, st, a: a[0]})
        for c in ('FdEvent', 'Event'):
            hooks[c + '::initialize'] = lambda it, f, st, a: 1
            hooks[c + '::setCallback'] = lambda it, f, st, a: it.record_of(it.cur_obj).__setitem__('cb', a[0])
            hooks[c + '::enable'] = lambda it, f, st, a: (it.record_of(it.cur_obj).__setitem__('enabled', 1), 1)[1]
            hooks[c + '::disable'] = lambda it, f, st, a: (it.record_of(it.cur_obj).__setitem__('enabled', 0), 1)[1]
            hooks[c + '::isEnabled'] = lambda it, f, st, a: int(bool(it.record_of(it.cur_obj).get('enabled')))
        self.it = minterp.Interp(prog, {'str:empty': [0], 'errno': [0]}, hooks=hooks, inline=('*',), max_steps=4000000)
        it = self.it
        self.events = []
        loop = {'__cls__': 'tbox::event::Loop', '__open__': True}
        it._keep.append(loop)
        self.rec = it.new_record(B)
        it._keep.append(self.rec)
        ctor = [g for g in prog.by_name.get(B + '::BufferedFd', ()) if g.d.get('ctor') and len(g.params) == 1]
        if len(ctor) != 1:
            raise AnalysisBroken('BufferedFd(Loop*) not found')
        it.run_ctor(ctor[0], ctor[0].stmts[0], self.rec, B, ctor[0], [it.ref(loop)])
        fd = {'__cls__': 'tbox::util::Fd', '__open__': True}
        it._keep.append(fd)
        if not self.call('initialize', [it.ref(fd), 3]):
            raise AnalysisBroken('BufferedFd::initialize refused')
        self.rec['receive_cb_'] = self.on_receive
        self.rec['receive_threshold_'] = threshold
        self.rec['send_complete_cb_'] = self.on_complete
        self.rec['read_zero_cb_'] = self.on_zero
        self.threshold = threshold

    def call(self, name, args):
        g = self.it.find_method(B, name, len(args))
        if g is None:
            raise AnalysisBroken('BufferedFd::%s/%d not found' % (name, len(args)))
        return self.it.call(g, list(args), this=self.rec)

    # ---- kernel
    def h_new_event(self, it, f, st, a):
        e = {'__cls__': 'tbox::event::FdEvent', '__open__': True, 'enabled': 0, 'cb': 0, 'kind': 'read' if 'read' in (it.to_text(a[0]) or '') else 'write'}
        it._keep.append(e)
        self.events.append(e)
        return it.ref(e)

    def h_write(self, it, f, st, a):
        p, n = a[0], a[1]
        if self.room <= 0:
            it.mem['errno'][0] = EAGAIN
            return -1
        k = min(n, self.room)
        sp = it.span(f, st, p, k, 'write() from the buffer handed to it')
        if sp is None:
            raise minterp._Abort()
        self.wire += list(sp[0][sp[1]:sp[1] + k])
        self.room -= k
        return k

    def h_readv(self, it, f, st, a):
        iov, cnt = a[0], a[1]
        if not self.inq:
            if self.peer_closed:
                return 0
            it.mem['errno'][0] = EAGAIN
            return -1
        total = 0
        for i in range(cnt):
            rec = it.record_of(it.mem[iov.r][iov.o + i])
            base, ln = rec.get('iov_base'), rec.get('iov_len')
            if not isinstance(ln, int):
                raise AnalysisBroken('readv: an iovec length the replay keeps abstract')
            k = min(ln, len(self.inq))
            if k:
                sp = it.span(f, st, base, k, 'readv() into iovec %d (told %d byte(s))' % (i, ln))
                if sp is None:
                    raise minterp._Abort()
                sp[0][sp[1]:sp[1] + k] = self.inq[:k]
                self.inq = self.inq[k:]
                total += k
            if not self.inq:
                break
        return total

    # ---- user callbacks
    def on_receive(self, buff):
        it = self.it
        rec = it.record_of(buff)
        g = it.find_method('tbox::util::Buffer', 'readableSize', 0)
        n = it.call(g, [], this=rec)
        p = it.call(it.find_method('tbox::util::Buffer', 'readableBegin', 0), [], this=rec)
        cells = list(it.mem[p.r][p.o:p.o + n]) if isinstance(p, P) and n else []
        want = self.delivered[self.consumed:self.consumed + len(cells)]
        if cells != want or len(cells) < 1 or len(cells) < self.threshold:
            self.shown_problem = self.shown_problem or ('the receive callback is shown %d byte(s) that are not the %d unconsumed byte(s) followed by the new ones' % (len(cells), len(self.delivered) - self.consumed - len(self.inq))
                                                       if cells != want else 'the receive callback runs with %d byte(s), below the threshold of %d' % (len(cells), self.threshold))
        if len(cells) != len(self.delivered) - self.consumed - len(self.inq):
            self.shown_problem = self.shown_problem or 'the receive callback is shown %d byte(s) where %d are unconsumed and read' % (len(cells), len(self.delivered) - self.consumed - len(self.inq))
        take = {'all': len(cells), 'one': min(1, len(cells)), 'none': 0, 'reply': len(cells)}[self.consume]
        if take:
            it.call(it.find_method('tbox::util::Buffer', 'hasRead', 1), [take], this=rec)
            self.consumed += take
        if self.consume == 'reply' and cells:
            self.act(('send', 4))

    def on_complete(self):
        q = self.it.record_of(self.rec['send_buff_'])
        queued = (q.get('write_index_', 0) - q.get('read_index_', 0)) if q else None
        self.complete_calls.append((len(self.wire), len(self.sent), queued))

    def on_zero(self):
        self.zero_calls += 1
        if self.inq:
            self.shown_problem = self.shown_problem or 'the close is reported while %d byte(s) the peer sent before it are still unread' % len(self.inq)

    # ---- actions
    def ev(self, kind):
        e = [x for x in self.events if x['kind'] == kind]
        return e[0] if e else None

    def act(self, a):
        it = self.it
        if a[0] == 'send':
            self.serial += 1
            name = 'out#%d' % self.serial
            cells = [('s', self.serial, i) for i in range(a[1])]
            it.mem[name] = list(cells)
            self.sent += cells
            self.call('send', [P(name, 0), a[1]])
        elif a[0] == 'enable':
            self.call('enable', [])
        elif a[0] == 'drain':
            self.room += a[1]
        elif a[0] == 'peer':
            self.serial += 1
            cells = [('r', self.serial, i) for i in range(a[1])]
            self.inq += cells
            self.delivered += cells
        elif a[0] == 'close':
            self.peer_closed = True
        elif a[0] == 'loop':
            # one turn of the event loop: what is ready and armed is dispatched (level-triggered)
            self.pump_write()
            self.pump_read()
        elif a[0] == 'wake':
            # one wake-up that reports the descriptor readable *and* writable: the read handler runs first (and may send), then the write handler runs on the readiness
            # observed before — by now the kernel may have no room left, and write() answers EAGAIN
            e = self.ev('write')
            was = bool(e and e.get('enabled') and self.room > 0 and self.rec.get('state_') == 2)
            self.pump_read()
            if was and e.get('enabled') and self.rec.get('state_') == 2 and not self.it.faults:
                f0 = self.prog.fn1(B + '::onWriteCallback')
                self.it.invoke(f0, f0.stmts[0], e['cb'], [2])

    def pump_write(self, limit=60):
        """writability is level-triggered: while the kernel has room and the write event is armed, the handler runs"""
        e = self.ev('write')
        n = 0
        while e and e.get('enabled') and self.rec.get('state_') == 2 and self.room > 0 and not self.it.faults:
            n += 1
            if n > limit:
                self.shown_problem = self.shown_problem or 'the write event stays armed and its handler makes no progress (%d runs with room in the kernel)' % limit
                return
            f0 = self.prog.fn1(B + '::onWriteCallback')
            self.it.invoke(f0, f0.stmts[0], e['cb'], [2])

    def pump_read(self, limit=20):
        """readability is level-triggered: while unread bytes (or an unreported close) are pending and the read event is armed, the handler runs"""
        e = self.ev('read')
        n = 0
        while e and e.get('enabled') and self.rec.get('state_') == 2 and (self.inq or (self.peer_closed and not self.zero_calls)) and not self.it.faults:
            n += 1
            if n > limit:
                self.shown_problem = self.shown_problem or 'the read event stays ready and its handler takes nothing (%d runs)' % limit
                return
            f0 = self.prog.fn1(B + '::onReadCallback')
            self.it.invoke(f0, f0.stmts[0], e['cb'], [1])


def finish(b):
    """the peer reads everything that is still to come"""
    for _ in range(40):
        if b.it.faults:
            return
        q = b.it.record_of(b.rec['send_buff_'])
        queued = q.get('write_index_', 0) - q.get('read_index_', 0)
        e = b.ev('write')
        if not queued and not (e and e.get('enabled')):
            return
        b.room += 1 << 20
        b.pump_write()
        b.pump_read()
        if b.rec.get('state_') != 2:
            return


ALPHABET = [('send', 1), ('send', 4), ('enable',), ('drain', 2), ('drain', 1 << 20), ('peer', 3), ('peer', 1), ('close',), ('loop',)]


def run_script(prog, script, consume, threshold=0):
    b = Bench(prog, consume, threshold)
    for a in script:
        b.act(a)
        if b.it.faults:
            return b, b.it.faults[0]
    if b.rec.get('state_') != 2:
        b.act(('enable',))
    b.act(('loop',))
    finish(b)
    if b.it.faults:
        return b, b.it.faults[0]
    if b.wire != b.sent:
        if len(b.wire) != len(b.sent):
            return b, 'the peer has received %d byte(s) where %d were handed to send()' % (len(b.wire), len(b.sent))
        i = next(j for j in range(len(b.sent)) if b.wire[j] != b.sent[j])
        return b, 'byte %d on the wire is byte %d of send #%d where byte %d of send #%d is due (order / duplication)' % (i, b.wire[i][2], b.wire[i][1], b.sent[i][2], b.sent[i][1])
    for onwire, accepted, queued in b.complete_calls:
        if queued:
            return b, 'send-complete is reported with %s byte(s) still queued' % queued
    if b.sent and not b.complete_calls:
        return b, 'everything was written and send-complete is never reported'
    if b.shown_problem:
        return b, b.shown_problem
    if b.peer_closed and b.ev('read') and b.zero_calls != 1:
        return b, 'the close of the peer is reported %d time(s)' % b.zero_calls
    return b, None


def r15(ctx, prog):
    depth = 5 if ctx.tier == 'thorough' else 4
    ctx.rule('C06.R15', 'A10 the byte stream by abstract replay: scripts of up to %d user / peer actions (send 1 or 4 bytes before and after enable(), the peer draining 2 bytes or everything, '
             'the peer sending 1 or 3 bytes, the peer closing, a turn of the event loop dispatching what is ready and armed) plus long-transfer scripts (a send larger than what the kernel takes at once; 1500 bytes arriving at an empty 0-byte receive '
             'buffer with its 1 KiB spill area) are run on the syntax trees of BufferedFd over the interpreted util::Buffer and a model of the descriptor (partial writes, EAGAIN, '
             'readv into two areas), the receive callback consuming everything, one byte or nothing, or replying with a send of its own in a wake-up that reports the descriptor readable and writable at once (the write handler then meets EAGAIN): the peer receives exactly the bytes sent, in order, once; send-complete is '
             'reported only with an empty queue; the receive callback is shown the unconsumed bytes followed by the new ones; a close is reported once, after the data' % depth, floor=1)
    need = [B + '::onReadCallback', 'tbox::util::Buffer::append']
    if not all(any(g.name == n_ for g in prog.funcs.values()) for n_ in need):
        from tbxlint.facts import extract
        prog = extract('ALL')
    bad = None
    runs = 0
    scripts = []
    for n_ in range(1, depth + 1):
        for s_ in itertools.product(ALPHABET, repeat=n_):
            if s_.count(('close',)) > 1 or (('close',) in s_ and any(a[0] == 'peer' for a in s_[s_.index(('close',)):])):
                continue
            if s_.count(('enable',)) > 1 or any(s_[i] == s_[i + 1] == ('loop',) for i in range(len(s_) - 1)) or s_[0] == ('loop',):
                continue        # a second enable() and a second turn with nothing new are no-ops
            scripts.append(s_)
    L = ('loop',)
    longs = [(('enable',), ('drain', 3), ('send', 10), L, ('drain', 2), ('send', 5), L, ('drain', 4), L, ('drain', 1 << 20)),
             (('enable',), ('drain', 3), ('send', 10), ('drain', 2), ('send', 5), L, ('drain', 4), ('send', 3), L),
             (('send', 7), ('send', 2), ('enable',), ('drain', 5), L, ('drain', 1 << 20)),
             (('enable',), ('peer', 1500), L, ('peer', 2), L),
             (('enable',), ('peer', 5), L, ('peer', 1100), ('close',), L)]
    W = ('wake',)
    replies = [(('enable',), ('drain', 3), ('send', 1), ('peer', 3), W), (('enable',), ('drain', 3), ('send', 1), ('peer', 3), W, ('peer', 1), W, L), (('enable',), ('drain', 6), ('send', 2), ('peer', 1), W, ('peer', 2), W),
               (('enable',), ('send', 1), ('drain', 3), L, ('peer', 3), W, L), (('enable',), ('send', 1), ('drain', 2), L, ('peer', 1), W, ('peer', 1), W), (('enable',), ('send', 4), ('drain', 6), L, ('peer', 3), W)]
    for s_ in replies:
        runs += 1
        b, why = run_script(prog, s_, 'reply')
        if why and bad is None:
            bad = (s_, 'reply', why)
    for s_ in scripts:
        for consume in (('all', 'one', 'none') if any(a[0] == 'peer' for a in s_) else ('all',)):
            runs += 1
            b, why = run_script(prog, s_, consume)
            if why and bad is None:
                bad = (s_, consume, why)
    for s_ in longs:
        for consume in ('all', 'one', 'none'):
            for th in (0, 4):
                runs += 1
                b, why = run_script(prog, s_, consume, th)
                if why and bad is None:
                    bad = (s_, consume, why)
    f = prog.fn1(B + '::send')
    ctx.ob('C06.R15', 'BufferedFd|stream', bad is None, '%d scripts: the stream is preserved in both directions' % runs if bad is None else
           'script %s (receive callback consumes %s): %s' % (' '.join('%s(%s)' % (a[0], a[1] if len(a) > 1 else '') for a in bad[0]), bad[1], bad[2]), where=f.loc(f.body))
