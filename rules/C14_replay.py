"""C14 — the two stream framings replayed over every segmentation of short message streams (C14.R20).  Imported by rules/C14.py.

tbxlint/minterp.py interprets the syntax trees of HeaderStreamProto::onRecvData, RawStreamProto::onRecvData, util::json::FindEndPos and util::Deserializer (std::string as
concrete text).  Json::parse is an event that accepts exactly the texts a reference JSON reader accepts (and "throws" otherwise, through the interpreted CatchThrow call);
onRecvJson records the value.  The harness is the loop every user of a framing runs: append the chunk to a buffer, call onRecvData while it consumes, drop what it consumed,
stop on 0, fail on a negative result.  Streams of one to three messages — nested objects and arrays, strings containing quotes, backslashes, braces and brackets — are
delivered in every two-chunk segmentation and every three-chunk segmentation around the message boundaries: the messages decoded are the messages written, in order,
once each.  Malformed streams are refused through the return value."""
import json
from tbxlint.facts import AnalysisBroken
from tbxlint import minterp
from tbxlint.minterp import P, S, NPOS

J = 'tbox::jsonrpc::'
MESSAGES = ['{"a":1}', '[1,2,3]', '{"s":"q\\"uote}"}', '{"b":"back\\\\"}', '[{"k":[1,{"z":"]["}]},"}{"]', '{"n":{"m":{"o":[]}}}', '{}', ' {"lead":true}', '{"e":"\\\\\\""}']


class Throw(Exception):
    pass


class Bench:
    def __init__(self, prog, proto):
        self.prog, self.proto = prog, proto
        self.got = []
        hooks = dict(minterp.VECTOR_HOOKS)
        noop = lambda it, f, st, a: None
        hooks.update({'parse': self.h_parse, 'CatchThrow': self.h_catch, 'onRecvJson': self.h_recv, 'isgraph': lambda it, f, st, a: int(isinstance(a[0], int) and 33 <= (a[0] & 0xff) <= 126),
                      'memcpy': minterp.h_memcpy})
        self.it = minterp.Interp(prog, {'str:empty': [0]}, hooks=hooks, inline=('*',), max_steps=3000000)
        self.it.string_mode = True
        self.it.globals['std::basic_string<char>::npos'] = NPOS
        cls = J + proto
        self.rec = self.it.new_record(cls)
        self.it._keep.append(self.rec)
        self.rec.update({'is_log_enabled_': 0, 'header_code_': 0xCAFE})
        self.fn = self.it.find_method(cls, 'onRecvData', 2)
        if self.fn is None:
            raise AnalysisBroken('%s::onRecvData not found' % cls)
        self.serial = 0

    def h_parse(self, it, f, st, a):
        t = it.to_text(a[0])
        try:
            return ('json', json.dumps(json.loads(t), sort_keys=True))
        except Exception:
            raise Throw()

    def h_catch(self, it, f, st, a):
        try:
            it.invoke(f, st, a[0], [])
        except Throw:
            return 1
        return 0

    def h_assign(self, it, f, st, a):
        return None

    def h_recv(self, it, f, st, a):
        self.got.append(a[0][1] if isinstance(a[0], tuple) else a[0])

    def on_data(self, data):
        self.serial += 1
        name = 'in#%d' % self.serial
        self.it.mem[name] = [b for b in data]
        r = self.it.call(self.fn, [P(name, 0), len(data)], this=self.rec)
        return r


def frame(proto, text):
    raw = text.encode('latin-1')
    if proto == 'HeaderStreamProto':
        return bytes([0xCA, 0xFE]) + len(raw).to_bytes(4, 'big') + raw
    return raw


def drive(prog, proto, stream, cuts):
    """the user's loop; returns (messages, verdict, faults)"""
    b = Bench(prog, proto)
    buf = b''
    prev = 0
    verdict = 'ok'
    for cpos in list(cuts) + [len(stream)]:
        buf += stream[prev:cpos]
        prev = cpos
        while buf:
            r = b.on_data(buf)
            if b.it.faults:
                return b.got, 'fault', b.it.faults
            if not isinstance(r, int):
                raise AnalysisBroken('%s::onRecvData returns a value the replay keeps abstract' % proto)
            if r > len(buf):
                return b.got, 'claims %d byte(s) of %d' % (r, len(buf)), []
            if r > 0:
                buf = buf[r:]
                continue
            if r < 0:
                verdict = 'refused'
            break
        if verdict != 'ok':
            break
    if verdict == 'ok' and buf.strip():
        verdict = 'left %d byte(s)' % len(buf)
    return b.got, verdict, []


def r20(ctx, prog):
    ctx.rule('C14.R20', 'A10 the stream framings by abstract replay: streams of one to three messages (nested objects and arrays; strings containing quotes, escaped quotes, backslashes, braces '
             'and brackets; leading blanks) are fed to HeaderStreamProto / RawStreamProto through the loop every user runs (append, call onRecvData while it consumes, stop on 0) in every '
             'two-chunk and every boundary three-chunk segmentation, onRecvData, FindEndPos and Deserializer being interpreted: the messages decoded are the messages written, in order, '
             'once each, nothing is left over and no call claims more bytes than it was given; a wrong magic, unbalanced brackets and text that is not JSON are refused through the return '
             'value for every split point', floor=2)
    need = [J + 'HeaderStreamProto::onRecvData', 'tbox::util::json::FindEndPos', 'tbox::util::Deserializer::fetchNoCopy']
    if not all(any(g.name == n_ for g in prog.funcs.values()) for n_ in need):
        from tbxlint.facts import extract
        prog = extract('ALL')
    for proto in ('HeaderStreamProto', 'RawStreamProto'):
        bad = None
        runs = 0
        seqs = [[m] for m in MESSAGES] + [[MESSAGES[0], MESSAGES[2]], [MESSAGES[4], MESSAGES[1], MESSAGES[3]], [MESSAGES[6], MESSAGES[6], MESSAGES[5]], [MESSAGES[8], MESSAGES[0]]]
        for msgs in seqs:
            if proto == 'RawStreamProto' and any(m.startswith(' ') for m in msgs[1:]):
                continue
            frames = [frame(proto, m) for m in msgs]
            stream = b''.join(frames)
            n = len(stream)
            marks = {0, n}
            pos = 0
            for fr in frames:
                for d_ in (-1, 0, 1, 2, 5, 6, 7):
                    marks.add(pos + d_)
                pos += len(fr)
                marks.update({pos - 1, pos})
            marks = sorted(m for m in marks if 0 < m < n)
            plans = [()] + [(c,) for c in range(1, n)] + [(c1, c2) for c1 in marks for c2 in marks if c1 < c2]
            want = [json.dumps(json.loads(m), sort_keys=True) for m in msgs]
            for cuts in plans:
                runs += 1
                got, verdict, faults = drive(prog, proto, stream, cuts)
                why = None
                if faults:
                    why = faults[0]
                elif verdict != 'ok':
                    why = 'the stream is %s' % verdict
                elif got != want:
                    why = '%d message(s) are decoded (%s) where %d were written' % (len(got), ' | '.join(got)[:120], len(want)) if len(got) != len(want) else 'message %d is decoded as %s' % (
                        next(i for i in range(len(want)) if got[i] != want[i]) + 1, got[next(i for i in range(len(want)) if got[i] != want[i])][:120])
                if why and bad is None:
                    bad = ('messages %s in chunks %s' % (' '.join(msgs)[:100], [y - x for x, y in zip((0,) + tuple(cuts), tuple(cuts) + (n,))]), why)
        # refusals
        if proto == 'HeaderStreamProto':
            bads = [('a wrong magic', bytes([0xCA, 0xFF, 0, 0, 0, 2]) + b'{}'), ('a frame whose text is not JSON', frame(proto, '{"a":}')),
                    ('a good frame followed by a wrong magic', frame(proto, '{}') + bytes([0, 1, 0, 0, 0, 2]) + b'{}')]
        else:
            bads = [('a closing bracket that was never opened', b'}{"a":1}'), ('balanced text that is not JSON', b'{"a":}'), ('a good message followed by unbalanced text', b'{"a":1}]] ')]
        for name, stream in bads:
            for cuts in [()] + [(c,) for c in range(1, len(stream))]:
                runs += 1
                got, verdict, faults = drive(prog, proto, stream, cuts)
                okb = (verdict == 'refused') and not faults and len(got) == (1 if 'good' in name else 0)
                if not okb and bad is None:
                    bad = ('%s in chunks %s' % (name, [y - x for x, y in zip((0,) + tuple(cuts), tuple(cuts) + (len(stream),))]),
                           faults[0] if faults else 'the stream is %s with %d message(s) decoded, where a refusal after %d is due' % (verdict, len(got), 1 if 'good' in name else 0))
        f = prog.fn1(J + proto + '::onRecvData')
        ctx.ob('C14.R20', '%s|segmentations' % f.name, bad is None, '%d replays: the messages written are the messages decoded, whatever the segmentation' % runs if bad is None else
               '%s: %s' % bad, where=f.loc(f.body))
