"""C11 — module trees replayed against the documented hook order (C11.R5).  Imported by rules/C11.py.

tbxlint/minterp.py interprets the syntax trees of main::Module (add, initialize, start, stop, cleanup with their forward and reverse walks over the children); the four
user hooks are harness callables: onInit / onStart answer as scripted per module, all four append to a trace.  Trees: depth up to 3, fan-out up to 3, required and optional
children; every assignment of failure to one or two init / start hooks; call sequences on the root in and out of order (initialize, start, stop, cleanup, repeated, start
without initialize, cleanup while running, a second life after cleanup).  Trace and return values are compared with a reference written from the statement, and the
balance clauses are checked on the trace itself."""
import itertools
from tbxlint.facts import AnalysisBroken
from tbxlint import minterp
from tbxlint.minterp import P, S, NPOS

M = 'tbox::main::Module'


class Bench:
    def __init__(self, prog, tree, fail_init, fail_start):
        self.prog = prog
        self.trace = []
        self.fail_init, self.fail_start = set(fail_init), set(fail_start)
        hooks = dict(minterp.VECTOR_HOOKS)
        noop = lambda it, f, st, a: None
        hooks.update({'Module::onInit': self.h_init, 'Module::onStart': self.h_start, 'Module::onStop': self.h_stop, 'Module::onCleanup': self.h_cleanup,
                      'Variables::setParent': noop, 'contains': lambda it, f, st, a: 1, 'c_str': noop, 'move': lambda it, f, st, a: a[0],
                      'operator[]': lambda it, f, st, a: it.cur_obj if (it.record_of(it.cur_obj) or {}).get('__open__') else minterp.VECTOR_HOOKS['operator[]'](it, f, st, a)})
        self.it = minterp.Interp(prog, {'str:empty': [0]}, hooks=hooks, inline=('*',), max_steps=2000000)
        self.it.string_mode = True
        self.it.globals['std::basic_string<char>::npos'] = NPOS
        self.ids = {}
        self.count = 0
        self.root = self.build(tree)

    def ident(self):
        return self.ids[id(self.it.this)]

    def h_init(self, it, f, st, a):
        i = self.ident()
        ok = i not in self.fail_init
        self.trace.append(('init', i, int(ok)))
        return int(ok)

    def h_start(self, it, f, st, a):
        i = self.ident()
        ok = i not in self.fail_start
        self.trace.append(('start', i, int(ok)))
        return int(ok)

    def h_stop(self, it, f, st, a):
        self.trace.append(('stop', self.ident()))

    def h_cleanup(self, it, f, st, a):
        self.trace.append(('cleanup', self.ident()))

    def build(self, tree):
        """tree: (required, [children]) — ids are assigned in build (pre-)order"""
        it = self.it
        rec = it.new_record(M)
        it._keep.append(rec)
        i = self.count
        self.count += 1
        self.ids[id(rec)] = i
        rec['name_'] = S('m%d' % i)
        rec['ctx_'] = 0
        for req, kids in tree[1]:
            ch = self.build((req, kids))
            g = it.find_method(M, 'add', 2)
            if not it.call(g, [it.ref(ch), int(req)], this=rec):
                raise AnalysisBroken('Module::add refused a fresh child')
        return rec

    def call(self, name):
        g = self.it.find_method(M, name, 1 if name == 'initialize' else 0)
        if g is None:
            raise AnalysisBroken('Module::%s not found' % name)
        js = {'__cls__': None, '__open__': True}
        self.it._keep.append(js)
        return self.it.call(g, [self.it.ref(js)] if name == 'initialize' else [], this=self.root)


class RefModule:
    def __init__(self, tree, counter, trace, fail_init, fail_start):
        self.id = counter[0]
        counter[0] += 1
        self.trace, self.fi, self.fs = trace, fail_init, fail_start
        self.state = 0
        self.kids = [(req, RefModule((req, kids), counter, trace, fail_init, fail_start)) for req, kids in tree[1]]

    def initialize(self):
        if self.state != 0:
            return False
        ok = self.id not in self.fi
        self.trace.append(('init', self.id, int(ok)))
        if not ok:
            return False
        for req, k in self.kids:
            if not k.initialize() and req:
                for _, k2 in reversed(self.kids):
                    k2.cleanup()
                self.trace.append(('cleanup', self.id))
                return False
        self.state = 1
        return True

    def start(self):
        if self.state != 1:
            return False
        ok = self.id not in self.fs
        self.trace.append(('start', self.id, int(ok)))
        if not ok:
            return False
        for req, k in self.kids:
            if not k.start() and req:
                for _, k2 in reversed(self.kids):
                    k2.stop()
                self.trace.append(('stop', self.id))
                return False
        self.state = 2
        return True

    def stop(self):
        if self.state != 2:
            return
        for _, k in reversed(self.kids):
            k.stop()
        self.trace.append(('stop', self.id))
        self.state = 1

    def cleanup(self):
        if self.state == 0:
            return
        self.stop()
        for _, k in reversed(self.kids):
            k.cleanup()
        self.trace.append(('cleanup', self.id))
        self.state = 0


TREES = [
    (1, []),
    (1, [(1, []), (1, [])]),
    (1, [(1, []), (0, []), (1, [])]),
    (1, [(0, [(1, []), (1, [])]), (1, [])]),
    (1, [(1, [(1, []), (0, [])]), (0, [(1, [])])]),
    (1, [(1, [(1, [(1, [])])])]),
]
SEQS = [
    ('initialize', 'start', 'stop', 'cleanup'),
    ('initialize', 'start', 'cleanup'),
    ('initialize', 'cleanup'),
    ('start', 'initialize', 'initialize', 'start', 'start', 'stop', 'stop', 'cleanup', 'cleanup'),
    ('initialize', 'start', 'stop', 'start', 'cleanup', 'initialize', 'start', 'cleanup'),
    ('stop', 'cleanup', 'initialize', 'stop', 'start', 'cleanup'),
]


def count(tree):
    return 1 + sum(count((r, k)) for r, k in tree[1])


def balance(trace):
    """every successful init is matched by exactly one later cleanup, every successful start by exactly one stop before that cleanup"""
    inited, started = {}, {}
    for t in trace:
        if t[0] == 'init' and t[2]:
            if inited.get(t[1]):
                return 'module %d is initialised twice without a cleanup in between' % t[1]
            inited[t[1]] = 1
        elif t[0] == 'start' and t[2]:
            if not inited.get(t[1]):
                return 'module %d is started without a successful init' % t[1]
            if started.get(t[1]):
                return 'module %d is started twice without a stop in between' % t[1]
            started[t[1]] = 1
        elif t[0] == 'stop':
            if not started.get(t[1]):
                return 'the stop hook of module %d runs although its start hook has not succeeded' % t[1]
            started[t[1]] = 0
        elif t[0] == 'cleanup':
            if started.get(t[1]):
                return 'module %d is cleaned up while started' % t[1]
            if not inited.get(t[1]):
                return 'the cleanup hook of module %d runs although its init hook has not succeeded' % t[1]
            inited[t[1]] = 0
    left = [i for i, v in inited.items() if v] + [i for i, v in started.items() if v]
    if left:
        return 'module(s) %s are left initialised or started after the final cleanup' % sorted(set(left))
    return None


def r5(ctx, prog):
    ctx.rule('C11.R5', 'A10 module trees replayed against the documented hook order: six trees (depth up to 4, fan-out up to 3, required and optional children) x every assignment of failure to '
             'at most two init / start hooks x six call sequences on the root (in order, repeated, out of order, cleanup while running, a second life) are run on the syntax trees of '
             'main::Module with the hooks as scripted callables; the trace of hooks and the return values equal those of a reference written from the statement, every successful init is '
             'matched by exactly one cleanup and every successful start by exactly one stop before it once the sequence ends in cleanup, and the failure of an optional module stops nothing else', floor=1)
    need = [M + '::initialize', M + '::cleanup', M + '::add']
    if not all(any(g.name == n_ for g in prog.funcs.values()) for n_ in need):
        from tbxlint.facts import extract
        prog = extract('ALL')
    bad = None
    runs = 0
    for tree in TREES:
        n = count(tree)
        fails = [((), ())]
        for i in range(n):
            fails.append(((i,), ()))
            fails.append(((), (i,)))
        for i, j in itertools.combinations(range(n), 2):
            fails.append(((i,), (j,)))
            fails.append(((j,), (i,)))
            fails.append(((), (i, j)))
        for fi, fs in fails:
            for seq in SEQS:
                runs += 1
                b = Bench(prog, tree, fi, fs)
                rt = []
                ref = RefModule(tree, [0], rt, set(fi), set(fs))
                rets, rrets = [], []
                for op in seq:
                    r = b.call(op)
                    rr = getattr(ref, op)()
                    if op in ('initialize', 'start'):
                        rets.append(int(bool(r)))
                        rrets.append(int(bool(rr)))
                    if b.it.faults:
                        break
                why = None
                if b.it.faults:
                    why = b.it.faults[0]
                elif rets != rrets:
                    why = 'initialize()/start() return %s where the statement gives %s' % (rets, rrets)
                elif b.trace != rt:
                    k = next((i for i in range(min(len(b.trace), len(rt))) if b.trace[i] != rt[i]), min(len(b.trace), len(rt)))
                    why = 'hook %d of the trace is %s where the statement gives %s' % (k + 1, b.trace[k] if k < len(b.trace) else 'nothing more', rt[k] if k < len(rt) else 'nothing more')
                elif seq[-1] == 'cleanup':
                    why = balance(b.trace)
                if why and bad is None:
                    bad = (tree, fi, fs, seq, why)
    f = prog.fn1(M + '::initialize')
    ctx.ob('C11.R5', 'Module|trees', bad is None, '%d runs: hooks in the documented order, balanced, optional failures contained' % runs if bad is None else
           'tree %s, init failing in module(s) %s, start failing in %s, calls %s: %s' % (bad[0], list(bad[1]), list(bad[2]), ' '.join(bad[3]), bad[4]), where=f.loc(f.body))
