"""C19 — URL percent-encoding and the hex-string decoder replayed on text (C19.R23).  Imported by rules/C19.py.

tbxlint/minterp.py interprets http::UrlEncode / UrlDecode (HexCharToValue with its exception) and util::string::HexStrToRawData (caller-buffer form, hexCharToValue) with
std::string values as concrete text.  The two tables of reserved characters and the digit table of url.cpp are read from the unit (they are globals of the harness only in
the sense that their initialisers are copied).  Every byte value is encoded in both modes and decoded back; what comes out of the encoder must consist of characters that
need no escaping and of %XX triples; damaged escapes end in the exception of the code or in a shorter text, never in a fault."""
from tbxlint.facts import AnalysisBroken
from tbxlint import minterp
from tbxlint.minterp import P, S

H = 'tbox::http::'
U = 'tbox::util::string::'


class SS(S):
    """a std::string the range-for of the interpreter can walk: its characters as byte values"""
    __slots__ = ()

    def iter_values(self):
        return [ord(c) for c in self]          # as operator[] of the interpreter's strings gives them: the byte value


def r23(ctx, prog):
    ctx.rule('C19.R23', 'A10 URL percent-encoding and hex-string decoding by abstract replay on text: UrlEncode (both modes) of every single byte value and of mixed texts, then UrlDecode, gives '
             'the text back; the encoded text holds nothing but characters that are neither reserved in that mode nor unprintable, and %XX with two upper-case hex digits of the byte; '
             'UrlDecode of "%41%6a%6B" style text (both digit cases) gives the bytes; an escape cut short at the end of the text is dropped without a fault and a non-hex digit '
             'raises the exception of the code (a clean failure); HexStrToRawData gives back the bytes of hex text of both cases, never more than the capacity, an odd last digit '
             'is not taken for a byte, a non-hex digit raises', floor=2)
    need = [H + 'UrlEncode', H + 'UrlDecode']
    if not all(any(g.name == n_ and g.body is not None for g in prog.funcs.values()) for n_ in need) or not any(g.name == U + 'HexStrToRawData' for g in prog.funcs.values()):
        from tbxlint.facts import extract
        prog = extract(['http/url.cpp', 'util/string.cpp'])
    hooks = dict(minterp.VECTOR_HOOKS)
    hooks.update({'isprint': lambda it, f, st, a: int(isinstance(a[0], int) and 32 <= a[0] <= 126), 'reserve': lambda it, f, st, a: None})
    it = minterp.Interp(prog, {'str:empty': [0]}, hooks=hooks, inline=('*',), max_steps=20000000)
    it.string_mode = True
    it.globals['std::basic_string<char>::npos'] = minterp.NPOS
    tables = {}
    for name, gs in prog.globals.items():
        for g in gs:
            if (g.get('file') or '').endswith('http/url.cpp') and g.get('n') in ('full_special_chars', 'path_special_chars', 'char_to_hex'):
                tables[g['n']] = g
    if len(tables) != 3:
        raise AnalysisBroken('url.cpp: the tables of reserved characters / hex digits were not found (%s)' % sorted(tables))
    enc, dec = prog.fn1(H + 'UrlEncode'), prog.fn1(H + 'UrlDecode')
    reserved = {}
    import re
    for k in ('full_special_chars', 'path_special_chars'):
        # the extractor keeps the initialisers of arrays and of pointers to literals, not of std::string objects: the literal is read from the declaration's own line
        g = tables[k]
        line = open(g['file'], encoding='utf-8', errors='replace').read().split('\n')[g['line'] - 1]
        m = re.search(r'\b%s\s*=\s*R"\((.*)\)"\s*;' % k, line) or re.search(r'\b%s\s*=\s*"((?:[^"\\\\]|\\\\.)*)"\s*;' % k, line)
        if not m:
            raise AnalysisBroken('url.cpp: the initialiser of %s is not a string literal on the line of its declaration' % k)
        t = m.group(1)
        if 'R"(' not in line:
            t = bytes(t, 'latin-1').decode('unicode_escape')
        reserved[k] = t
        it.globals[g['name']] = S(t)
    hexd = tables['char_to_hex'].get('strs') or []
    if len(hexd) != 1 or len(hexd[0]) != 16:
        raise AnalysisBroken('url.cpp: the digit table is not one literal of 16 characters')
    it.mem['g:char_to_hex'] = [ord(c) for c in hexd[0]] + [0]
    it.globals[tables['char_to_hex']['name']] = P('g:char_to_hex', 0)
    bad = None
    n_ = 0

    def note(w):
        nonlocal bad
        if bad is None:
            bad = w

    def run(g, args):
        it.faults = []
        try:
            r = it.call(g, args)
        except minterp.Throw as ex:
            return ('throw', ex), None
        return r, (str(it.faults[0]) if it.faults else None)
    texts = [chr(c) for c in range(1, 256)] + ['a b', '/x/y.z', 'k=v&k2=v 2', '100%', '%41', 'ü€', '\x7f\x80\xff', 'A' * 40 + ' ']
    for mode in (0, 1):
        res = reserved['path_special_chars' if mode else 'full_special_chars']
        for t in texts:
            tb = t.encode('latin-1', 'replace').decode('latin-1') if all(ord(c) < 256 for c in t) else ''.join(chr(b) for b in t.encode('utf-8'))
            r, flt = run(enc, [SS(tb), mode])
            n_ += 1
            if flt or not isinstance(r, str):
                note('UrlEncode(%r, path_mode=%d): %s' % (tb[:20], mode, flt or 'answers %r' % (r,)))
                continue
            want = ''.join(c if (32 <= ord(c) <= 126 and c not in res) else '%%%02X' % ord(c) for c in tb)
            if str(r) != want:
                note('UrlEncode(%r, path_mode=%d) gives %r, by the stated tables it is %r' % (tb[:20], mode, str(r)[:40], want[:40]))
                continue
            r2, flt = run(dec, [SS(str(r))])
            if flt or not isinstance(r2, str) or str(r2) != tb:
                note('UrlDecode(UrlEncode(%r, path_mode=%d)) %s' % (tb[:20], mode, flt or 'gives %r' % (r2,)))
    for t, want in (('%41%6a%6B', 'Ajk'), ('a%20b', 'a b'), ('%e4%BD%a0', '\xe4\xbd\xa0'), ('x%4', 'x'), ('x%', 'x'), ('', '')):
        r, flt = run(dec, [SS(t)])
        n_ += 1
        if flt or not isinstance(r, str) or str(r) != want:
            note('UrlDecode(%r) %s' % (t, flt or 'gives %r where the bytes are %r' % (r, want)))
    for t in ('%4g', '%zz', 'ok%-1'):
        r, flt = run(dec, [SS(t)])
        n_ += 1
        if flt:
            note('UrlDecode(%r): %s' % (t, flt))
        elif not (isinstance(r, tuple) and r[0] == 'throw'):
            note('UrlDecode(%r) accepts a digit that is not hexadecimal (gives %r)' % (t, r))
    ctx.ob('C19.R23', 'url|percent-encoding', bad is None, '%d texts' % n_ if bad is None else bad, where=enc.loc(enc.body))

    # ---- hex text into a caller buffer ----
    hx = [g for g in prog.funcs.values() if g.name == U + 'HexStrToRawData' and g.body is not None and len(g.params) == 3 and 'void' in (g.params[1].get('ct') or '')]
    if len(hx) != 1:
        raise AnalysisBroken('HexStrToRawData(const std::string&, void*, uint16_t): %d candidate(s)' % len(hx))
    hx = hx[0]
    bad = None
    n_ = 0
    serial = [0]

    def region(vals):
        serial[0] += 1
        it.mem['hx#%d' % serial[0]] = list(vals)
        return P('hx#%d' % serial[0], 0)
    datas = [[0], [255], [0x0a, 0xb0], [1, 2, 3, 0xfe, 0xef], list(range(0, 256, 17))]
    for data in datas:
        for text in (''.join('%02x' % b for b in data), ''.join('%02X' % b for b in data)):
            for cap in (len(data), len(data) + 3, max(1, len(data) - 1)):
                buf = region([0xA5] * (cap + 1))
                r, flt = run(hx, [S(text), buf, cap])
                n_ += 1
                k = min(cap, len(data))
                if flt or r != k or list(it.mem[buf.r][:k]) != data[:k] or any(x != 0xA5 for x in it.mem[buf.r][k:]):
                    note('HexStrToRawData(%r) into %d byte(s) %s' % (text[:16], cap, flt or 'answers %s and stores %s' % (r, it.mem[buf.r][:k + 1])))
            buf = region([0xA5] * (len(data) + 2))
            r, flt = run(hx, [S(text + 'f'), buf, len(data) + 1])
            n_ += 1
            if flt or r != len(data) or it.mem[buf.r][len(data)] != 0xA5:
                note('HexStrToRawData(%r) with an odd last digit %s' % ((text + 'f')[:16], flt or 'answers %s' % (r,)))
    for t in ('0g', 'zz', '1 2'):
        buf = region([0xA5] * 4)
        r, flt = run(hx, [S(t), buf, 3])
        n_ += 1
        if flt:
            note('HexStrToRawData(%r): %s' % (t, flt))
        elif not (isinstance(r, tuple) and r[0] == 'throw'):
            note('HexStrToRawData(%r) accepts a digit that is not hexadecimal (answers %r)' % (t, r))
    ctx.ob('C19.R23', 'hex-text|decode', bad is None, '%d texts' % n_ if bad is None else bad, where=hx.loc(hx.body))
