"""C02 — the timers replayed against the deadlines they promise (C02.R9).  Imported by rules/C02.py.

tbxlint/minterp.py interprets CommonLoop::addTimer / deleteTimer / handleExpiredTimers / getWaitTime, the comparison functor of the heap, the timer cabinet and
TimerEventImpl (initialize, enable, disable, onEvent); std::push_heap / pop_heap / make_heap are the textbook algorithms driven by the interpreted comparator; the object pool
hands out records and reports a record freed twice or used after its release; the clock is a number the driver advances.  Scripts enable and disable four timer events
(one-shot and persistent, one whose callback disables another, one whose callback enables another) and let the loop pass after the clock has advanced by 1, 2 or 7 ms — late
wake-ups included.  The harness knows, per enabling, the deadlines t + k*d the property speaks of."""
import itertools
from tbxlint.facts import AnalysisBroken
from tbxlint import minterp
from tbxlint.minterp import P, It

L = 'tbox::event::CommonLoop'
E = 'tbox::event::TimerEventImpl'


class Bench:
    def __init__(self, prog):
        self.prog = prog
        self.clock = 1000
        self.deferred = []
        self.live = set()
        self.fired = []             # (event, clock, pass number)
        noop = lambda it, f, st, a: None
        hooks = dict(minterp.VECTOR_HOOKS)
        hooks.update({'now': lambda it, f, st, a: self.clock, 'push_heap': self.h_push_heap, 'pop_heap': self.h_pop_heap, 'make_heap': self.h_make_heap,
                      'ObjectPool::alloc': self.h_alloc, 'ObjectPool::free': self.h_free, 'run': self.h_run, 'beginEventProcess': noop, 'endEventProcess': noop,
                      'abort': self.h_abort, '__builtin_expect': lambda it, f, st, a: a[0], 'move': lambda it, f, st, a: a[0], 'hasNextFunc': lambda it, f, st, a: 0})
        hooks.pop('count', None)        # count() here is std::chrono::duration::count
        self.it = minterp.Interp(prog, {'str:empty': [0]}, hooks=hooks, inline=('*',), max_steps=2000000)
        it = self.it
        it.noeval = set(getattr(it, 'noeval', ())) | {'LogNotice', 'LogErr', 'LogWarn', 'LogDbg'}
        self.loop = it.new_record(L)
        it._keep.append(self.loop)
        if not isinstance(self.loop.get('timer_min_heap_'), list):
            self.loop['timer_min_heap_'] = []
        wl = {'__cls__': 'tbox::event::Loop::WaterLine', '__open__': True, 'timer_delay': 1 << 60}
        it._keep.append(wl)
        self.loop['water_line_'] = wl
        self.loop['cb_level_'] = 0
        cab = self.loop.get('timer_cabinet_')
        if not isinstance(cab, dict) or not {'last_id_', 'first_free_', 'count_', 'cells_'} <= set(cab):
            raise AnalysisBroken('CommonLoop::timer_cabinet_ is not the cabinet the replay knows (fields %s)' % (sorted(cab) if isinstance(cab, dict) else cab))
        for k_, v_ in (('last_id_', 0), ('first_free_', (1 << 64) - 1), ('count_', 0)):
            if cab[k_] == 'uninit':
                cab[k_] = v_        # the default member initialisers of cabinet.hpp (an instantiation this unit does not construct explicitly)
        self.events = []
        self.pass_no = 0

    def h_abort(self, it, f, st, a):
        it.fault(f, st, 'an assertion of the library fails (abort)')
        raise minterp._Abort()

    # ---- the heap algorithms of the standard library, with the comparator of the code
    def less(self, f, st, cmp, x, y):
        r = self.it.record_of(cmp)
        if r is None:
            raise AnalysisBroken('%s: heap comparator is not a record the replay holds (%s)' % (f.short, f.loc(st['i'])))
        g = self.it.find_method(r.get('__cls__', ''), 'operator()', 2)
        if g is None:
            raise AnalysisBroken('%s: the comparator has no call operator the replay can follow' % f.short)
        for v in (x, y):
            rec = self.it.record_of(v)
            if rec is not None and id(rec) not in self.live:
                self.it.fault(f, st, 'the heap holds a timer object that was returned to the pool (use after release)')
                raise minterp._Abort()
        return bool(self.it.call(g, [x, y], this=r))

    def _seq(self, f, st, a):
        if not (isinstance(a[0], It) and isinstance(a[1], It) and isinstance(a[0].c, list)):
            raise AnalysisBroken('%s: heap algorithm over something the replay does not hold as a sequence (%s)' % (f.short, f.loc(st['i'])))
        return a[0].c, a[0].k, a[1].k

    def _sift_up(self, f, st, v, lo, i, cmp):
        while i > lo:
            parent = lo + (i - lo - 1) // 2
            if self.less(f, st, cmp, v[parent], v[i]):
                v[parent], v[i] = v[i], v[parent]
                i = parent
            else:
                break

    def _sift_down(self, f, st, v, lo, hi, i, cmp):
        while True:
            l, r = lo + 2 * (i - lo) + 1, lo + 2 * (i - lo) + 2
            big = i
            if l < hi and self.less(f, st, cmp, v[big], v[l]):
                big = l
            if r < hi and self.less(f, st, cmp, v[big], v[r]):
                big = r
            if big == i:
                return
            v[i], v[big] = v[big], v[i]
            i = big

    def h_push_heap(self, it, f, st, a):
        v, lo, hi = self._seq(f, st, a)
        if hi - lo >= 1:
            self._sift_up(f, st, v, lo, hi - 1, a[2])

    def h_pop_heap(self, it, f, st, a):
        v, lo, hi = self._seq(f, st, a)
        if hi - lo >= 2:
            v[lo], v[hi - 1] = v[hi - 1], v[lo]
            self._sift_down(f, st, v, lo, hi - 1, lo, a[2])

    def h_make_heap(self, it, f, st, a):
        v, lo, hi = self._seq(f, st, a)
        for i in range(lo + (hi - lo) // 2 - 1, lo - 1, -1):
            self._sift_down(f, st, v, lo, hi, i, a[2])

    # ---- pool, deferred tasks
    def h_alloc(self, it, f, st, a):
        rec = it.new_record(L + '::Timer')
        it._keep.append(rec)
        self.live.add(id(rec))
        return it.ref(rec)

    def h_free(self, it, f, st, a):
        rec = it.record_of(a[0])
        if rec is None:
            return None
        if id(rec) not in self.live:
            it.fault(f, st, 'a timer object is returned to the pool twice')
            return None
        self.live.discard(id(rec))

    def h_run(self, it, f, st, a):
        self.deferred.append(a[0])
        return 1

    # ---- driver
    def call(self, cls, rec, name, args=(), pick=None):
        cands = [g for g in self.prog.by_name.get(cls + '::' + name, ()) if g.body is not None and len(g.params) == len(args) and (pick is None or pick(g))]
        if len(cands) != 1:
            raise AnalysisBroken('%s::%s/%d: %d candidate(s)' % (cls, name, len(args), len(cands)))
        return self.it.call(cands[0], list(args), this=rec)

    def new_event(self, interval, oneshot, action=None):
        it = self.it
        rec = it.new_record(E)
        it._keep.append(rec)
        idx = len(self.events)
        rec['wp_loop_'] = it.ref(self.loop)
        rec['is_inited_'] = rec['is_enabled_'] = rec['cb_level_'] = 0
        ev = {'rec': rec, 'd': interval, 'oneshot': oneshot, 'due': None, 'action': action, 'fires': 0}

        def cb(idx=idx):
            e = self.events[idx]
            self.fired.append((idx, self.clock, self.pass_no, e['due']))
            if e['due'] is None:
                self.note('timer %d is invoked although it is not enabled (disabled, or a one-shot that has fired)' % idx)
            else:
                if self.clock < e['due']:
                    self.note('timer %d is invoked at %d, before its deadline %d' % (idx, self.clock, e['due']))
                if self.last_due is not None and e['due'] < self.last_due:
                    self.note('timer %d (deadline %d) fires after a timer with the later deadline %d in the same pass' % (idx, e['due'], self.last_due))
                self.last_due = e['due']
                if e['oneshot']:
                    e['due'] = None
                    if rec.get('is_enabled_'):
                        self.note('the one-shot timer %d still counts as enabled while its callback runs' % idx)
                else:
                    e['due'] += e['d']
            e['fires'] += 1
            if action is not None:
                action()
        rec['cb_'] = cb
        self.events.append(ev)
        self.call(E, rec, 'initialize', [interval, 1 if oneshot else 0])
        return idx

    def note(self, what):
        if self.problem is None:
            self.problem = what

    def enabled(self, i):
        return bool(self.events[i]['rec'].get('is_enabled_'))

    def enable(self, i):
        was = self.enabled(i)
        self.call(E, self.events[i]['rec'], 'enable')
        if not was and self.enabled(i):
            self.events[i]['due'] = self.clock + self.events[i]['d']     # a fresh full interval

    def disable(self, i):
        self.call(E, self.events[i]['rec'], 'disable')
        self.events[i]['due'] = None

    def loop_pass(self):
        self.pass_no += 1
        self.last_due = None
        self.call(L, self.loop, 'handleExpiredTimers')
        while self.deferred and not self.it.faults:
            fn = self.deferred.pop(0)
            f0 = self.prog.fn1(L + '::handleExpiredTimers')
            self.it.invoke(f0, f0.stmts[0], fn, [])


def run_script(prog, script):
    b = Bench(prog)
    b.problem = None
    b.last_due = None
    ev = b.events
    b.new_event(3, True)                                            # 0: one-shot, 3 ms
    b.new_event(2, False)                                           # 1: persistent, 2 ms
    b.new_event(5, False, action=lambda: b.disable(1))              # 2: persistent, 5 ms; its callback disables timer 1
    b.new_event(2, True, action=lambda: b.enable(0))                # 3: one-shot, 2 ms; its callback enables timer 0
    for n, a in enumerate(script):
        when = 'step %d (%s)' % (n + 1, ' '.join(str(x) for x in a))
        if a[0] == 'en':
            b.enable(a[1])
        elif a[0] == 'dis':
            b.disable(a[1])
        else:
            b.clock += a[1]
            wt = b.call(L, b.loop, 'getWaitTime')
            dues = [e['due'] for e in ev if e['due'] is not None]
            if dues and wt != max(0, min(dues) - b.clock):
                return '%s: getWaitTime() answers %s ms where the next deadline is %d ms away' % (when, wt, max(0, min(dues) - b.clock))
            if not dues and wt != -1:
                return '%s: getWaitTime() answers %s with no timer enabled (it should wait for ever)' % (when, wt)
            b.loop_pass()
            if not b.it.faults and not b.problem:
                left = [(i, e['due']) for i, e in enumerate(ev) if e['due'] is not None and e['due'] <= b.clock]
                if left:
                    return '%s: after the pass at %d timer %d is still due (deadline %d): a period is skipped' % (when, b.clock, left[0][0], left[0][1])
        if b.it.faults:
            return '%s: %s' % (when, b.it.faults[0])
        if b.problem:
            return '%s: %s' % (when, b.problem)
        for i, e in enumerate(ev):
            if b.enabled(i) != (e['due'] is not None):
                return '%s: timer %d says isEnabled() == %s where it %s' % (when, i, b.enabled(i), 'has no pending deadline' if e['due'] is None else 'is armed')
    # destruction: disable everything; nothing may fire afterwards and every timer object goes back to the pool once
    for i in range(len(ev)):
        b.disable(i)
    b.clock += 100
    b.loop_pass()
    if b.it.faults:
        return 'after every timer was disabled: %s' % b.it.faults[0]
    if b.problem:
        return 'after every timer was disabled: %s' % b.problem
    if b.live:
        return '%d timer object(s) are never returned to the pool' % len(b.live)
    if b.loop['timer_min_heap_']:
        return 'the heap still holds %d entr(ies) after every timer was disabled' % len(b.loop['timer_min_heap_'])
    return None


def r9(ctx, prog):
    depth = 5 if ctx.tier == 'thorough' else 4
    alpha = [('en', 0), ('en', 1), ('en', 2), ('en', 3), ('dis', 1), ('dis', 0), ('adv', 1), ('adv', 2), ('adv', 7)]
    scripts = []
    for n in range(1, depth + 1):
        for s_ in itertools.product(alpha, repeat=n):
            if s_[0][0] != 'en' or s_[-1][0] != 'adv':
                continue
            scripts.append(s_)
    scripts += [(('en', 1), ('en', 2), ('adv', 7), ('adv', 2), ('en', 1), ('adv', 7)), (('en', 3), ('en', 0), ('adv', 2), ('adv', 1), ('adv', 2), ('adv', 7)),
                (('en', 1), ('en', 0), ('en', 2), ('en', 3), ('adv', 7), ('dis', 0), ('adv', 7), ('en', 1), ('adv', 1), ('adv', 1), ('adv', 2))]
    ctx.rule('C02.R9', 'A10 the timers by abstract replay: %d scripts of up to %d steps (enable / disable of four timer events — a one-shot, a persistent one, a persistent one whose callback '
             'disables another, a one-shot whose callback enables another — and loop passes after the clock has advanced by 1, 2 or 7 ms, late wake-ups included) run on the syntax '
             'trees of addTimer, deleteTimer, handleExpiredTimers, getWaitTime, the heap comparator, the timer cabinet and TimerEventImpl, with the heap algorithms of the standard '
             'library driven by the interpreted comparator: a timer is invoked only while enabled and never before its deadline t + k*d; within a pass deadlines fire in '
             'non-decreasing order; after a pass no enabled timer is still due (no period skipped when the loop wakes late); a one-shot is disabled when its callback runs; '
             'enabling again starts a full interval; getWaitTime() is the distance to the nearest deadline; isEnabled() agrees; no timer object is used after its release or '
             'released twice, and all are released in the end' % (len(scripts), depth), floor=1)
    bad = None
    for s_ in scripts:
        why = run_script(prog, s_)
        if why is not None:
            bad = (s_, why)
            break
    f = prog.fn1(L + '::handleExpiredTimers')
    ctx.ob('C02.R9', 'timers|replay', bad is None, '%d scripts' % len(scripts) if bad is None else
           'script %s: %s' % (' '.join('%s(%s)' % (a[0], a[1]) for a in bad[0]), bad[1]), where=f.loc(f.body))


# ---- the timer pool on top of it ------------------------------------------------------------------------------------------------------

TP = 'tbox::eventx::TimerPool'


def run_pool_script(prog, script):
    """the public TimerPool (doEvery / doAfter / cancel / cleanup) over the interpreted loop timers; first problem as text, or None"""
    b = Bench(prog)
    b.problem = None
    b.last_due = None
    it = b.it
    it.hooks['runNext'] = b.h_run
    it.hooks['isRunning'] = lambda it_, f, st, a: 1
    fired = []          # (pool timer number, clock)
    pool = it.new_record(TP)
    it._keep.append(pool)
    ctor = [g for g in prog.by_name.get(TP + '::TimerPool', ()) if g.d.get('ctor') and len(g.params) == 1 and g.body is not None]
    if len(ctor) != 1:
        raise AnalysisBroken('TimerPool(Loop*): %d candidate(s)' % len(ctor))
    it.run_ctor(ctor[0], ctor[0].stmts[0], pool, TP, ctor[0], [it.ref(b.loop)])
    impl = it.record_of(pool.get('impl_'))
    if impl is None:
        raise AnalysisBroken('TimerPool::impl_ is not a record after construction')
    cab = impl.get('timers_')
    if isinstance(cab, dict):
        for k_, v_ in (('last_id_', 0), ('first_free_', (1 << 64) - 1), ('count_', 0)):
            if cab.get(k_) == 'uninit':
                cab[k_] = v_

    def call(name, args, pick=None):
        cands = [g for g in prog.by_name.get(TP + '::' + name, ()) if g.body is not None and len(g.params) == len(args) and (pick is None or pick(g))]
        if len(cands) != 1:
            raise AnalysisBroken('TimerPool::%s/%d: %d candidate(s)' % (name, len(args), len(cands)))
        return it.call(cands[0], list(args), this=pool)
    timers = []         # per pool timer: {'kind', 'd', 'due', 'tok', 'n'}
    for n, a in enumerate(script):
        when = 'step %d (%s)' % (n + 1, ' '.join(str(x) for x in a))
        k = a[0]
        if k in ('every', 'after'):
            idx = len(timers)
            tok = call('doEvery' if k == 'every' else 'doAfter', [a[1], (lambda idx=idx: fired.append((idx, b.clock)))], pick=lambda g: g.params[1]['t'].rstrip().endswith('&&'))
            r = it.record_of(tok) if not isinstance(tok, dict) else tok
            timers.append({'kind': k, 'd': a[1], 'due': b.clock + a[1], 'tok': dict(r) if r else None, 'n': 0})
        elif k == 'cancel' and a[1] < len(timers):
            t = timers[a[1]]
            ans = call('cancel', [it.ref(dict(t['tok']))])
            want = t['due'] is not None
            if bool(ans) != want:
                return '%s: cancel() answers %s for a timer that is %s' % (when, bool(ans), 'pending' if want else 'already gone (fired one-shot or cancelled)')
            t['due'] = None
        elif k == 'cleanup':
            call('cleanup', [])
            for t in timers:
                t['due'] = None
        elif k == 'adv':
            b.clock += a[1]
            c0 = len(fired)
            b.loop_pass()
            if it.faults:
                return '%s: %s' % (when, it.faults[0])
            got = fired[c0:]
            for idx, t in enumerate(timers):
                want = 0
                while t['due'] is not None and t['due'] <= b.clock:
                    want += 1
                    t['due'] = t['due'] + t['d'] if t['kind'] == 'every' else None
                have = sum(1 for x in got if x[0] == idx)
                if have != want:
                    return '%s: the callback of %s(%d) (timer %d of the pool) runs %d time(s) in the pass at %d where %d is due' % (when, 'doEvery' if t['kind'] == 'every' else 'doAfter', t['d'], idx, have, b.clock, want)
        if it.faults:
            return '%s: %s' % (when, it.faults[0])
    call('cleanup', [])
    b.clock += 50
    c0 = len(fired)
    b.loop_pass()
    if it.faults:
        return 'after cleanup(): %s' % it.faults[0]
    if len(fired) != c0:
        return 'a callback of the pool runs after cleanup()'
    if b.live:
        return '%d timer object(s) of the loop are never released after cleanup() of the pool' % len(b.live)
    return None


def r10(ctx, prog):
    depth = 5 if ctx.tier == 'thorough' else 4
    alpha = [('every', 2), ('after', 3), ('after', 1), ('cancel', 0), ('cancel', 1), ('adv', 1), ('adv', 2), ('adv', 7), ('cleanup',)]
    scripts = []
    for n in range(2, depth + 1):
        for s_ in itertools.product(alpha, repeat=n):
            if s_[0][0] not in ('every', 'after') or s_[-1][0] != 'adv':
                continue
            scripts.append(s_)
    ctx.rule('C02.R10', 'A10 the timer pool by abstract replay: %d scripts of up to %d steps (doEvery, doAfter, cancel, cleanup, loop passes after 1, 2 or 7 ms) run on the syntax trees of '
             'TimerPool and its Impl on top of the interpreted loop timers: the callback of doEvery(d) runs once per elapsed period, that of doAfter(d) once when d has elapsed and '
             'never again, cancel() answers true exactly for a pending timer and silences it, nothing runs after cleanup(), no timer object is used after its release and every one is '
             'released' % (len(scripts), depth), floor=1)
    if not any(g.name == TP + '::Impl::doEvery' for g in prog.funcs.values()):
        from tbxlint.facts import extract
        prog = extract('ALL')
    bad = None
    for s_ in scripts:
        why = run_pool_script(prog, s_)
        if why is not None:
            bad = (s_, why)
            break
    f = prog.fn1(TP + '::Impl::doAfter')
    ctx.ob('C02.R10', 'timer-pool|replay', bad is None, '%d scripts' % len(scripts) if bad is None else
           'script %s: %s' % (' '.join('%s(%s)' % (a[0], ','.join(str(x) for x in a[1:])) for a in bad[0]), bad[1]), where=f.loc(f.body))
