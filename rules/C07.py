"""C07 — byte buffer: index arithmetic and copy-window agreement (partial claim; see DESIGN §10.6).

Decided with linear constant propagation (tbxlint/affine.py): every field of Buffer is tracked as an affine form over its
values at function entry; obligations are sign conditions on affine forms under the entry invariant R0 <= W0 <= S0."""
from tbxlint.facts import extract, AnalysisBroken
from tbxlint import q, locks
from tbxlint.affine import Aff, Ptr, Evaluator, nonneg, guard_facts, TOP

B = 'tbox::util::Buffer'
SCOPE = ['util/buffer.cpp']
FIELDS = {'read_index_': 'R0', 'write_index_': 'W0', 'buffer_size_': 'S0', 'buffer_ptr_': 'B0'}
CHAINS = [('R0', 'W0', 'S0'), ('other.read_index_', 'other.write_index_', 'other.buffer_size_')]


TRACKED = ('read_index_', 'write_index_', 'buffer_size_', 'buffer_ptr_')


def analyse(prog, f):
    ev = Evaluator(prog, f, B, FIELDS, ptr_fields=('buffer_ptr_',))
    inn, before, events = ev.run(fresh_fields=TRACKED)
    return ev, inn, before, events


def inv_at(env, facts):
    rr, ww, ss = env.get(('f', 'read_index_')), env.get(('f', 'write_index_')), env.get(('f', 'buffer_size_'))
    ok = isinstance(rr, Aff) and isinstance(ww, Aff) and isinstance(ss, Aff) and \
        nonneg(rr, CHAINS, facts) and nonneg(ww - rr, CHAINS, facts) and nonneg(ss - ww, CHAINS, facts)
    return ok, rr, ww, ss


def fresh_blocks(env):
    out = set()
    for k, v in env.items():
        if k[0] != 'f':
            continue
        syms = list(v.t) if isinstance(v, Aff) else ([v.base] + list(v.off.t) if isinstance(v, Ptr) else [])
        for s_ in syms:
            if '@b' in s_:
                out.add(int(s_.split('@b')[1]))
    return out


def subst_env(env, mapping, ptrmap):
    out = {}
    for k, v in env.items():
        if isinstance(v, Aff):
            out[k] = v.subst(mapping)
        elif isinstance(v, Ptr):
            base, off = v.base, v.off.subst(mapping)
            if base in ptrmap and isinstance(ptrmap[base], Ptr):
                off = ptrmap[base].off + off
                base = ptrmap[base].base
            out[k] = Ptr(base, off)
        else:
            out[k] = v
    return out


def path_ends(ev, f, before):
    """(last line, final env, facts, resolved) for every class of paths to the exit: the state on an edge into the exit, with the
    fresh symbols of (at most one level of) merge replaced by the values each incoming edge of that merge carried."""
    cfg = f.cfg
    edges = ev.edge_ends(before)
    into = {}
    for b, s_, env, facts in edges:
        into.setdefault(s_, []).append((b, env, facts))
    out = []

    def last_line(b):
        for e in reversed(cfg.blocks[b].el):
            if e[0] == 'S':
                return f.stmts[e[1]]['l']
        return None
    for b, env, facts in into.get(cfg.exit, []):
        fb = fresh_blocks(env)
        if not fb:
            out.append((last_line(b), env, facts, True, b))
            continue
        if len(fb) > 1 or list(fb)[0] not in into:
            out.append((last_line(b), env, facts, False, b))
            continue
        m = list(fb)[0]
        for b2, env2, facts2 in into[m]:
            if fresh_blocks(env2):
                out.append((last_line(b2), env2, facts2, False, b2))
                continue
            mapping, ptrmap = {}, {}
            for n in TRACKED:
                v2 = env2.get(('f', n))
                if n == 'buffer_ptr_':
                    ptrmap['%s@b%d' % (n, m)] = v2
                else:
                    mapping['%s@b%d' % (n, m)] = v2
            fin = subst_env(env, mapping, ptrmap)
            f2 = [g.subst(mapping) for g in facts] + list(facts2)
            out.append((last_line(b2) or last_line(b), fin, f2, True, b2))
    return out


def exit_envs(f, inn, before):
    """(return stmt or None, env at that return, point)"""
    out = []
    seen = set()
    for r in q.returns(f):
        p = f.cfg.point_of(r['i'])
        if p in before and before[p] is not None:
            out.append((r, before[p], p))
            seen.add(p[0])
    # the implicit return at the end of a void function: the state at the end of every other block that flows into the exit
    for b in f.cfg.blocks.values():
        if f.cfg.exit in [s_ for s_ in b.succ if s_ is not None] and b.id not in seen:
            endp = (b.id, len(b.el))
            if before.get(endp) is not None:
                out.append((None, before[endp], endp))
    return out


R3_COVERED = ('append', 'fetch')


def after_selfcall(f, events, bend):
    """does some path to the end of block `bend` run through a call of another mutator of the same object?"""
    blk = f.cfg.blocks[bend]
    endp = (bend, max(len(blk.el) - 1, 0))
    return any(sc['kind'] == 'selfcall' and (sc['pt'][0] == bend or f.cfg.exists_path(sc['pt'], endp)) for sc in events)


def fmt(x):
    return repr(x) if x is not None else 'unknown'


def r1_invariant(ctx, prog):
    ctx.rule('C07.R1', 'affine dataflow: 0 <= read_index_ <= write_index_ <= buffer_size_ is re-established on every edge into a merge point or the exit of every '
                       'method that writes the indices directly, assuming it at entry (the branch conditions on the way may be used)', floor=8)
    n = 0
    for f in prog.methods_of(B):
        writes = [st for st in f.stmts if st and st['k'] == 'MemberExpr' and st.get('n') in ('read_index_', 'write_index_', 'buffer_size_') and
                  (f.s(f.strip_casts(st['ch'][0])) or {'k': 'CXXThisExpr'})['k'] == 'CXXThisExpr' and locks.classify_access(f, st['i']) == 'w']
        if not writes or f.short in ('swap',):
            continue
        ev, inn, before, events = analyse(prog, f)
        sig = f.params[0]['t'] if f.params else ''
        for line, env, facts, resolved, bend in path_ends(ev, f, before):
            if after_selfcall(f, events, bend):
                # the path runs through another mutator: the state after it is that mutator's exit state, covered there — unless this function writes an index
                # after the call, which the per-function analysis cannot follow
                if any(env.get(('f', x)) is not TOP for x in ('read_index_', 'write_index_', 'buffer_size_')):
                    raise AnalysisBroken('%s writes an index after calling another mutator: not decidable per function' % f.name)
                continue
            n += 1
            if not resolved:
                raise AnalysisBroken('%s: merges nest deeper than the affine analysis tracks' % f.name)
            ok, rr, ww, ss = inv_at(env, facts)
            ctx.ob('C07.R1', '%s(%s)|path-end@%s' % (f.name, sig, (line - f.line) if line else 'end'), ok,
                   'read=%s write=%s size=%s keeps 0 <= read <= write <= size' % (fmt(rr), fmt(ww), fmt(ss)) if ok else
                   'on this path the method ends with read_index_=%s, write_index_=%s, buffer_size_=%s: 0 <= read <= write <= size is not implied by the entry invariant and the branch conditions'
                   % (fmt(rr), fmt(ww), fmt(ss)), where='%s:%s' % (f.file.replace('/repo/', ''), line) if line else f.loc(f.body))
    if n < 8:
        raise AnalysisBroken('expected >=8 analysed path ends of index-writing Buffer methods, found %d' % n)


def r2_copies(ctx, prog):
    ctx.rule('C07.R2', 'affine dataflow: every memcpy/memmove inside Buffer stays inside source and destination storage, reads exactly the readable window of its '
                       'source object, and the indices at the following exit describe exactly the bytes that were copied (new read = destination offset, '
                       'new write - new read = copied length)', floor=3)
    n = 0
    for f in prog.methods_of(B):
        ev, inn, before, events = analyse(prog, f)
        copies = [e for e in events if e['kind'] in ('memcpy', 'memmove')]
        if f.short in R3_COVERED:
            continue   # append/fetch are composed from the primitives: their copies are decided structurally by C07.R3
        for e in copies:
            if any(sc['kind'] == 'selfcall' and (sc['pt'][0] == e['pt'][0] and sc['pt'][1] < e['pt'][1] or f.cfg.exists_path(sc['pt'], e['pt'])) for sc in events):
                raise AnalysisBroken('%s copies after calling another mutator: neither the affine analysis (state unknown after the call) nor C07.R3 (append/fetch only) decides it' % f.name)
            n += 1
            dst, src, ln = e['dst'], e['src'], e['len']
            env = e['env']
            facts = guard_facts(ev, f, e['pt'], before)
            tag = '%s|%s@%d' % (f.name, e['kind'], e['stmt']['l'] - f.line)
            where = f.loc(e['stmt']['i'])
            if not (isinstance(dst, Ptr) and isinstance(src, Ptr) and isinstance(ln, Aff)):
                ctx.ob('C07.R2', tag + '|resolved', False, 'copy operands are not affine in the entry state: dst=%s src=%s len=%s' % (fmt(dst), fmt(src), fmt(ln)), where=where)
                continue
            # ---- source side
            if src.base == 'B0':
                ok = nonneg(src.off, CHAINS, facts) and nonneg(Aff.sym('S0') - src.off - ln, CHAINS, facts)
                ctx.ob('C07.R2', tag + '|src-in-bounds', ok, 'source [%r, +%r) lies inside the old storage of size S0' % (src.off, ln), where=where)
                ok = src.off == Aff.sym('R0') and ln == Aff.sym('W0') - Aff.sym('R0')
                ctx.ob('C07.R2', tag + '|src-is-window', ok, 'source is exactly the readable window [R0, W0) (offset %r, length %r)' % (src.off, ln), where=where)
            elif src.base.startswith('other.'):
                o = src.base.split('.')[0]
                ok = src.off == Aff.sym(o + '.read_index_') and ln == Aff.sym(o + '.write_index_') - Aff.sym(o + '.read_index_')
                ctx.ob('C07.R2', tag + '|src-is-window', ok, 'source is exactly the other buffer\'s readable window (offset %r, length %r)' % (src.off, ln), where=where)
            elif src.base.startswith('param:'):
                pass   # caller's memory: its size is the length parameter by contract (checked in R3)
            # ---- destination side
            if dst.base.startswith('new@'):
                cap = ev.allocs.get(dst.base)
                ok = isinstance(cap, Aff) and nonneg(dst.off, CHAINS, facts) and nonneg(cap - dst.off - ln, CHAINS, facts)
                ctx.ob('C07.R2', tag + '|dst-in-bounds', ok, 'destination [%r, +%r) lies inside the new block of %s bytes' % (dst.off, ln, fmt(cap)), where=where)
            elif dst.base == 'B0':
                ok = nonneg(dst.off, CHAINS, facts) and nonneg(Aff.sym('S0') - dst.off - ln, CHAINS, facts)
                ctx.ob('C07.R2', tag + '|dst-in-bounds', ok, 'destination [%r, +%r) lies inside the storage of size S0' % (dst.off, ln), where=where)
            # ---- agreement with the indices at the exits reached from here (when the destination is/becomes this buffer's storage)
            if dst.base.startswith('param:'):
                continue
            for line, xenv, xfacts, resolved, bend in path_ends(ev, f, before):
                # only path ends that lie after the copy
                if not (bend == e['pt'][0] or f.cfg.exists_path(e['pt'], (bend, 0)) or (f.cfg.blocks[bend].el and f.cfg.exists_path(e['pt'], (bend, len(f.cfg.blocks[bend].el) - 1)))):
                    continue
                if after_selfcall(f, events, bend):
                    raise AnalysisBroken('%s calls another mutator between a copy and the exit: the exit indices cannot be related to the copy' % f.name)
                if not resolved:
                    raise AnalysisBroken('%s: merges nest deeper than the affine analysis tracks' % f.name)
                rr, ww = xenv.get(('f', 'read_index_')), xenv.get(('f', 'write_index_'))
                bp = xenv.get(('f', 'buffer_ptr_'))
                if not (isinstance(bp, Ptr) and bp.base == dst.base):
                    # the destination block is not (known to be) the object's storage at this exit
                    if isinstance(bp, Ptr) and bp.base != dst.base:
                        continue
                    ctx.ob('C07.R2', tag + '|becomes-storage', False, 'cannot relate the copy destination %s to buffer_ptr_ at the exit (%s)' % (dst.base, fmt(bp)), where=where)
                    continue
                ok = isinstance(rr, Aff) and isinstance(ww, Aff) and rr == dst.off - bp.off and (ww - rr) == ln
                ctx.ob('C07.R2', tag + '|indices-match-copy', ok,
                       'at exit read_index_=%s = destination offset and write_index_ - read_index_ = %s = copied length' % (fmt(rr), fmt(ln)) if ok else
                       'bytes were copied to offset %r (length %r) but the exit state has read_index_=%s, write_index_=%s: the readable window no longer denotes the copied bytes'
                       % (dst.off, ln, fmt(rr), fmt(ww)), where=where)
    if n < 3:
        raise AnalysisBroken('expected >=3 copy operations inside Buffer, found %d' % n)


def r3_post(ctx, prog):
    ctx.rule('C07.R3', 'affine dataflow + A4: ensureWritableSize(n) returning true leaves buffer_size_ - write_index_ >= n and the readable length unchanged; '
                       'append copies n bytes to writableBegin() only after that success and then commits n; fetch copies min(request, readable) from readableBegin() and consumes the same amount', floor=5)
    f = prog.fn1(B + '::ensureWritableSize')
    ev, inn, before, events = analyse(prog, f)
    n_par = Aff.sym(f.params[0]['n'])
    k = 0
    for r, env, p in exit_envs(f, inn, before):
        if r is None or q.return_const(f, r) != 1:
            continue
        k += 1
        rr, ww, ss = env.get(('f', 'read_index_')), env.get(('f', 'write_index_')), env.get(('f', 'buffer_size_'))
        facts = guard_facts(ev, f, p, before)
        ok = isinstance(ww, Aff) and isinstance(ss, Aff) and (nonneg(ss - ww - n_par, CHAINS, facts) or any(nonneg(n_par.scale(-1), CHAINS, [g]) for g in facts))
        ctx.ob('C07.R3', '%s|room@%d' % (f.name, r['l'] - f.line), ok, 'on success size - write = %s >= %s' % (fmt(ss - ww) if isinstance(ss, Aff) and isinstance(ww, Aff) else '?', n_par), where=f.loc(r['i']))
        ok = isinstance(rr, Aff) and isinstance(ww, Aff) and (ww - rr) == Aff.sym('W0') - Aff.sym('R0')
        ctx.ob('C07.R3', '%s|window-kept@%d' % (f.name, r['l'] - f.line), ok, 'readable length unchanged (write - read = %s)' % (fmt(ww - rr) if isinstance(ww, Aff) and isinstance(rr, Aff) else '?'), where=f.loc(r['i']))
    if k < 3:
        raise AnalysisBroken('ensureWritableSize: expected >=3 success exits, found %d' % k)
    a = prog.fn1(B + '::append')
    en = q.calls(a, callee=B + '::ensureWritableSize')
    mc = [st for st in a.stmts if st and st['k'] == 'CallExpr' and st.get('callee') == 'memcpy']
    hw = q.calls(a, callee=B + '::hasWritten')
    ok = len(en) == 1 and len(mc) == 1 and len(hw) == 1
    if ok:
        size = a.path(en[0]['args'][0])
        g = [(c, kk) for c, kk, b in a.cfg.controlling_branches(q.pt(a, mc[0])) if en[0]['i'] in set(a.walk(c))]
        ok = any(kk == 0 for c, kk in g) and a.path(mc[0]['args'][2]) == size and a.path(hw[0]['args'][0]) == size and \
            any(c.get('fn') == 'writableBegin' for c in q.subtree_calls(a, mc[0]['args'][0])) and a.cfg.dominates(q.pt(a, mc[0]), q.pt(a, hw[0]))
    ctx.ob('C07.R3', '%s|reserve-copy-commit' % a.name, ok, 'ensureWritableSize(n) succeeded -> memcpy(writableBegin(), p, n) -> hasWritten(n) with one n', where=a.loc(a.body))
    ft = prog.fn1(B + '::fetch')
    mc = [st for st in ft.stmts if st and st['k'] == 'CallExpr' and st.get('callee') == 'memcpy']
    hr = q.calls(ft, callee=B + '::hasRead')
    ok = len(mc) == 1 and len(hr) == 1
    if ok:
        lenp = ft.path(mc[0]['args'][2])
        v = ft.s(ft.strip_casts(mc[0]['args'][2]))
        is_min = False
        if v['k'] == 'DeclRefExpr':
            from tbxlint import rd
            for d in rd.local_defs(ft, v['d']):
                if d['rhs'] is not None:
                    x = ft.s(ft.strip_casts(d['rhs']))
                    if x['k'] == 'ConditionalOperator':
                        c = ft.s(ft.strip_casts(x['ch'][0]))
                        arms = {ft.path(x['ch'][1]), ft.path(x['ch'][2])}
                        cmp_ = {ft.path(c['ch'][0]), ft.path(c['ch'][1])} if c['k'] == 'BinaryOperator' else set()
                        # (a > b) ? b : a  or (a < b) ? a : b
                        if c['k'] == 'BinaryOperator' and arms == cmp_ and 'readableSize()' in arms:
                            t_ = ft.path(x['ch'][1])
                            l_, r_ = ft.path(c['ch'][0]), ft.path(c['ch'][1])
                            is_min = (c.get('op') in ('>', '>=') and t_ == r_) or (c.get('op') in ('<', '<=') and t_ == l_)
                    if x['k'] in q.CALL_KINDS and x.get('callee', '').startswith('std::min'):
                        is_min = 'readableSize()' in {ft.path(a_) for a_ in x.get('args', [])}
            # form 3:  V = a;  if (V > b) V = b;   (both definitions reach the copy, the second one only behind the comparison)
            defs = [d for d in rd.local_defs(ft, v['d']) if d['rhs'] is not None]
            if not is_min and len(defs) == 2:
                d0, d1 = sorted(defs, key=lambda d: d['sid'])
                a_, b_ = ft.path(d0['rhs']), ft.path(d1['rhs'])
                if 'readableSize()' in (a_, b_) and d1['point'] is not None:
                    for cond, kk, blk in ft.cfg.controlling_branches(d1['point']):
                        c = ft.s(ft.strip_casts(cond))
                        if c and c['k'] == 'BinaryOperator' and c.get('op') in ('>', '>=', '<', '<='):
                            l_, r_ = ft.path(c['ch'][0]), ft.path(c['ch'][1])
                            vname = ft.path(v['i'])
                            gt = (l_ in (vname, a_) and r_ == b_ and c['op'] in ('>', '>=') and kk == 0) or (l_ == b_ and r_ in (vname, a_) and c['op'] in ('<', '<=') and kk == 0)
                            if gt and q.stable(ft, 'this', d0['point'], q.pt(ft, mc[0])):
                                is_min = True
        ok = is_min and ft.path(hr[0]['args'][0]) == lenp and any(c.get('fn') == 'readableBegin' for c in q.subtree_calls(ft, mc[0]['args'][1])) and \
            ft.cfg.dominates(q.pt(ft, mc[0]), q.pt(ft, hr[0]))
    ctx.ob('C07.R3', '%s|copy-min-consume' % ft.name, ok, 'memcpy(out, readableBegin(), min(request, readableSize())) then hasRead(the same amount)', where=ft.loc(ft.body))


def r4_independence(ctx, prog):
    ctx.rule('C07.R4', 'A6: a copy never aliases its source (cloneFrom allocates its own block and never stores other.buffer_ptr_); swap exchanges all four fields; '
                       'move/reset are swaps with an empty buffer', floor=3)
    c = prog.fn1(B + '::cloneFrom')
    ev, inn, before, events = analyse(prog, c)
    bad = False
    for r, env, p in exit_envs(c, inn, before):
        bp = env.get(('f', 'buffer_ptr_'))
        if not isinstance(bp, Ptr) or not (bp.base.startswith('new@') or bp.base == 'null'):
            bad = True
    alias = [a for a, rhs in q.assigns(c, 'Buffer::buffer_ptr_') if any('other' in x for x in q.subtree_paths(c, rhs))]
    ctx.ob('C07.R4', '%s|own-storage' % c.name, not bad and not alias, 'after cloneFrom buffer_ptr_ is a fresh block or null on every path, never the source\'s pointer', where=c.loc(c.body))
    # self-assignment (b = b): the affine forms treat `other` as a different object, so aliasing is decided separately: either the copy-assignment
    # operator excludes this == &other, or cloneFrom reads everything it needs from `other` before it changes or releases anything of its own
    own_muts = [st for st in c.stmts if st and ((st['k'] == 'CXXDeleteExpr' and (c.field_of(st['ch'][0]) or '').endswith('buffer_ptr_')) or
                (st['k'] == 'MemberExpr' and st.get('n') in TRACKED and (c.s(c.strip_casts(st['ch'][0])) or {'k': 'CXXThisExpr'})['k'] == 'CXXThisExpr' and locks.classify_access(c, st['i']) == 'w'))]
    other_reads = [st for st in c.stmts if st and st['k'] == 'DeclRefExpr' and st.get('n') == c.params[0]['n']]
    late = [r_ for r_ in other_reads if q.pt(c, r_) is not None and any(q.pt(c, m) is not None and c.cfg.exists_path(q.pt(c, m), q.pt(c, r_)) for m in own_muts)]
    guarded = False
    for f in prog.methods_of(B):
        if f.short == 'operator=' and f.params and f.params[0]['ct'].endswith('Buffer &') and not f.params[0]['ct'].endswith('&&'):
            for call in q.calls(f, callee=B + '::cloneFrom'):
                for cond, k, b in f.cfg.controlling_branches(q.pt(f, call)):
                    txt = q.expr_text(f, cond)
                    if 'this' in txt and f.params[0]['n'] in txt and ((('!=' in txt) and k == 0) or (('==' in txt) and k == 1)):
                        guarded = True
    ctx.ob('C07.R4', '%s|self-assignment' % c.name, guarded or not late,
           'copy-assignment excludes this == &other' if guarded else 'cloneFrom reads all it needs from the source before it changes its own fields (alias-safe)' if not late else
           'cloneFrom reads the source (%s) after it has already changed its own fields, and operator= does not exclude self-assignment: `b = b` on a partly consumed buffer '
           'computes the new size from the updated indices' % c.loc(late[0]['i']), where=c.loc(late[0]['i'] if late else c.body))
    s = prog.fn1(B + '::swap')
    sw = [st for st in s.calls() if st.get('callee', '').startswith('std::swap')]
    names = sorted({s.path(a).split('.')[-1] for st in sw for a in st['args']})
    ctx.ob('C07.R4', '%s|all-fields' % s.name, names == sorted(FIELDS) and len(sw) == 4 and all({s.path(a).split('.')[-1] for a in st['args']} .__len__() == 1 for st in sw),
           'swaps exactly %s pairwise' % names, where=s.loc(s.body))
    r = prog.fn1(B + '::reset')
    ok = bool(q.calls(r, callee=B + '::swap')) and any(st and st['k'] == 'CXXConstructExpr' and st.get('ctor') == B and len(st.get('args', [])) == 1 and r.s(r.strip_casts(st['args'][0])).get('cv') == 0 for st in r.stmts)
    ctx.ob('C07.R4', '%s|swap-with-empty' % r.name, ok, 'reset() swaps with Buffer(0)', where=r.loc(r.body))
    for f in prog.methods_of(B):
        if (f.d.get('ctor') or f.short == 'operator=') and f.params and f.params[0]['ct'] == 'tbox::util::Buffer &&':
            ok = bool(q.calls(f, callee=B + '::swap')) and (f.d.get('ctor') or bool(q.calls(f, callee=B + '::reset')))
            ctx.ob('C07.R4', '%s(&&)|move-is-swap' % f.name, ok, 'move leaves the source with this object\'s previous (empty/reset) state', where=f.loc(f.body))


def r5_commit_after_alloc(ctx, prog):
    ctx.rule('C07.R5', 'A8+A4 strong guarantee on allocation failure: in every Buffer method a new[] (which may throw std::bad_alloc) is reached before the object gives up '
             'anything — no delete[] of its storage and no store to buffer_ptr_/buffer_size_/the indices on a path from entry to the allocation; otherwise a failed '
             'allocation leaves a buffer whose size/indices describe storage it no longer has and the next operation writes through a null or dangling pointer', floor=2)
    n = 0
    for f in prog.methods_of(B):
        news = [st for st in f.stmts if st and st['k'] == 'CXXNewExpr']
        if not news or f.d.get('ctor') and not f.params:
            continue
        muts = []
        for st in f.stmts:
            if not st:
                continue
            if st['k'] == 'CXXDeleteExpr' and (f.field_of(st['ch'][0]) or '').endswith('buffer_ptr_'):
                muts.append((st, 'delete[] buffer_ptr_'))
            if st['k'] == 'MemberExpr' and st.get('n') in TRACKED and (f.s(f.strip_casts(st['ch'][0])) or {'k': 'CXXThisExpr'})['k'] == 'CXXThisExpr' and locks.classify_access(f, st['i']) == 'w':
                muts.append((st, 'store to ' + st['n']))
        for nw in news:
            n += 1
            np_ = q.pt(f, nw)
            early = [(st, what) for st, what in muts if q.pt(f, st) is not None and np_ is not None and f.cfg.exists_path(q.pt(f, st), np_)]
            # a constructor's own object has no earlier state to lose
            ok = not early or bool(f.d.get('ctor'))
            ctx.ob('C07.R5', '%s|new@%d' % (f.name, nw['l'] - f.line), ok, 'nothing of the object is released or overwritten before the allocation' if ok else
                   '%s at %s happens before the allocation at line %d: if new[] throws, the buffer keeps size/indices for storage it has already given up' %
                   (early[0][1], f.loc(early[0][0]['i']), nw['l']), where=f.loc(nw['i']))
    if n < 2:
        raise AnalysisBroken('expected >= 2 allocations inside Buffer (ensureWritableSize, cloneFrom), found %d' % n)


def r6_primitives(ctx, prog):
    ctx.rule('C07.R6', 'affine dataflow, postconditions of the window primitives everything else is composed from: hasWritten(n) leaves write = min(write + n, size); hasRead(n) '
                       'leaves either the window [read + n, write) when n <= readable or an empty window when n >= readable; hasReadAll() leaves an empty window; none of them '
                       'touches the storage pointer or the capacity; the accessors return write - read, size - write, ptr + read, ptr + write', floor=7)
    R0, W0, S0 = Aff.sym('R0'), Aff.sym('W0'), Aff.sym('S0')

    def zero(x):
        return isinstance(x, Aff) and x.is_const() and x.c == 0
    n = 0
    for name in ('hasWritten', 'hasRead', 'hasReadAll'):
        f = prog.fn1(B + '::' + name)
        ev, inn, before, events = analyse(prog, f)
        if any(e['kind'] == 'selfcall' for e in events):
            raise AnalysisBroken('%s is composed from other mutators: the primitive postconditions have to be stated for those' % f.name)
        arg = Aff.sym(f.params[0]['n']) if f.params else None
        for line, env, facts, resolved, bend in path_ends(ev, f, before):
            n += 1
            if not resolved:
                raise AnalysisBroken('%s: merges nest deeper than the affine analysis tracks' % f.name)
            rr, ww, ss, pp = env.get(('f', 'read_index_')), env.get(('f', 'write_index_')), env.get(('f', 'buffer_size_')), env.get(('f', 'buffer_ptr_'))
            frame = isinstance(ss, Aff) and zero(ss - S0) and pp == Ptr('B0', Aff(0))
            if not (isinstance(rr, Aff) and isinstance(ww, Aff)):
                ok, want = False, 'tracked indices'
            elif name == 'hasWritten':
                a = W0 + arg
                ok = zero(rr - R0) and ((zero(ww - a) and nonneg(S0 - a, CHAINS, facts)) or (zero(ww - S0) and nonneg(a - S0, CHAINS, facts)))
                want = 'write = min(W0 + %s, S0), read unchanged' % f.params[0]['n']
            elif name == 'hasRead':
                l0 = W0 - R0
                ok = (zero(rr - R0 - arg) and zero(ww - W0) and nonneg(l0 - arg, CHAINS, facts)) or (zero(ww - rr) and nonneg(arg - l0, CHAINS, facts))
                want = 'the window [R0 + %s, W0) if %s <= W0 - R0, an empty window if %s >= W0 - R0' % ((f.params[0]['n'],) * 3)
            else:
                ok = zero(ww - rr)
                want = 'an empty window'
            ok = ok and frame
            ctx.ob('C07.R6', '%s|path-end@%s' % (f.name, (line - f.line) if line else 'end'), ok,
                   'read=%s write=%s: %s' % (fmt(rr), fmt(ww), want) if ok else
                   'on this path %s ends with read_index_=%s, write_index_=%s, buffer_size_=%s, buffer_ptr_=%s; its callers (append, fetch, the socket read/write paths) rely on %s with '
                   'pointer and capacity untouched: the bytes accounted for are not the bytes that were copied' % (f.short, fmt(rr), fmt(ww), fmt(ss), fmt(pp), want),
                   where='%s:%s' % (f.file.replace('/repo/', ''), line) if line else f.loc(f.body))
    for name, want in (('readableSize', W0 - R0), ('writableSize', S0 - W0), ('readableBegin', Ptr('B0', R0)), ('writableBegin', Ptr('B0', W0))):
        g = prog.fn1(B + '::' + name)
        ev = Evaluator(prog, g, B, FIELDS, ptr_fields=('buffer_ptr_',))
        rets = q.returns(g)
        vals = [ev.ev(r.get('val'), ev.entry_env()) for r in rets]
        n += 1
        ok = bool(vals) and all(v == want for v in vals)
        ctx.ob('C07.R6', '%s|returns' % g.name, ok, 'returns %s' % fmt(want) if ok else
               '%s() returns %s where every user of the buffer reads it as %s' % (g.short, ', '.join(fmt(v) for v in vals) or 'nothing', fmt(want)), where=g.loc(g.body))
    if n < 7:
        raise AnalysisBroken('expected >=7 primitive postconditions (3 mutators, 4 accessors), found %d' % n)


UMAX = 2 ** 64 - 1


def _wrap_tested(f, ev, st, before):
    """the sum is stored in a local v whose every other use lies behind the false edge of `v < operand` (the unsigned wrap test)"""
    par = f.parent_of(st['i']) if hasattr(f, 'parent_of') else None
    v = None
    for d in f.stmts:
        if d and d['k'] == 'DeclStmt':
            for dd in d['decls']:
                if 'init' in dd and f.strip_casts(dd['init']) == st['i']:
                    v = dd['d']
    if v is None:
        return False
    ops = {f.path(c) for c in st['ch']}
    test = None
    for blk in f.cfg.blocks.values():
        c = f.s(f.strip_casts(blk.cond)) if blk.cond is not None else None
        if c and c['k'] == 'BinaryOperator' and c.get('op') in ('<', '>'):
            l_, r_ = f.s(f.strip_casts(c['ch'][0])), f.s(f.strip_casts(c['ch'][1]))
            small, big = (l_, r_) if c['op'] == '<' else (r_, l_)
            if small and small['k'] == 'DeclRefExpr' and small.get('d') == v and big is not None and f.path(big['i']) in ops:
                test = c
    if test is None:
        return False
    for u in f.stmts:
        if u and u['k'] == 'DeclRefExpr' and u.get('d') == v and u['i'] not in set(f.walk(test['i'])):
            p = f.cfg.point_of(u['i'])
            if p is None or not any(cond is not None and f.strip_casts(cond) == test['i'] and k == 1 for cond, k, b in f.cfg.controlling_branches(p)):
                return False
    return True


def r7_no_wrap(ctx, prog):
    ctx.rule('C07.R7', 'the affine proofs above reason over the integers; this rule discharges that assumption for the machine\'s unsigned arithmetic: in every Buffer method each '
                       'unsigned difference is provably >= 0 and each unsigned sum / doubling is provably <= a representable quantity (a field, a parameter, a constant <= SIZE_MAX) '
                       'under the entry invariant and the dominating guards, or is the operand of the wrap test "sum < operand" that guards its every use', floor=5)
    n = scanned = 0
    for f in prog.methods_of(B):
        scanned += 1
        arith = [st for st in f.stmts if st and 'cv' not in st and '*' not in (st.get('ct') or st.get('t') or '') and
                 ((st['k'] == 'BinaryOperator' and st.get('op') in ('+', '-', '<<', '*')) or (st['k'] == 'CompoundAssignOperator' and st.get('op') in ('+=', '-=', '<<=', '*=')) or
                  (st['k'] == 'UnaryOperator' and st.get('op') in ('++', '--'))) and (st.get('ct') or st.get('t') or '') in ('unsigned long', 'size_t', 'unsigned int', 'uint32_t', 'uint64_t')]
        if not arith:
            continue
        ev, inn, before, events = analyse(prog, f)
        for st in arith:
            pt = f.cfg.point_of(st['i'])
            env = before.get(pt) if pt is not None else None
            tag = '%s|%s@%d' % (f.name, st['op'], st['l'] - f.line)
            if env is None:
                continue        # unreachable
            n += 1
            if st['k'] == 'UnaryOperator':
                a, b = ev.ev(st['ch'][0], env), Aff(1)
                op = '+' if st['op'] == '++' else '-'
            else:
                a, b = ev.ev(st['ch'][0], env), ev.ev(st['ch'][1], env)
                op = st['op'].rstrip('=') if st['k'] == 'CompoundAssignOperator' else st['op']
            if not (isinstance(a, Aff) and isinstance(b, Aff)):
                if any(sc['kind'] == 'selfcall' and (sc['pt'][0] == pt[0] and sc['pt'][1] < pt[1] or f.cfg.exists_path(sc['pt'], pt)) for sc in events):
                    n -= 1
                    continue    # after another mutator: the fields are that mutator's exit state; only calls with a checked contract follow (C07.R3)
                ctx.ob('C07.R7', tag + '|resolved', False, 'operands are not affine in the entry state (%s, %s): cannot bound the result' % (fmt(a), fmt(b)), where=f.loc(st['i']))
                continue
            facts = guard_facts(ev, f, pt, before)
            if op == '-':
                r = a - b
                ok = nonneg(r, CHAINS, facts)
                ctx.ob('C07.R7', tag, ok, '%s >= 0' % fmt(r) if ok else 'the unsigned difference %s is not provably >= 0 here: for the values on which it is negative it wraps to a huge size' % fmt(r),
                       where=f.loc(st['i']))
                continue
            if op == '+':
                r = a + b
            elif op in ('<<', '*') and b.is_const():
                r = a.scale(2 ** int(b.c) if op == '<<' else b.c)
            else:
                ctx.ob('C07.R7', tag + '|resolved', False, 'a product of two variable sizes cannot be bounded', where=f.loc(st['i']))
                continue
            syms = set(r.t) | {'S0', 'W0', 'R0'}
            bounds = [Aff.sym(x) for x in sorted(syms)] + [Aff(UMAX)]
            ok = any(nonneg(x - r, CHAINS, facts) for x in bounds) or _wrap_tested(f, ev, st, before)
            ctx.ob('C07.R7', tag, ok, '%s is bounded by a representable quantity' % fmt(r) if ok else
                   'the unsigned %s %s has no provable upper bound here and no wrap test: for a large enough size it wraps, and the test or allocation that uses it takes the branch '
                   'meant for small values (indices move backwards / a block smaller than its contents is allocated)' % ('sum' if op == '+' else 'product', fmt(r)), where=f.loc(st['i']))
    if scanned < 12 or n < 5:
        raise AnalysisBroken('expected >=12 Buffer methods scanned and >=5 unsigned operations in them, found %d / %d' % (scanned, n))


def run(ctx):
    prog = extract('ALL' if ctx.tier == 'thorough' else SCOPE)
    ctx.guard(r1_invariant, ctx, prog)
    ctx.guard(r2_copies, ctx, prog)
    ctx.guard(r3_post, ctx, prog)
    ctx.guard(r4_independence, ctx, prog)
    ctx.guard(r5_commit_after_alloc, ctx, prog)
    ctx.guard(r6_primitives, ctx, prog)
    ctx.guard(r7_no_wrap, ctx, prog)
    from rules import C07_replay
    ctx.guard(C07_replay.r8, ctx, prog)
    return prog
