"""C03 — fd events (DESIGN §4 C03)."""
from tbxlint.facts import extract, AnalysisBroken, MODULES
from tbxlint import locks, q, exc, rd, reent
from rules import C03_replay

SCOPE = ['event/engines/epoll/loop.cpp', 'event/engines/epoll/fd_event.cpp', 'event/engines/select/loop.cpp',
         'event/engines/select/fd_event.cpp', 'event/common_loop.cpp', 'event/common_loop_run.cpp', 'event/common_loop_timer.cpp',
         'event/common_loop_signal.cpp']
E = 'tbox::event::'
BACKENDS = {'epoll': (E + 'EpollFdEvent', E + 'EpollLoop', E + 'EpollFdSharedData'),
            'select': (E + 'SelectFdEvent', E + 'SelectLoop', E + 'SelectFdSharedData')}


def r1(ctx, prog):
    ctx.rule('C03.R1', 'A7 snapshot dispatch: OnEventCallback iterates a copy of the subscriber list and reaches user callbacks, so every '
                       'element is re-validated against the live list before it is called (a callback may disable or destroy a sibling)', floor=2)
    for be, (ev, lp, sd) in BACKENDS.items():
        f = prog.fn1(ev + '::OnEventCallback')
        loops = [l for l in reent.range_loops(f) if reent.local_copy_of_member(f, l['range'])]
        if not loops:
            # iterating the live list directly while calling user code is worse
            live = [l for l in reent.range_loops(f) if f.field_of(l['range'])]
            # a range-for over the live list while user code runs is wrong whatever else is done; any other shape (an index loop over a copy, say) is not for this
            # rule to judge: C03.R12 replays the dispatch with callbacks that disable and destroy siblings
            ctx.ob('C03.R1', '%s|snapshot' % f.name, not live, 'dispatch iterates the live list fd_events while callbacks may change it' if live else
                   'the dispatch is not a range-for over a copy of fd_events: no verdict on its shape here, its behaviour is replayed by C03.R12', where=f.loc(f.body))
            continue
        for l in loops:
            d, fq, mpath = reent.local_copy_of_member(f, l['range'])
            lv = l.get('lvd')
            calls = [st for st in f.calls() if st['i'] in set(f.walk(l['body'])) and 'obj' in st and
                     f.s(f.strip_casts(st['obj'])) and f.s(f.strip_casts(st['obj'])).get('d') == lv]
            if not calls:
                raise AnalysisBroken('%s: no call on the loop element found' % f.name)
            for c in calls:
                tg = reent.callee_funcs(prog, c)
                user = any(reent.reaches_user(prog, t) for t in tg)
                if not user:
                    ctx.ob('C03.R1', '%s|revalidate' % f.name, True, 'element call does not reach user code', where=f.loc(c['i']))
                    continue
                ok = False
                for cond, br in q.lexical_guards(f, c['i']):
                    if br != 'then':
                        continue
                    live_ref = any(x.endswith(fq.split('::')[-1]) for x in q.subtree_fields(f, cond)) and mpath in ' '.join(q.subtree_paths(f, cond))
                    elem_ref = any(f.stmts[x]['k'] == 'DeclRefExpr' and f.stmts[x].get('d') == lv for x in f.walk(cond))
                    finder = any(cc.get('callee', '').startswith(('std::find', 'std::count', 'std::any_of')) or cc.get('fn') in ('find', 'count') for cc in q.subtree_calls(f, cond))
                    if live_ref and elem_ref and finder:
                        ok = True
                ctx.ob('C03.R1', '%s|revalidate' % f.name, ok,
                       'each snapshot element is looked up in the live %s before onEvent()' % mpath if ok else
                       'snapshot element is called without checking that it is still in the live list %s: a callback that disables or destroys a sibling event still gets that sibling called' % mpath,
                       where=f.loc(c['i']))


def r2(ctx, prog):
    ctx.rule('C03.R2', 'A7 stale handle: the per-descriptor record handed to OnEventCallback in the dispatch loop is resolved through fd_data_map_ '
                       'in the same iteration (never a pointer captured before earlier callbacks of the pass ran)', floor=2)
    for be, (ev, lp, sd) in BACKENDS.items():
        f = prog.fn1(lp + '::runLoop')
        cs = q.calls(f, callee=ev + '::OnEventCallback')
        if not cs:
            raise AnalysisBroken('%s::runLoop: dispatch call not found' % lp)
        for c in cs:
            arg = c['args'][-1]
            a = f.s(f.strip_casts(arg))
            srcs = set()
            work = list(f.walk(arg))
            seen = set()
            direct_kernel = False
            while work:
                x = work.pop()
                sx = f.stmts[x]
                if sx['k'] == 'MemberExpr' and sx.get('n') in ('ptr',) and 'epoll_data' in (sx.get('q') or ''):
                    direct_kernel = True
                if sx['k'] in q.CALL_KINDS and 'obj' in sx and (f.field_of(sx['obj']) or '').endswith('fd_data_map_'):
                    srcs.add(sx.get('fn'))
                if sx['k'] == 'DeclRefExpr' and sx.get('dk') == 'Var' and sx.get('d') not in seen:
                    seen.add(sx['d'])
                    for dfn in rd.local_defs(f, sx['d']):
                        if dfn['rhs'] is not None:
                            work.extend(f.walk(dfn['rhs']))
            ok = bool(srcs & {'find', 'at', 'operator[]'}) and not direct_kernel
            # the lookup must be inside the same loop iteration as the dispatch
            ctx.ob('C03.R2', '%s|record-resolved' % f.name, ok,
                   'record comes from fd_data_map_.%s in this iteration' % '/'.join(sorted(srcs)) if ok else
                   'the record pointer passed to OnEventCallback is the one stored in the kernel event (ev.data.ptr): an earlier callback of the same pass can '
                   'release the last reference and return the record to the pool before it is dereferenced', where=f.loc(c['i']))


def r3(ctx, prog):
    ctx.rule('C03.R3', 'A8: the dispatch loops never throw: no unguarded .at() on fd_data_map_ (callbacks of the same pass can erase the key)', floor=1)
    table = {
        (E + 'EpollLoop::runLoop', 'std::vector::at', 'events'): 'i < fds and epoll_wait never returns more than the events.size() it was given',
    }
    entries = [prog.fn1(lp + '::runLoop') for be, (ev, lp, sd) in BACKENDS.items()]
    eng = exc.ExcEngine(prog, exceptions=table, follow=lambda g: g.file.startswith(MODULES + '/event/'))
    # presence proofs do not survive user callbacks inside a dispatch loop, so map.at() gets none here
    findings = eng.scan(entries, exc.chain_provers(exc.prove_index_guard))
    for fn, where, label, why in eng.proofs:
        ctx.ob('C03.R3', '%s|%s@%s' % (fn, label, where.split(':')[-1]), True, '%s: %s' % (label, why), where=where)
    seen = set()
    for fd in findings:
        f, st = fd['func'], fd['stmt']
        key = '%s|%s|%s' % (f.name, fd['label'], fd['path'])
        if key in seen:
            continue
        seen.add(key)
        ctx.ob('C03.R3', key, False, '%s may throw %s inside the dispatch loop (chain %s)' % (fd['label'], '/'.join(fd['types']), ' -> '.join(fd['chain'][-3:])), where=f.loc(st['i']))
    ctx.ob('C03.R3', E + 'runLoop|scanned', True, '%d functions reachable from the two runLoop()s, %d may-throw sites' % (eng.functions, eng.sites))
    if eng.functions < 15:
        raise AnalysisBroken('dispatch call graph too small (%d)' % eng.functions)


def r4(ctx, prog):
    ctx.rule('C03.R4', 'A7 iterate-while-mutate: no loop over a live fd_events list calls something that erases from / appends to it', floor=1)
    n = 0
    for f in prog.funcs.values():
        if not f.file.startswith(MODULES + '/event/engines/'):
            continue
        for l in reent.range_loops(f):
            fq = f.field_of(l['range'])
            if not fq or not fq.endswith('fd_events'):
                continue
            n += 1
            bad = None
            for st in f.calls():
                if st['i'] in set(f.walk(l['body'])):
                    for t in reent.callee_funcs(prog, st):
                        r = reent.mutates_field(prog, t, 'fd_events')
                        if r:
                            bad = '%s() -> %s' % (st.get('fn'), r)
            ctx.ob('C03.R4', '%s|live-iteration' % f.name, bad is None,
                   'body does not mutate the list' if bad is None else 'range-for over the live fd_events calls %s, invalidating the loop iterator' % bad, where=f.loc(l['i']))
    if n == 0:
        ctx.ob('C03.R4', E + 'engines|live-iteration', True, 'no loop iterates a live fd_events list')


def r5(ctx, prog):
    ctx.rule('C03.R5', 'A4+A12: in both back-ends a one-shot event disables itself before its callback, and the callback runs only when the '
                       'ready mask intersects the subscribed mask', floor=4)
    for be, (ev, lp, sd) in BACKENDS.items():
        f = prog.fn1(ev + '::onEvent')
        inv = q.invokes(f, 'cb_')
        dis = q.calls(f, callee=ev + '::disable')
        if not inv:
            raise AnalysisBroken('%s::onEvent: callback invoke not found' % ev)
        for i in inv:
            ip = q.pt(f, i)
            g = f.cfg.controlling_branches(ip)
            mask = any(f.s(f.strip_casts(c)).get('op') == '&' and any(x.endswith('events_') for x in q.subtree_fields(f, c)) and 'events' in q.subtree_paths(f, c) and k == 0 for c, k, b in g)
            ctx.ob('C03.R5', '%s|mask' % f.name, mask, 'callback guarded by (events_ & events)', where=f.loc(i['i']))
            ok = False
            for d in dis:
                dp = q.pt(f, d)
                dg = [c for c, k, b in f.cfg.controlling_branches(dp) if any(x.endswith('is_stop_after_trigger_') for x in q.subtree_fields(f, c)) and k == 0]
                if dg and f.cfg.dominates(f.cfg.point_of(dg[0]), ip) and not f.cfg.exists_path(ip, dp):
                    ok = True
            ctx.ob('C03.R5', '%s|oneshot-first' % f.name, ok, 'the one-shot test (and disable()) precedes the callback on every path', where=f.loc(i['i']))


def signature(f):
    """order-insensitive structural signature of a method: field writes and resolved calls"""
    sig = []
    for st in f.stmts:
        if not st:
            continue
        if st['k'] == 'MemberExpr' and st.get('mk') == 'field':
            rw = locks.classify_access(f, st['i'])
            if rw == 'w':
                sig.append('w:' + st['n'])
        elif st['k'] in q.CALL_KINDS and st.get('fn'):
            fn = st['fn']
            if fn in ('LogPrintfFunc', 'reloadEpoll', 'epoll_ctl', 'epollFd') or fn.startswith('operator'):
                continue
            sig.append('c:' + fn)
    return sorted(sig)


def r7(ctx, prog):
    ctx.rule('C03.R7', 'A12: the epoll and select implementations of initialize/enable/disable/onEvent/OnEventCallback dispatch and ref/unref '
                       'agree event-for-event (modulo the epoll registration calls)', floor=6)
    for m in ('initialize', 'enable', 'disable', 'onEvent', '~'):
        fa = [f for f in prog.methods_of(BACKENDS['epoll'][0]) if (f.short == m or (m == '~' and f.d.get('dtor')))]
        fb = [f for f in prog.methods_of(BACKENDS['select'][0]) if (f.short == m or (m == '~' and f.d.get('dtor')))]
        if len(fa) != 1 or len(fb) != 1:
            raise AnalysisBroken('fd event method %s not found in both back-ends' % m)
        sa, sb = signature(fa[0]), signature(fb[0])
        ctx.ob('C03.R7', 'FdEvent::%s|agree' % m, sa == sb, 'signatures %s' % ('agree: %s' % sa if sa == sb else 'differ: epoll=%s select=%s' % (sa, sb)), where=fa[0].loc(fa[0].body))
    for m in ('refFdSharedData', 'unrefFdSharedData'):
        fa = prog.fn1(BACKENDS['epoll'][1] + '::' + m)
        fb = prog.fn1(BACKENDS['select'][1] + '::' + m)
        sa = [x for x in signature(fa) if x not in ('c:memset', 'w:fd', 'w:ev', 'w:ptr', 'w:data')]
        sb = [x for x in signature(fb) if x not in ('c:memset', 'w:fd')]
        ctx.ob('C03.R7', 'Loop::%s|agree' % m, sa == sb, 'signatures %s' % ('agree: %s' % sa if sa == sb else 'differ: epoll=%s select=%s' % (sa, sb)), where=fa.loc(fa.body))


KINDS = (('read', 1, 'read_event_num', 1), ('write', 2, 'write_event_num', 4), ('except', 4, 'except_event_num', 8))   # name, tbox bit, counter, epoll bit
EPOLLHUP = 16


def _cond_fields_consts(f, cond):
    flds = {x.split('::')[-1] for x in q.subtree_fields(f, cond)}
    consts = {f.stmts[x].get('cv') for x in f.walk(cond) if f.stmts[x].get('cv') is not None}
    return flds, consts


def r8(ctx, prog):
    ctx.rule('C03.R8', 'A11+A12 interest-set table: per event kind, enable()/disable() step the matching counter under the matching bit of events_; the epoll mask '
             'and the select sets request a kind iff its counter is positive; a ready kernel bit is translated to the matching tbox bit (HUP -> read); the '
             'epoll_ctl operation follows the old/new mask; both back-ends agree', floor=20)
    for be, (ev, lp, sd) in BACKENDS.items():
        for m, op in (('enable', '++'), ('disable', '--')):
            f = prog.fn1(ev + '::' + m)
            for name, bit, ctr, ebit in KINDS:
                steps = [st for st in f.stmts if st and st['k'] == 'UnaryOperator' and st.get('op') == op and (f.field_of(st['ch'][0]) or '').endswith('::' + ctr)]
                ok = len(steps) == 1
                if ok:
                    g = [(c, k) for c, k, b in f.cfg.controlling_branches(q.pt(f, steps[0]))]
                    ok = any(k == 0 and 'events_' in _cond_fields_consts(f, c)[0] and bit in _cond_fields_consts(f, c)[1] and f.s(f.strip_casts(c)).get('op') == '&' for c, k in g)
                    # and no other kind's bit gates it
                    ok = ok and not any('events_' in _cond_fields_consts(f, c)[0] and (_cond_fields_consts(f, c)[1] & {1, 2, 4}) - {bit} for c, k in g)
                wrong = [st for st in f.stmts if st and st['k'] == 'UnaryOperator' and st.get('op') in ('++', '--') and st.get('op') != op and (f.field_of(st['ch'][0]) or '').endswith('::' + ctr)]
                ctx.ob('C03.R8', '%s|%s-counter' % (f.name, name), ok and not wrong, '%s%s exactly once, under events_ & %d' % (op, ctr, bit) if ok and not wrong else
                       '%s() does not step %s exactly once under the %s bit of events_: the descriptor\'s interest set drifts from its enabled events' % (m, ctr, name), where=f.loc(f.body))
    # epoll mask from counters
    f = prog.fn1(BACKENDS['epoll'][0] + '::reloadEpoll')
    for name, bit, ctr, ebit in KINDS:
        sets = [st for st in f.stmts if st and st['k'] == 'CompoundAssignOperator' and st.get('op') == '|=' and f.s(f.strip_casts(st['ch'][1])).get('cv') == ebit]
        ok = len(sets) == 1
        if ok:
            g = [(c, k) for c, k, b in f.cfg.controlling_branches(q.pt(f, sets[0]))]
            ok = len(g) == 1 and any(q.edge_holds(f, c, k, 'd_.' + ctr, '>', '0') for c, k in g)
        ctx.ob('C03.R8', '%s|mask-%s' % (f.name, name), ok, 'epoll bit %d requested iff %s > 0' % (ebit, ctr) if ok else
               'the epoll mask does not request bit %d exactly when %s > 0' % (ebit, ctr), where=f.loc(sets[0]['i'] if sets else f.body))
    # the cached mask always equals the mask just computed from the counters (it decides ADD/MOD/DEL next time): every store to ev.events
    # takes the variable the kind bits were OR-ed into, and every path to the exit passes one
    maskvars = {f.path(st['ch'][0]) for st in f.stmts if st and st['k'] == 'CompoundAssignOperator' and st.get('op') == '|=' and
                f.s(f.strip_casts(st['ch'][1])).get('cv') in (1, 4, 8)}
    stores = [(a, rhs) for a, rhs in q.assigns(f, 'epoll_event::events')] or [(a, rhs) for a, rhs in q.assigns(f, 'events') if 'ev' in f.path(a['ch'][0])]
    okc = len(maskvars) == 1 and bool(stores) and all(f.path(rhs) in maskvars for a, rhs in stores) and \
        not f.cfg.exists_path(f.cfg.entry_point(), 'exit', avoid=[q.pt(f, a) for a, rhs in stores])
    ctx.ob('C03.R8', '%s|mask-cached' % f.name, okc, 'ev.events is always set to the mask computed from the counters (%s)' % sorted(maskvars) if okc else
           'ev.events is stored from %s: the cached mask can differ from the mask the counters give, so the next reload picks the wrong epoll_ctl operation' %
           sorted({f.path(rhs) for a, rhs in stores}), where=f.loc(stores[-1][0]['i'] if stores else f.body))
    ctl = [st for st in f.calls() if st.get('callee') == 'epoll_ctl']
    ops = {}
    for c in ctl:
        opv = f.s(f.strip_casts(c['args'][1])).get('cv')
        rel = []
        for cond, k, b in f.cfg.controlling_branches(q.pt(f, c)):
            r = q.edge_relation(f, cond, k)
            if r:
                rel.append('%s%s%s' % r)
        ops[opv] = sorted(rel)
    want = {1: ['new_events!=0', 'old_events==0'], 3: ['new_events!=0', 'old_events!=0'], 2: ['new_events==0', 'old_events!=0']}
    ctx.ob('C03.R8', '%s|ctl-op' % f.name, ops == want, 'EPOLL_CTL_ADD when the old mask was empty, MOD when both are non-empty, DEL when the new mask is empty' if ops == want else
           'epoll_ctl operation does not follow the old/new mask: %s' % ops, where=f.loc(f.body))
    # select sets from counters
    f = prog.fn1(BACKENDS['select'][1] + '::fillFdSets')
    for name, bit, ctr, ebit in KINDS:
        ifs = [st for st in f.stmts if st and st['k'] == 'IfStmt' and any(p_ == name + '_set.fds_bits' or p_.startswith(name + '_set') for p_ in q.subtree_paths(f, st['then']))]
        # "counter > 0" in any spelling (> 0, != 0, >= 1): folded over 0..3
        ok = len(ifs) == 1 and all(bool(q.eval_expr(f, ifs[0]['cond'], lambda sx, v=v: v if (sx['k'] == 'MemberExpr' and sx.get('n') == ctr) else None)) == (v >= 1)
                                   for v in range(0, 4))
        ctx.ob('C03.R8', '%s|set-%s' % (f.name, name), ok, 'descriptor put into %s_set iff %s > 0' % (name, ctr) if ok else
               'the %s set is not filled exactly when %s > 0' % (name, ctr), where=f.loc(ifs[0]['i'] if ifs else f.body))
    # ready bits -> tbox bits
    f = prog.fn1(BACKENDS['epoll'][0] + '::OnEventCallback')
    got = set()
    for st in f.stmts:
        if st and st['k'] == 'CompoundAssignOperator' and st.get('op') == '|=' and f.path(st['ch'][0]) == 'tbox_events':
            tb = f.s(f.strip_casts(st['ch'][1])).get('cv')
            for cond, k, b in f.cfg.controlling_branches(q.pt(f, st)):
                cs = f.s(f.strip_casts(cond))
                if cs and cs['k'] == 'BinaryOperator' and cs.get('op') == '&' and k == 0:
                    kb = f.s(f.strip_casts(cs['ch'][1])).get('cv')
                    got.add((kb, tb))
    want = {(1, 1), (4, 2), (8, 4), (EPOLLHUP, 1)}
    ctx.ob('C03.R8', '%s|ready-translation' % f.name, got == want, 'EPOLLIN->read, EPOLLOUT->write, EPOLLERR->except, EPOLLHUP->read' if got == want else
           'kernel-to-tbox event translation is %s, expected %s' % (sorted(got), sorted(want)), where=f.loc(f.body))
    # select: FD_ISSET(x_set) -> positional flag of SelectFdEvent::OnEventCallback -> tbox bit
    f = prog.fn1(BACKENDS['select'][1] + '::runLoop')
    cb = prog.fn1(BACKENDS['select'][0] + '::OnEventCallback')
    calls = [st for st in f.calls() if st.get('usr') == cb.usr]
    got = set()
    if len(calls) == 1:
        for pos, a in enumerate(calls[0]['args'][:3]):
            x = f.s(f.strip_casts(a))
            which = None
            if x and x['k'] == 'DeclRefExpr' and x.get('dk') == 'Var':
                for dfn in rd.local_defs(f, x['d']):
                    if dfn['rhs'] is not None:
                        ps = ' '.join(q.subtree_paths(f, dfn['rhs']))
                        for name, bit, ctr, ebit in KINDS:
                            if name + '_set' in ps:
                                which = name
            par = cb.params[pos]['d']
            for st in cb.stmts:
                if st and st['k'] == 'CompoundAssignOperator' and st.get('op') == '|=' and cb.path(st['ch'][0]) == 'tbox_events':
                    tb = cb.s(cb.strip_casts(st['ch'][1])).get('cv')
                    for cond, k, blk in cb.cfg.controlling_branches(q.pt(cb, st)):
                        t = q.simple_test(cb, cond)
                        if t and t[0] == par and (t[1] == 'nz') == (k == 0):
                            got.add((which, tb))
    want = {('read', 1), ('write', 2), ('except', 4)}
    ctx.ob('C03.R8', '%s|ready-translation' % f.name, got == want, 'read_set->read, write_set->write, except_set->except (through the positional flags of OnEventCallback)' if got == want else
           'select ready-set translation is %s, expected %s' % (sorted(got, key=str), sorted(want)), where=f.loc(calls[0]['i'] if calls else f.body))


def r9(ctx, prog):
    ctx.rule('C03.R9', 'A10 dispatch coverage by finite folding: the dispatch loops visit exactly the ready entries the kernel reported (epoll: indices 0..fds-1 of the event '
             'array; select: descriptors 0..nfds-1, entered whenever select() returned > 0), the select interest sets contain a descriptor exactly when the matching '
             'subscriber counter is >= 1 and only negative descriptors are skipped, and the shared per-descriptor record is recycled exactly when its reference count '
             'reaches 0 — each condition found in the code is folded over a small domain and compared with the stated predicate', floor=8)
    ep = prog.fn1('tbox::event::EpollLoop::runLoop')
    sl = prog.fn1('tbox::event::SelectLoop::runLoop')
    fill = prog.fn1('tbox::event::SelectLoop::fillFdSets')

    def loop_over(f, bound):
        ls = [st for st in f.stmts if st and st['k'] == 'ForStmt' and st.get('cond') is not None and bound in {f.stmts[x].get('n') for x in f.walk(st['cond'])}]
        return ls[0] if ls else None
    for f, bound, what in ((ep, 'fds', 'epoll_wait() result'), (sl, 'nfds', 'nfds')):
        lp = loop_over(f, bound)
        tr = q.loop_trips(f, lp, bound) if lp is not None else None
        ok = tr is not None and all(tr[N] == (N, 0) for N in tr)
        wit = next(((N, tr[N]) for N in tr if tr[N] != (N, 0)), None) if tr else None
        ctx.ob('C03.R9', '%s|dispatch-range' % f.name, ok, 'the dispatch loop visits indices 0..%s-1, each once' % bound if ok else
               'the dispatch loop does not visit exactly the %s entries 0..%s-1%s: a ready descriptor is never served, or a stale entry of an earlier pass is dispatched' %
               (what, bound, (' (for %s=%d it runs %d time(s) from index %d)' % (bound, wit[0], wit[1][0], wit[1][1])) if wit else ''), where=f.loc(lp['i']) if lp else f.loc(f.body))
    # select: the scan is entered exactly when select() returned a positive count
    lp = loop_over(sl, 'nfds')
    gate = None
    if lp is not None:
        for cond, k, b in sl.cfg.controlling_branches(sl.cfg.point_of(lp['cond'])):
            names = {sl.stmts[x].get('n') for x in sl.walk(cond) if sl.stmts[x]['k'] == 'DeclRefExpr'}
            if names == {'select_ret'}:
                gate = (cond, k)
    if gate is None:
        raise AnalysisBroken('SelectLoop::runLoop: the test of select()\'s result in front of the scan was not found')
    bad = [v for v in (-1, 0, 1, 2, 5) if (bool(q.eval_expr(sl, gate[0], lambda sx, v=v: (v if v >= 0 else None) if sx['k'] == 'DeclRefExpr' else None)) == (gate[1] == 0)) != (v > 0) and v >= 0]
    ctx.ob('C03.R9', '%s|scan-gate' % sl.name, not bad, 'the descriptor scan runs exactly when select() reported at least one ready descriptor' if not bad else
           'the scan is %s for select() == %d' % ('skipped' if bad[0] > 0 else 'entered', bad[0]), where=sl.loc(gate[0]))
    # select: interest sets
    n = 0
    for st in fill.stmts:
        if st and st['k'] == 'IfStmt' and st.get('cond') is not None:
            flds = [x for x in q.subtree_fields(fill, st['cond']) if x.endswith('_event_num')]
            if len(flds) != 1:
                continue
            n += 1
            fname = flds[0].split('::')[-1]
            def leaf(sx, v=None):
                return None
            bad = []
            for v in range(0, 4):
                r = q.eval_expr(fill, st['cond'], lambda sx, v=v: v if (sx['k'] == 'MemberExpr' and sx.get('n') == fname) else None)
                if r is None or bool(r) != (v >= 1):
                    bad.append(v)
            ctx.ob('C03.R9', '%s|%s' % (fill.name, fname), not bad, 'the descriptor is put into the set exactly when %s >= 1' % fname if not bad else
                   'with %s == %d the descriptor is %s the set: %s' % (fname, bad[0], 'left out of' if bad[0] >= 1 else 'put into',
                                                                      'an event with a single subscriber never fires' if bad[0] >= 1 else 'select() waits on a descriptor nobody subscribed to'),
                   where=fill.loc(st['cond']))
    if n < 3:
        raise AnalysisBroken('fillFdSets: expected the three counter tests (read/write/except), found %d' % n)
    skip = [st for st in fill.stmts if st and st['k'] == 'IfStmt' and st.get('cond') is not None and {fill.stmts[x].get('n') for x in fill.walk(st['cond']) if fill.stmts[x]['k'] == 'DeclRefExpr'} == {'fd'}
            and any(fill.stmts[x]['k'] == 'ContinueStmt' for x in fill.walk(st['i']))]
    for st in skip:
        # negative descriptors cannot be folded by eval_expr (non-negative domain): compare the operator and constant directly
        rel = q.edge_relation(fill, st['cond'], 0)
        ok = rel is not None and ((rel[0] == 'fd' and rel[1] == '<' and rel[2] == '0') or (rel[0] == 'fd' and rel[1] == '<=' and rel[2] == '-1'))
        ctx.ob('C03.R9', '%s|skip-negative' % fill.name, ok, 'only negative descriptors are skipped' if ok else
               'descriptors are skipped under %s %s %s: descriptor 0 (standard input) is never watched' % (rel if rel else ('?', '?', '?')), where=fill.loc(st['cond']))
    # both back-ends: recycle exactly at zero
    for cls in ('tbox::event::EpollLoop', 'tbox::event::SelectLoop'):
        u = prog.fn1(cls + '::unrefFdSharedData')
        fr = [c for c in u.calls() if c.get('fn') == 'free']
        if not fr:
            raise AnalysisBroken('%s::unrefFdSharedData: pool free not found' % cls)
        g = None
        for cond, k, b in u.cfg.controlling_branches(q.pt(u, fr[0])):
            if any(x.endswith('::ref') for x in q.subtree_fields(u, cond)):
                g = (cond, k)
        dec = [st for st in u.stmts if st and st['k'] == 'UnaryOperator' and st.get('op') == '--' and (u.field_of(st['ch'][0]) or '').endswith('::ref')]
        ok = g is not None and bool(dec) and u.cfg.dominates(q.pt_or_term(u, dec[0]), u.cfg.point_of(g[0]))
        bad = []
        if ok:
            for v in range(0, 4):
                r = q.eval_expr(u, g[0], lambda sx, v=v: v if (sx['k'] == 'MemberExpr' and sx.get('n') == 'ref') else None)
                if r is None or (bool(r) == (g[1] == 0)) != (v == 0):
                    bad.append(v)
        ctx.ob('C03.R9', '%s|recycle-at-zero' % u.name, ok and not bad, 'the record is recycled exactly when the decremented count is 0' if ok and not bad else
               'the shared record is recycled when the count left after the decrement is %s: %s' % (bad[0] if bad else '?', 'it is still referenced by the dispatch loop or another event (use after free)'
                                                                                                  if bad and bad[0] > 0 else 'it is never recycled'), where=u.loc(fr[0]['i']))


def r10(ctx, prog):
    ctx.rule('C03.R10', 'A4 guard reference paired by key: in each dispatch loop the reference taken on a descriptor\'s record before its callbacks run is dropped through '
             'unrefFdSharedData(k) where k is the key that record is registered under — the unchanged expression given to fd_data_map_.find() in this iteration, or the '
             'record\'s own key field, provided that back-end\'s refFdSharedData() stores its parameter into that field on every freshly allocated record and nothing else '
             'writes it. Otherwise every dispatch drops a reference of some other descriptor\'s record (which is recycled under its enabled events) and leaks its own', floor=2)
    for be, (ev, lp, sd) in BACKENDS.items():
        f = prog.fn1(lp + '::runLoop')
        disp = q.calls(f, callee=ev + '::OnEventCallback')
        if not disp:
            raise AnalysisBroken('%s::runLoop: dispatch call not found' % lp)
        finds = [c for c in f.calls() if c.get('fn') in ('find', 'at', 'operator[]') and 'obj' in c and (f.field_of(c['obj']) or '').endswith('fd_data_map_') and c.get('args')]
        for c in disp:
            rec = f.path(c['args'][-1])
            un = [u for u in f.calls() if u.get('fn') == 'unrefFdSharedData' and u.get('args') and f.cfg.exists_path(q.pt(f, c), q.pt(f, u))]
            if not un:
                ctx.ob('C03.R10', '%s|guard-dropped' % f.name, False, 'no unrefFdSharedData() follows the dispatch: the guard reference is never dropped', where=f.loc(c['i']))
                continue
            for u in un:
                k = u['args'][0]
                kx = f.s(f.strip_casts(k))
                kp = f.path(k)
                ok, how = False, ''
                same = [fc for fc in finds if f.path(fc['args'][0]) == kp and f.cfg.exists_path(q.pt(f, fc), q.pt(f, c))]
                def unchanged(fc):
                    # no modification of the key between this look-up and the unref that is not followed by a fresh look-up (the loop counter steps between iterations)
                    a, b = q.pt(f, fc), q.pt(f, u)
                    return not any(f.cfg.exists_path(a, m, src_inclusive=False) and f.cfg.exists_path(m, b, src_inclusive=False, avoid=[a]) for m in q.mod_points(f, kp, False))
                if same and all(unchanged(fc) for fc in same):
                    ok, how = True, 'the key given to fd_data_map_.%s(%s) in this iteration' % (same[0]['fn'], kp)
                elif kx is not None and kx['k'] == 'MemberExpr' and kx.get('mk') == 'field' and kx.get('ch') and f.path(kx['ch'][0]) == rec:
                    fld = kx['n']
                    g = prog.fn1(lp + '::refFdSharedData')
                    key = g.params[0]['n'] if g.params else None
                    st_ = [(a, rhs) for a, rhs in q.assigns(g, sd.split('::')[-1] + '::' + fld)]
                    allocs = [a for a in g.calls() if a.get('fn') == 'alloc']
                    good = [a for a, rhs in st_ if rhs is not None and g.path(rhs) == key]
                    others = [(h, a) for h in prog.funcs.values() if h is not g and h.file.startswith(g.file.rsplit('/', 1)[0]) for a, rhs in q.assigns(h, sd.split('::')[-1] + '::' + fld)]
                    covered = bool(good) and bool(allocs) and all(not g.cfg.exists_path(q.pt(g, a), 'exit', avoid=[q.pt(g, x) for x in good]) for a in allocs)
                    if covered and len(good) == len(st_) and not others:
                        ok, how = True, 'the record\'s field %s, which refFdSharedData() sets to its key on every new record' % fld
                    else:
                        how = 'the record\'s field %s, which %s' % (fld, 'this back-end never stores the key into (it keeps its initial value for every descriptor)' if not st_ and not others
                                                                   else 'is not stored from the key on every freshly allocated record, or is written elsewhere')
                else:
                    how = '%s, which is neither the key looked up in this iteration nor the record\'s key field' % kp
                ctx.ob('C03.R10', '%s|unref-key' % f.name, ok, 'the guard reference on %s is dropped under %s' % (rec, how) if ok else
                       'the guard reference taken on %s is dropped through unrefFdSharedData(%s): %s — another descriptor\'s record loses a reference on every dispatch and this one is '
                       'never released' % (rec, kp, how), where=f.loc(u['i']))


def run(ctx):
    prog = extract('ALL' if ctx.tier == 'thorough' else SCOPE)
    ctx.guard(r1, ctx, prog)
    ctx.guard(r2, ctx, prog)
    ctx.guard(r3, ctx, prog)
    ctx.guard(r4, ctx, prog)
    ctx.guard(r5, ctx, prog)
    ctx.guard(r7, ctx, prog)
    ctx.guard(r8, ctx, prog)
    ctx.guard(r9, ctx, prog)
    ctx.guard(r10, ctx, prog)
    ctx.guard(C03_replay.r11, ctx, prog, BACKENDS)
    from rules import C03_dispatch
    ctx.guard(C03_dispatch.r12, ctx, prog)
    return prog
