"""C19 — exact store-bound rules (R12 linear proofs, R13 Base64 encoder walk).  Imported by rules/C19.py."""
from tbxlint.facts import AnalysisBroken
from tbxlint import q, bounds, codecwalk
from tbxlint.affine import Aff


def out_aliases(f, ptr_param):
    pd = {ptr_param['d']}
    for st in f.stmts:
        if st and st['k'] == 'DeclStmt':
            for d in st['decls']:
                if 'init' in d and '*' in d.get('t', '') and any(f.stmts[x]['k'] == 'DeclRefExpr' and f.stmts[x].get('d') in pd for x in f.walk(d['init'])):
                    pd.add(d['d'])
    return pd


def indexed_stores(f, pd):
    out = []
    for st in f.stmts:
        if st and st['k'] in ('BinaryOperator', 'CompoundAssignOperator') and st.get('op', '').endswith('=') and st['op'] not in ('==', '!=', '<=', '>='):
            lhs = f.s(f.strip_casts(st['ch'][0]))
            if lhs is not None and lhs['k'] == 'ArraySubscriptExpr' and (f.s(f.strip_casts(lhs['ch'][0])) or {}).get('d') in pd:
                out.append((st, lhs))
    return out


UNITS = ('util/base64.cpp', 'util/string.cpp', 'util/scalable_integer.cpp', 'util/checksum.cpp')
# (function, pointer parameter) pairs whose bound is not a linear fact about an index; each is decided by the rule named
COUNTED = {
    ('Encode', 'base64_ptr'): 'output cursor counted by the state-machine walk C19.R13',
    ('Decode', 'raw_data_ptr'): 'output cursor counted by the residue-class walk C19.R11',
    ('CalcCheckSum16', 'data_ptr'): 'moving-pointer idiom (pointer and remaining length advance together): C19.R6/R10',
}


BULK = {'memcpy': (0, 1), 'memmove': (0, 1), 'memcmp': (0, 1), 'memset': (0,), 'memchr': (0,)}


def ptr_offset(f, e, pd, p):
    """affine offset of a pointer expression rooted in one of the buffer's aliases: buf, buf + k, k + buf, &buf[k]"""
    x = f.s(f.strip_casts(e))
    if x is None:
        return None
    if x['k'] == 'DeclRefExpr':
        return Aff(0) if x.get('d') in pd else None
    if x['k'] == 'BinaryOperator' and x.get('op') in ('+', '-'):
        a, b = f.s(f.strip_casts(x['ch'][0])), f.s(f.strip_casts(x['ch'][1]))
        if a is not None and (a['k'] != 'DeclRefExpr' or a.get('d') not in pd) and x['op'] == '+':
            a, b = b, a
        base = ptr_offset(f, a['i'], pd, p) if a is not None else None
        k = bounds.form(f, b['i'], p) if b is not None else None
        if base is None or k is None:
            return None
        return base + k if x['op'] == '+' else base - k
    if x['k'] == 'UnaryOperator' and x.get('op') == '&':
        sub = f.s(f.strip_casts(x['ch'][0]))
        if sub is not None and sub['k'] == 'ArraySubscriptExpr' and (f.s(f.strip_casts(sub['ch'][0])) or {}).get('d') in pd:
            return bounds.form(f, sub['ch'][1], p)
    return None


def bulk_accesses(f, pd, cap):
    """(call, argument index, ok | None, offset, length, facts) for every memcpy/memmove/memcmp/memset/memchr given a pointer into the buffer"""
    for c in f.calls():
        if (c.get('callee') or '').split('::')[-1] not in BULK:
            continue
        for ai in BULK[c['callee'].split('::')[-1]]:
            if ai >= len(c.get('args', [])) or not any(f.stmts[x]['k'] == 'DeclRefExpr' and f.stmts[x].get('d') in pd for x in f.walk(c['args'][ai])):
                continue
            pt_ = f.cfg.point_of(c['i'])
            off = ptr_offset(f, c['args'][ai], pd, pt_)
            ln = bounds.form(f, c['args'][-1], pt_)
            if off is None or ln is None:
                yield c, ai, None, off, ln, []
                continue
            facts = bounds.facts_at(f, pt_)
            pos = bounds.unsigned_syms(f)
            yield c, ai, bounds.decide(off, facts, pos) and bounds.decide(cap - off - ln, facts, pos), off, ln, facts


def r12(ctx, prog):
    ctx.rule('C19.R12', 'A10 linear bound proofs: every indexed access through a caller\'s buffer (ptr, size) in the Base64 / hex / scalable-integer / checksum units '
             'satisfies 0 <= index <= size - 1, decided from affine forms of the index (parameters, current values of loop counters), the controlling guards that still '
             'hold at the access, monotone counters (index - start or start - index >= 0), unsigned != 0 and alignment tests ((x & 3) == 0 with x >= 1 gives x >= 4); '
             'the form minus at most three facts must be non-negative term by term; a switch edge into case v gives condition == v; memcpy/memmove/memcmp/memset/memchr given a pointer into such a buffer touch only [offset, offset + length) inside it (probes). Cursor-counted outputs are decided by R11/R13 instead', floor=6)
    n = 0
    used = set()
    undecided = []
    for f in prog.funcs.values():
        if f.parent_func is not None or not any(f.file.endswith(u) for u in UNITS):
            continue
        for i, p_ in enumerate(f.params):
            if '*' not in (p_.get('ct') or '') or i + 1 >= len(f.params) or f.params[i + 1]['ct'] not in ('unsigned long', 'unsigned short', 'unsigned int'):
                continue
            pd = out_aliases(f, p_)
            sites = [st for st in f.stmts if st and st['k'] == 'ArraySubscriptExpr' and (f.s(f.strip_casts(st['ch'][0])) or {}).get('d') in pd]
            if not sites:
                continue
            if (f.short, p_['n']) in COUNTED:
                used.add((f.short, p_['n']))
                continue
            cap = Aff.sym(f.params[i + 1]['n'])
            for st in sites:
                n += 1
                pt_ = f.cfg.point_of(st['i'])
                lo, hi, v, facts = bounds.prove_index(f, st['ch'][1], cap, pt_)
                ok = lo and hi
                if not ok:
                    opq = bounds.opaque_guards(f, pt_, set(v.t), set(cap.t)) if v is not None else [st['ch'][1]]
                    if opq:
                        undecided.append('%s: index %s of %s[] at %s depends on a guard that is not an affine comparison (%s)'
                                         % (f.short, v if v is not None else f.path(st['ch'][1]), p_['n'], f.loc(st['i']), f.loc(opq[0])))
                        continue
                ctx.ob('C19.R12', '%s|%s[]@%s' % (f.short, p_['n'], f.loc(st['i']).split(':')[-1]), ok,
                       'index %r proven inside [0, %s - 1]' % (v, f.params[i + 1]['n']) if ok else
                       'cannot prove %s for the index %s of %s[] from the guards that hold here (%s): with a buffer of exactly the stated size the access is %s'
                       % ('index <= %s - 1' % f.params[i + 1]['n'] if not hi else 'index >= 0', v if v is not None else f.path(st['ch'][1]), p_['n'],
                          '; '.join('%r >= 0' % g for g in facts[:5]) or 'none', 'past its end' if not hi else 'before its start'), where=f.loc(st['i']))
            for c, ai, ok, off, ln, facts in bulk_accesses(f, pd, cap):
                n += 1
                if ok is None:
                    undecided.append('%s: %s() reaches into %s[] with an offset or length that is not affine (%s)' % (f.short, c['callee'], p_['n'], f.loc(c['i'])))
                    continue
                ctx.ob('C19.R12', '%s|%s(%s)@%s' % (f.short, c['callee'], p_['n'], f.loc(c['i']).split(':')[-1]), ok,
                       '%s() touches [%r, %r + %r) inside [0, %s)' % (c['callee'], off, off, ln, f.params[i + 1]['n']) if ok else
                       '%s() touches %r byte(s) of %s[] from offset %r; the guards that hold here (%s) do not give offset + length <= %s: with a buffer of exactly the stated size '
                       'the call reads or writes past its end' % (c['callee'], ln, p_['n'], off, '; '.join('%r >= 0' % g for g in facts[:5]) or 'none', f.params[i + 1]['n']),
                       where=f.loc(c['i']))
    # the bulk-access detector has no instance on the pinned tree: it must classify its probes on every run
    from tbxlint.facts import extract, probe_unit
    pp = extract([], extra_units=[probe_unit()])
    got = {}
    for g in pp.funcs.values():
        if g.name.startswith('verif_probe::bulk_'):
            r = list(bulk_accesses(g, out_aliases(g, g.params[0]), Aff.sym(g.params[1]['n'])))
            got[g.name.split('::')[-1]] = [x[2] for x in r]
    if got != {'bulk_overread': [False], 'bulk_exact': [True]}:
        raise AnalysisBroken('the bulk-access detector does not classify its probes: %s' % got)
    if undecided:
        raise AnalysisBroken('; '.join(undecided[:3]))
    missing = set(COUNTED) - used
    if missing:
        raise AnalysisBroken('table entries without a matching function/parameter: %s' % sorted(missing))
    if n < 6:
        raise AnalysisBroken('expected >= 6 indexed accesses through (ptr, size) buffers, saw %d' % n)


def r13(ctx, prog):
    ctx.rule('C19.R13', 'A10 state-machine walk of the Base64 encoder: the loop is a 3-state machine over the input bytes with a tail switch; walking it for every input length '
             '0..8 gives the number of characters written W(n) and their offsets (consecutive from 0); W(n) equals the constexpr EncodeLength(n) folded for the same n, '
             'three more bytes return to the same state with four more characters on both sides (so the equality holds for every n), and the loop is entered only '
             'with EncodeLength(input length) <= capacity', floor=1)
    fs = [g for g in prog.funcs.values() if g.file.endswith('util/base64.cpp') and g.short == 'Encode' and g.parent_func is None and len(g.params) == 4]
    el = [g for g in prog.funcs.values() if g.short == 'EncodeLength' and g.name.startswith('tbox::util::base64') and len(g.params) == 1]
    if len(fs) != 1 or not el:
        raise AnalysisBroken('Base64 Encode/EncodeLength not found (%d/%d)' % (len(fs), len(el)))
    f, el = fs[0], el[0]
    rets = q.returns(el)
    if len(rets) != 1:
        raise AnalysisBroken('EncodeLength: expected a single return expression')

    def enc_len(nv):
        return q.eval_expr(el, rets[0]['val'], lambda sx: nv if sx['k'] == 'DeclRefExpr' and sx.get('dk') == 'ParmVar' else None)
    cap, nlen = f.params[3]['d'], f.params[1]['d']
    loops = [st for st in f.stmts if st and st['k'] in ('ForStmt', 'WhileStmt') and any(f.stmts[x]['k'] == 'SwitchStmt' for x in f.walk(st['i']))]
    sws = [st for st in f.stmts if st and st['k'] == 'SwitchStmt']
    if len(loops) != 1 or len(sws) != 2:
        # not the state-machine form this walk understands: the encoder is decided by the replay C19.R17 alone (which reports analysis-broken itself if it cannot follow it)
        ctx.ob('C19.R13', 'Encode|form', True, 'not a byte-wise state machine (%d loop(s) with a switch, %d switch(es)): left to C19.R17' % (len(loops), len(sws)))
        return
    loop = loops[0]
    in_loop = [s_ for s_ in sws if s_['i'] in set(f.walk(loop['i']))]
    tail = [s_ for s_ in sws if s_ not in in_loop]
    if len(in_loop) != 1 or len(tail) != 1:
        raise AnalysisBroken('Base64 Encode: loop switch / tail switch not identified')
    sw, tw = in_loop[0], tail[0]
    sel = f.s(f.strip_casts(sw['cond']))
    tsel = f.s(f.strip_casts(tw['cond']))
    if not (sel and sel['k'] == 'DeclRefExpr' and tsel and tsel['k'] == 'DeclRefExpr' and sel.get('d') == tsel.get('d')):
        raise AnalysisBroken('Base64 Encode: both switches must select on the same state variable')
    sv = sel['d']
    init = None
    for st in f.stmts:
        if st and st['k'] == 'DeclStmt':
            for d in st['decls']:
                if d.get('d') == sv and 'init' in d:
                    init = (f.s(d['init']) or {}).get('cv')
    if init is None:
        raise AnalysisBroken('Base64 Encode: state variable has no constant initialiser')
    # the loop runs once per input byte: for (r = 0; r < len; r++)
    cnd = f.s(f.strip_casts(loop.get('cond')))
    per_byte = bool(cnd) and cnd['k'] == 'BinaryOperator' and cnd.get('op') == '<' and (f.s(f.strip_casts(cnd['ch'][1])) or {}).get('d') == nlen
    ctx.ob('C19.R13', '%s|one-step-per-byte' % f.name, per_byte, 'the loop makes one step per input byte (counter < length)' if per_byte else
           'the encoding loop is not `counter < input length`', where=f.loc(loop['i']))
    # capacity test
    fr = [r for r in q.returns(f) if r.get('val') is not None and (f.s(f.strip_casts(r['val'])) or {}).get('k') == 'DeclRefExpr' and (f.s(f.strip_casts(r['val'])) or {}).get('dk') == 'Var']
    if not fr:
        raise AnalysisBroken('Base64 Encode: no returned cursor variable')
    cur = f.s(f.strip_casts(fr[-1]['val']))['d']
    guarded = False
    lp = f.cfg.point_of(sw['cond'])
    for c, k, b in f.cfg.controlling_branches(lp):
        cs = f.s(f.strip_casts(c))
        if cs is None or cs['k'] != 'BinaryOperator' or cs.get('op') not in ('<', '<=', '>', '>='):
            continue
        a, b_ = f.s(f.strip_casts(cs['ch'][0])), f.s(f.strip_casts(cs['ch'][1]))
        is_el = lambda x: x is not None and x['k'] in q.CALL_KINDS and x.get('usr') == el.usr and \
            [(f.s(f.strip_casts(a_)) or {}).get('d') for a_ in x.get('args', [])] == [nlen]
        is_cap = lambda x: x is not None and x['k'] == 'DeclRefExpr' and x.get('d') == cap
        op = cs['op'] if k == 0 else {'<': '>=', '<=': '>', '>': '<=', '>=': '<'}[cs['op']]
        if (is_el(a) and is_cap(b_) and op in ('<=', '<')) or (is_cap(a) and is_el(b_) and op in ('>=', '>')):
            guarded = True
    ctx.ob('C19.R13', '%s|capacity-test' % f.name, guarded, 'the loop is entered only with EncodeLength(length) <= capacity' if guarded else
           'no test EncodeLength(input length) <= capacity dominates the encoding loop', where=f.loc(loop['i']))
    lc, tc = codecwalk.switch_cases(f, sw), codecwalk.switch_cases(f, tw)
    outp = out_aliases(f, f.params[2])
    res = {}
    for nbytes in range(0, 9):
        w = codecwalk.Walker(f, cur, outp, sv)
        w.state = init
        for _ in range(nbytes):
            if w.state not in lc:
                raise AnalysisBroken('Base64 Encode: no case for state %s' % w.state)
            w.run(lc[w.state])
        st_after = w.state
        if w.state in tc:
            w.run(tc[w.state])
        offs = [o for o, st in w.stores]
        res[nbytes] = (w.delta, st_after, offs)
        want = enc_len(nbytes)
        seq = offs == list(range(len(offs))) and len(offs) == w.delta
        ok = want is not None and w.delta == want and seq
        ctx.ob('C19.R13', '%s|n=%d' % (f.name, nbytes), ok, 'writes %d characters at offsets 0..%d = EncodeLength(%d)' % (w.delta, w.delta - 1, nbytes) if ok else
               'for %d input byte(s) the walk writes %d character(s) at offsets %s while EncodeLength(%d) = %s, the only thing compared with the capacity: %s'
               % (nbytes, w.delta, offs, nbytes, want, 'the encoder writes past an exactly sufficient buffer' if (want is not None and (w.delta > want or (offs and max(offs) >= want)))
                  else 'the size function and the encoder disagree'), where=f.loc(sw['i']))
    per = all(res[n_ + 3][0] - res[n_][0] == 4 and res[n_ + 3][1] == res[n_][1] and (enc_len(n_ + 3) or 0) - (enc_len(n_) or 0) == 4 for n_ in range(0, 6))
    ctx.ob('C19.R13', '%s|period' % f.name, per, 'three more bytes: same state, four more characters, on both sides' if per else
           'the walk is not periodic with period 3 bytes / 4 characters: the finite comparison does not extend to every length', where=f.loc(sw['i']))


GROW = ('resize', 'reserve', 'push_back', 'emplace_back', 'insert', 'assign', 'shrink_to_fit', 'clear')


def r14(ctx, prog):
    ctx.rule('C19.R14', 'A7 cached pointer freshness: the Serializer writes a std::vector it does not own through the cached pointer start_; every path of extendSize() '
             'that reports success in vector mode assigns start_ = p_block_->data() after the last operation on *p_block_ that may move its storage — also on the '
             'path where the serializer itself does not grow the vector, because its owner may have', floor=1)
    SER = 'tbox::util::Serializer'
    f = prog.fn1(SER + '::extendSize')
    refresh = []
    for st in f.stmts:
        if st and st['k'] == 'BinaryOperator' and st.get('op') == '=' and (f.field_of(st['ch'][0]) or '').endswith('::start_'):
            if any(f.stmts[x]['k'] in q.CALL_KINDS and f.stmts[x].get('fn') == 'data' and (f.field_of(f.stmts[x].get('obj')) or '').endswith('::p_block_') for x in f.walk(st['ch'][1])):
                refresh.append(st)
    grows = [c for c in f.calls() if c.get('fn') in GROW and c.get('obj') is not None and (f.field_of(c['obj']) or '').endswith('::p_block_')]
    # success returns of the vector mode: `return true`, or any return not guarded by the raw-mode test
    rets = []
    for r in q.returns(f):
        raw_edge = False
        for cond, k, b in f.cfg.controlling_branches(q.pt_or_term(f, r)):
            rel = q.edge_relation(f, cond, k)
            if rel and rel[1] == '==' and any(x.endswith('kRaw') for x in (rel[0], rel[2])):
                raw_edge = True
        if not raw_edge and q.return_const(f, r) != 0:
            rets.append(r)
    if not rets or not grows:
        raise AnalysisBroken('Serializer::extendSize: vector-mode success return / growth call not found (%d/%d)' % (len(rets), len(grows)))
    rp = q.pts(f, refresh)
    for r in rets:
        p_ = q.pt_or_term(f, r)
        no_refresh = f.cfg.exists_path(f.cfg.entry_point(), p_, avoid=rp)
        stale = [g for g in grows if f.cfg.exists_path(q.pt(f, g), p_, avoid=rp)]
        ok = bool(refresh) and not no_refresh and not stale
        ctx.ob('C19.R14', '%s|return@%s' % (f.name, f.loc(r['i']).split(':')[-1]), ok, 'start_ is re-read from the vector after its last possible reallocation on every path to this return' if ok else
               ('a path reaches this success return without start_ = p_block_->data(): the next append() stores through whatever address the vector had when the pointer was '
                'last cached — freed memory once the vector\'s owner has grown it' if no_refresh or not refresh else
                'p_block_->%s() at %s can move the storage after start_ was cached' % (stale[0].get('fn'), f.loc(stale[0]['i']))), where=f.loc(r['i']))


LENIENT = ('std::stoi', 'std::stol', 'std::stoul', 'std::stoll', 'std::stoull', 'std::stof', 'std::stod', 'std::__cxx11::stoi', 'std::__cxx11::stol', 'std::__cxx11::stoul',
           'std::__cxx11::stoll', 'std::__cxx11::stoull')
LENIENT_C = ('strtol', 'strtoul', 'strtoll', 'strtoull', 'strtod', 'atoi', 'atol', 'atoll', 'sscanf', 'std::strtol', 'std::strtoul', 'std::atoi')
DECODER_UNITS = ('http/url.cpp', 'util/string.cpp', 'util/base64.cpp', 'util/scalable_integer.cpp')


def lenient_calls(f):
    out = []
    for c in f.calls():
        cal = (c.get('callee') or '').split('<')[0]
        if cal.startswith(LENIENT) or cal in LENIENT_C:
            out.append(c)
    return out


def r15(ctx, prog):
    ctx.rule('C19.R15', 'A9 digits are decoded by the codec\'s own validating converter, never by a lenient library number parser: std::stoi / strtol / sscanf & co. skip leading '
             'white space, accept a sign and a 0x prefix and report how much they consumed *including* those — "% 7", "%-1", "%+f" would decode instead of failing '
             '(expected count zero; positive and negative probes in engine/probes.cc are classified on every run)', floor=1)
    from tbxlint.facts import extract, probe_unit
    pp = extract([], extra_units=[probe_unit()])
    got = {g.name.split('::')[-1]: len(lenient_calls(g)) for g in pp.funcs.values() if g.name.startswith('verif_probe::') and g.name.endswith('_hex')}
    if got != {'lenient_hex': 1, 'strict_hex': 0}:
        raise AnalysisBroken('lenient-parser detector self-check failed: %s' % got)
    ctx.ob('C19.R15', 'probes', True, 'detector classified its probes (std::stoi decoder flagged, range-test decoder accepted)')
    nfun = 0
    roots = [f for f in prog.funcs.values() if any(f.file.endswith(u) for u in DECODER_UNITS) and f.parent_func is None and
             any(t in f.short for t in ('Decode', 'HexStrTo', 'HexChar', 'hexChar', 'ParseScalable'))]
    scope = {}
    for r_ in roots:
        scope[r_.key] = r_
        for g in q.transitive_callees(prog, r_, within=lambda h: any(h.file.endswith(u) for u in DECODER_UNITS)):
            scope[g.key] = g
    for f in scope.values():
        nfun += 1
        for c in lenient_calls(f):
            ctx.ob('C19.R15', '%s|%s@%s' % (f.name, (c.get('callee') or '').split('<')[0], f.loc(c['i']).split(':')[-1]), False,
                   '%s decodes digits with %s(): the parser skips leading white space and accepts a sign (and 0x with base 16) and counts them as consumed, so two bytes that '
                   'are not a pair of digits — "-1", " 7", "+f" — are accepted and decoded (0xFF, 0x07, 0x0F) instead of failing cleanly'
                   % (f.short, (c.get('callee') or '').split('<')[0]), where=f.loc(c['i']))
    if nfun < 8:
        raise AnalysisBroken('decoders not found in the program (%d functions)' % nfun)
