"""C15 — DNS responses replayed against a reference parser, whole and truncated, well-formed and hostile (C15.R16).  Imported by rules/C15.py.

tbxlint/minterp.py interprets the syntax trees of DnsRequest::onUdpRecv, FetchDomain (with its recursion through compression pointers), findRequest / deleteRequest and
util::Deserializer; the datagram is a region of exactly its length, so every read past its end is a fault.  Datagrams: responses with A, CNAME and unknown records, names
compressed against the question and against each other, several answers, error codes; every truncation of them; and hostile ones (a pointer to itself, a pointer chain, a
pointer past the end, a label running over the end, counts larger than the content, a query instead of a response, an unknown id).  For each the callback must be invoked
exactly when the reference parser (RFC 1035 subset, written for this check) accepts the datagram, with the same status, addresses and names — and never for a damaged one."""
from tbxlint.facts import AnalysisBroken
from tbxlint import minterp
from tbxlint.minterp import P, S, NPOS

D = 'tbox::network::DnsRequest'
RID = 0x1234


def name_wire(name, table=None, at=None):
    out = b''
    for lab in name.split('.'):
        out += bytes([len(lab)]) + lab.encode()
    return out + b'\0'


def build(rid, flags, question, answers, counts=None):
    """answers: list of (name bytes, type, ttl, rdata bytes)"""
    q = name_wire(question) + (1).to_bytes(2, 'big') + (1).to_bytes(2, 'big')
    body = b''
    for nm, ty, ttl, rd in answers:
        body += nm + ty.to_bytes(2, 'big') + (1).to_bytes(2, 'big') + ttl.to_bytes(4, 'big') + len(rd).to_bytes(2, 'big') + rd
    c = counts or (1, len(answers), 0, 0)
    return rid.to_bytes(2, 'big') + flags.to_bytes(2, 'big') + b''.join(x.to_bytes(2, 'big') for x in c) + q + body


def ref_name(data, pos, depth=0):
    """(name, new pos) or None"""
    labels = []
    while True:
        if pos >= len(data):
            return None
        ln = data[pos]
        pos += 1
        if ln == 0:
            break
        if (ln & 0xc0) == 0xc0:
            if pos >= len(data) or depth >= 16:
                return None
            off = ((ln & 0x3f) << 8) | data[pos]
            pos += 1
            if off >= len(data):
                return None
            sub = ref_name(data, off, depth + 1)
            if sub is None:
                return None
            labels.append(sub[0])
            break
        if pos + ln > len(data):
            return None
        labels.append(data[pos:pos + ln].decode('latin-1'))
        pos += ln
    return '.'.join(labels), pos


def ref_parse(data, known_id, servers=2, seen=0):
    """None (dropped) or (status, [(ttl, ip)], [(ttl, cname)])"""
    if len(data) < 4:
        return None
    rid, flags = int.from_bytes(data[0:2], 'big'), int.from_bytes(data[2:4], 'big')
    if rid != known_id or not (flags & 0x8000):
        return None
    rcode = flags & 0xf
    if rcode == 3:
        return (1, [], [])
    if rcode == 1:
        return (4, [], [])
    if rcode != 0:
        return (2, [], []) if seen + 1 >= servers else None
    if len(data) < 12:
        return None
    qd, an = int.from_bytes(data[4:6], 'big'), int.from_bytes(data[6:8], 'big')
    pos = 12
    for _ in range(qd):
        r = ref_name(data, pos)
        if r is None or r[1] + 4 > len(data):
            return None
        pos = r[1] + 4
    a, c = [], []
    for _ in range(an):
        r = ref_name(data, pos)
        if r is None or r[1] + 10 > len(data):
            return None
        pos = r[1]
        ty, ttl, ln = int.from_bytes(data[pos:pos + 2], 'big'), int.from_bytes(data[pos + 4:pos + 8], 'big'), int.from_bytes(data[pos + 8:pos + 10], 'big')
        pos += 10
        if ty == 1:
            if pos + 4 > len(data):
                return None
            a.append((ttl, int.from_bytes(data[pos:pos + 4], 'little')))
            pos += 4
        elif ty == 5:
            r = ref_name(data, pos)
            if r is None:
                return None
            c.append((ttl, r[0]))
            pos = r[1]
        else:
            if pos + ln > len(data):
                return None
            pos += ln
    return (0, a, c)


class Bench:
    def __init__(self, prog):
        self.prog = prog
        self.results = []
        hooks = dict(minterp.VECTOR_HOOKS)
        hooks.update(minterp.STREAM_HOOKS)
        noop = lambda it, f, st, a: None
        hooks.update({'memcpy': minterp.h_memcpy, 'UdpSocket::disable': noop, 'UdpSocket::enable': noop, 'TimeoutMonitor::add': noop, 'TimeoutMonitor::remove': noop, 'toString': noop, 'move': lambda it, f, st, a: a[0]})
        self.it = minterp.Interp(prog, {'str:empty': [0]}, hooks=hooks, inline=('*',), max_steps=400000)
        self.it.string_mode = True
        self.it.globals['std::basic_string<char>::npos'] = NPOS
        it = self.it
        self.rec = it.new_record(D)
        self.rec['__open__'] = True
        self.rec['dns_ip_vec_'] = [1, 2]
        req = it.new_record(D + '::Request')
        req['cb'] = self.on_result
        req['response_count'] = 0
        self.rec['requests_'] = {'__map__': True, RID: req}
        it._keep += [self.rec, req]

    def on_result(self, res):
        rec = lambda x: x if isinstance(x, dict) else self.it.record_of(x)
        r = rec(res)
        a = [(rec(x)['ttl'], rec(rec(x)['ip']).get('ip_')) for x in r['a_vec']]
        c = [(rec(x)['ttl'], str(rec(rec(x)['cname']).get('name_'))) for x in r['cname_vec']]
        self.results.append((r.get('status'), a, c))

    def recv(self, data):
        it = self.it
        it.mem['dgram'] = [b for b in data]
        frm = {'__cls__': None, '__open__': True}
        it._keep.append(frm)
        f = self.prog.fn1(D + '::onUdpRecv')
        it.call(f, [P('dgram', 0), len(data), it.ref(frm)], this=self.rec)


def datagrams():
    q = 'www.example.com'
    ptr_q = bytes([0xc0, 12])                                   # the question name
    ip = bytes([1, 2, 3, 4])
    good = [
        ('one A record, name compressed against the question', build(RID, 0x8180, q, [(ptr_q, 1, 300, ip)])),
        ('A record with the name spelled out', build(RID, 0x8180, q, [(name_wire(q), 1, 7, ip)])),
        ('CNAME then A, the A name pointing into the CNAME data', build(RID, 0x8180, q, [(ptr_q, 5, 60, name_wire('cdn.example.net')), (bytes([0xc0, 12 + 17 + 4 + 2 + 10]), 1, 30, ip)])),
        ('CNAME whose target ends in a pointer', build(RID, 0x8180, q, [(ptr_q, 5, 60, bytes([3]) + b'cdn' + bytes([0xc0, 16]))])),
        ('an unknown record type between two A records', build(RID, 0x8180, q, [(ptr_q, 1, 1, ip), (ptr_q, 16, 5, b'\\x04text'), (ptr_q, 1, 2, bytes([9, 9, 9, 9]))])),
        ('no answers', build(RID, 0x8180, q, [])),
        ('name error', build(RID, 0x8183, q, [])),
        ('format error', build(RID, 0x8181, q, [])),
        ('server failure from the first of two servers', build(RID, 0x8182, q, [])),
        ('a root name in the question', build(RID, 0x8180, '', [(bytes([0]), 1, 9, ip)])),
    ]
    hdr = RID.to_bytes(2, 'big') + (0x8180).to_bytes(2, 'big')
    hostile = [
        ('a name that is a pointer to itself', hdr + (1).to_bytes(2, 'big') + (0).to_bytes(6, 'big') + bytes([0xc0, 12]) + bytes(4)),
        ('two pointers pointing at each other', hdr + (1).to_bytes(2, 'big') + (0).to_bytes(6, 'big') + bytes([0xc0, 14, 0xc0, 12]) + bytes(4)),
        ('a pointer past the end of the datagram', hdr + (1).to_bytes(2, 'big') + (0).to_bytes(6, 'big') + bytes([0xc3, 0xff]) + bytes(4)),
        ('a label that runs over the end', hdr + (1).to_bytes(2, 'big') + (0).to_bytes(6, 'big') + bytes([63]) + b'abc'),
        ('an answer count larger than the content', build(RID, 0x8180, q, [(ptr_q, 1, 300, ip)], counts=(1, 5, 0, 0))),
        ('a question count of 65535 on an empty body', hdr + (0xffff).to_bytes(2, 'big') + (0).to_bytes(6, 'big')),
        ('a query instead of a response', build(RID, 0x0100, q, [])),
        ('an id nobody asked for', build(0x4321, 0x8180, q, [(ptr_q, 1, 300, ip)])),
        ('an A record whose data length says 4 and that ends after 2', build(RID, 0x8180, q, [(ptr_q, 1, 300, ip)])[:-2]),
        ('an unknown record whose length runs over the end', build(RID, 0x8180, q, [(ptr_q, 99, 1, b'xy')])[:-1]),
    ]
    return good, hostile


def r16(ctx, prog):
    ctx.rule('C15.R16', 'A10 DNS responses by abstract replay: onUdpRecv, FetchDomain (compression pointers, recursion) and the request registry are interpreted on datagrams held in regions of '
             'exactly their length: ten well-formed responses (A, CNAME, unknown types, names compressed against the question and against record data, error codes), every truncation '
             'of each, and ten hostile datagrams (pointer to itself, pointer cycle, pointer past the end, over-long label, inflated counts, a query, a foreign id, short record data). The '
             'completion callback runs exactly when a reference parser accepts the datagram, with the same status, addresses and names; a damaged datagram never completes the request, no '
             'read leaves the datagram, and every run terminates', floor=1)
    need = [D + '::onUdpRecv', 'tbox::util::Deserializer::fetchNoCopy']
    if not all(any(g.name == n_ for g in prog.funcs.values()) for n_ in need):
        from tbxlint.facts import extract
        prog = extract('ALL')
    good, hostile = datagrams()
    bad = None
    runs = 0
    cases = []
    for name, data in good:
        cases.append((name, data))
        for k in range(0, len(data)):
            cases.append(('%s, cut after %d of %d byte(s)' % (name, k, len(data)), data[:k]))
    cases += hostile
    for name, data in cases:
        runs += 1
        b = Bench(prog)
        try:
            b.recv(data)
        except AnalysisBroken as e:
            if 'terminate' in str(e):
                b.it.faults.append('the parser does not terminate on this datagram')
            else:
                raise
        want = ref_parse(data, RID)
        why = None
        if b.it.faults:
            why = b.it.faults[0]
        elif want is None and b.results:
            why = 'the request is completed (status %s, %d address(es), %d name(s)) by a datagram the reference parser drops' % (b.results[0][0], len(b.results[0][1]), len(b.results[0][2]))
        elif want is not None and not b.results:
            why = 'the datagram is dropped where the reference parser completes the request with status %d, %d address(es), %d name(s)' % (want[0], len(want[1]), len(want[2]))
        elif want is not None and (len(b.results) != 1 or b.results[0] != want):
            why = 'the request is completed with %s where the reference parser gives %s' % (b.results[:1], want)
        if why and bad is None:
            bad = (name, why)
    f = prog.fn1(D + '::onUdpRecv')
    ctx.ob('C15.R16', '%s|datagrams' % f.name, bad is None, '%d datagrams: completed exactly when the reference parser accepts, with the same result' % runs if bad is None else
           '%s: %s' % bad, where=f.loc(f.body))
