"""C05 — the thread pool replayed over interleavings of its threads (C05.R15).  Imported by rules/C05.py.

tbxlint/minterp.py interprets the syntax trees of eventx::ThreadPool (initialize, execute, cancel, getTaskStatus, cleanup, threadProc, createWorker, popOneTask,
shouldThreadExitWaiting) and of the two cabinets; tbxlint/conc.py supplies the threads: every std::thread the pool creates is interpreted on a thread of its own, the mutex,
the unique_lock / lock_guard scopes, the condition variable (wait with predicate, notify_one with a choice of the waiter, notify_all), join and delete are modelled, and at
every one of those operations the schedule decides who goes on.  Schedules are enumerated depth-first up to a bound on preemptions.  A driver on the main (loop) thread runs a
script: execute tasks with priorities and completion callbacks, cancel, ask for the status, turn the loop (run what was posted with runInLoop), wait until the pool has
settled, cleanup.  Task bodies note where they run; the body contains a scheduling point so that "executing" is a state others can observe."""
import itertools
import threading
from tbxlint.facts import AnalysisBroken
from tbxlint import minterp, conc
from tbxlint.minterp import P, It

T = 'tbox::eventx::ThreadPool'
WAITING, EXECUTING, NOTFOUND = 0, 1, 2


def _plain(it, x):
    r = it.record_of(x) if not isinstance(x, dict) else x
    return {k: v for k, v in r.items() if not k.startswith('__')} if isinstance(r, dict) else x


def _setv(it, f, st):
    v = it.cur_obj
    if not isinstance(v, list):
        raise AnalysisBroken('%s: set operation on something the replay does not hold as a set (%s)' % (f.short, f.loc(st['i'])))
    return v


class Bench:
    CLS = T

    def __init__(self, prog, schedule, min_threads, max_threads):
        T = self.CLS
        self.prog = prog
        self.loopq = []
        self.log = []               # the global order of what happened: ('submitted', n, id, prio) ('pick', id) ('start', n, tid) ('end', n, tid) ('cb', n, tid) ...
        self.tasks = []             # per task: {'id', 'prio', 'cb'}
        self.live_tasks = set()
        noop = lambda it, f, st, a: None
        hooks = dict(minterp.VECTOR_HOOKS)
        hooks.update({'set::insert': self.h_set_insert, 'set::erase': self.h_set_erase, 'set::find': self.h_set_find, 'set::count': lambda it, f, st, a: int(self.h_set_find(it, f, st, a).k < len(_setv(it, f, st))), 'array::at': self.h_arr_at, 'array::operator[]': self.h_arr_at,
                      'array::size': lambda it, f, st, a: len(it.cur_obj), 'find': self.h_find, 'pop_front': self.h_pop_front, 'pop_back': lambda it, f, st, a: self.h_pop_front(it, f, st, a, back=True), 'ObjectPool::alloc': self.h_pool_alloc,
                      'ObjectPool::free': self.h_pool_free, 'CatchThrow': self.h_catch, 'runInLoop': self.h_run_in_loop, 'now': lambda it, f, st, a: 0,
                      'bind': lambda it, f, st, a: ('bind', a[0], list(a[1:])), 'move': lambda it, f, st, a: a[0], 'abort': self.h_abort})
        self.it = minterp.Interp(prog, {'str:empty': [0]}, hooks=hooks, inline=('*',), max_steps=8000000)
        it = self.it
        it.noeval = set(getattr(it, 'noeval', ())) | {'LogDbg', 'LogWarn', 'LogErr', 'LogNotice', 'LogInfo', 'LogTrace'}
        self.k = conc.Kernel(it, schedule)
        self.main_acq = 0
        self.k.on_acquire = lambda tid: setattr(self, 'main_acq', len(self.log)) if tid == 0 else None
        it.ctor_hooks['std::thread'] = self.h_new_thread
        it.delete_hooks.append(self.h_delete)
        self.loop = {'__cls__': 'tbox::event::Loop', '__open__': True}
        it._keep.append(self.loop)
        self.pool = it.new_record(T)
        it._keep.append(self.pool)
        ctor = [g for g in prog.by_name.get(T + '::' + T.split('::')[-1], ()) if g.d.get('ctor') and len(g.params) == 1 and g.body is not None]
        if len(ctor) != 1:
            raise AnalysisBroken('%s(Loop*): %d candidate(s)' % (T, len(ctor)))
        self.d = None
        self.min_threads, self.max_threads = min_threads, max_threads
        self.thread_objs = []
        self.problem = None
        it.ctor_hooks[T + '::Data'] = self.h_new_data
        it.run_ctor(ctor[0], ctor[0].stmts[0], self.pool, T, ctor[0], [it.ref(self.loop)])
        if self.d is None or it.record_of(self.pool.get('d_')) is not self.d:
            raise AnalysisBroken('%s::d_ is not the Data record after construction' % T)
        self.min_threads, self.max_threads = min_threads, max_threads
        self.thread_objs = []
        self.problem = None

    def prepare_data(self):
        it = self.it
        for nm in ('lock', 'cond_var'):
            if not isinstance(self.d.get(nm), dict):
                self.d[nm] = {'__cls__': 'std::' + nm, '__open__': True}
                it._keep.append(self.d[nm])
        if self.CLS == T:
            self.d['undo_tasks_token'] = [[] for _ in range(5)]
        else:
            self.d['undo_tasks_token_deque'] = []
        self.d['doing_tasks_token'] = []

    def queues(self):
        return self.d['undo_tasks_token'] if self.CLS == T else [self.d['undo_tasks_token_deque']]

    def h_new_data(self, it, f, st, args):
        rec = it.new_record(self.CLS + '::Data')
        it._keep.append(rec)
        self.d = rec
        self.prepare_data()
        return rec

    # ---- containers
    def h_abort(self, it, f, st, a):
        it.fault(f, st, 'an assertion of the library fails (abort)')
        raise minterp._Abort()

    def h_set_insert(self, it, f, st, a):
        v = _setv(it, f, st)
        x = _plain(it, a[0])
        if not any(_plain(it, y) == x for y in v):
            v.append(dict(it.record_of(a[0])) if it.record_of(a[0]) is not None else a[0])

    def h_set_erase(self, it, f, st, a):
        v = _setv(it, f, st)
        if isinstance(a[0], It):
            if 0 <= a[0].k < len(v):
                del v[a[0].k]
            return It(v, a[0].k)
        x = _plain(it, a[0])
        n = len(v)
        v[:] = [y for y in v if _plain(it, y) != x]
        return n - len(v)

    def h_set_find(self, it, f, st, a):
        v = _setv(it, f, st)
        x = _plain(it, a[0])
        for i, y in enumerate(v):
            if _plain(it, y) == x:
                return It(v, i)
        return It(v, len(v))

    def h_find(self, it, f, st, a):
        if 'obj' not in st and len(a) == 3 and isinstance(a[0], It) and isinstance(a[0].c, list):
            x = _plain(it, a[2])
            for i in range(a[0].k, a[1].k):
                if _plain(it, a[0].c[i]) == x:
                    return It(a[0].c, i)
            return It(a[0].c, a[1].k)
        return minterp._find(it, f, st, a)

    def h_arr_at(self, it, f, st, a):
        v = it.cur_obj
        i = a[-1]
        if not isinstance(v, list) or not isinstance(i, int):
            raise AnalysisBroken('%s: array access the replay does not understand (%s)' % (f.short, f.loc(st['i'])))
        if not (0 <= i < len(v)):
            it.fault(f, st, 'array index %d outside 0..%d' % (i, len(v) - 1))
            raise minterp._Abort()
        return v[i]

    def h_pop_front(self, it, f, st, a, back=False):
        v = minterp._vec(it, f, st)
        if not v:
            it.fault(f, st, 'pop on an empty sequence')
            return None
        x = v.pop(-1 if back else 0)
        if any(v is q_ for q_ in self.queues()) and self.k.current.tid != 0:
            # a worker removes a token from a waiting queue: that is the moment it takes the task (cleanup, on the loop thread, drops them instead)
            self.log.append(('pick', _plain(it, x).get('id_'), self.k.current.tid))

    # ---- the object pool of tasks, the loop, exceptions
    def h_pool_alloc(self, it, f, st, a):
        rec = it.new_record(self.CLS + '::Task')
        it._keep.append(rec)
        self.live_tasks.add(id(rec))
        return it.ref(rec)

    def h_pool_free(self, it, f, st, a):
        rec = it.record_of(a[0])
        if rec is None:
            if a[0] in (0, None):
                return None
            raise AnalysisBroken('%s: free of something the replay does not hold as a task (%s)' % (f.short, f.loc(st['i'])))
        if id(rec) not in self.live_tasks:
            it.fault(f, st, 'a task object is returned to the pool twice')
            return None
        self.live_tasks.discard(id(rec))

    def h_catch(self, it, f, st, a):
        it.invoke(f, st, a[0], [])
        return 0

    def h_run_in_loop(self, it, f, st, a):
        self.loopq.append(a[0])
        return 1

    # ---- threads
    def h_new_thread(self, it, f, st, args):
        rec = self.k.new_thread_object(args[0], args[1:])
        self.thread_objs.append(rec)
        return rec

    def h_delete(self, it, f, st, rec):
        if rec.get('__cls__') == 'std::thread':
            t = rec.get('mthread')
            if t is not None and not t.joined and not rec.get('detached'):
                it.fault(f, st, 'a std::thread that is still joinable is destroyed: std::terminate()')
            rec['deleted'] = rec.get('deleted', 0) + 1

    # ---- driver
    def call(self, name, args=(), pick=None):
        cands = [g for g in self.prog.by_name.get(self.CLS + '::' + name, ()) if g.body is not None and len(g.params) == len(args) and (pick is None or pick(g))]
        if len(cands) != 1:
            raise AnalysisBroken('%s::%s/%d: %d candidate(s)' % (self.CLS, name, len(args), len(cands)))
        return self.it.call(cands[0], list(args), this=self.pool)

    def execute(self, prio, with_cb):
        n = len(self.tasks)

        def body(n=n):
            self.log.append(('start', n, self.k.current.tid))
            self.k.reschedule('task-body')
            self.log.append(('end', n, self.k.current.tid))

        def cb(n=n):
            self.log.append(('cb', n, self.k.current.tid))
        mv = lambda g: g.params[0]['t'].rstrip().endswith('&&')
        tok = self.call('execute', [body, cb if with_cb else 0, prio if self.CLS == T else 0], pick=mv)
        r = self.it.record_of(tok) if not isinstance(tok, dict) else tok
        tid = (r or {}).get('id_')
        self.tasks.append({'id': tid, 'prio': max(-2, min(2, prio)) if self.CLS == T else 0, 'cb': with_cb, 'tok': dict(r) if r else None})
        self.log.append(('submitted', n, tid))
        return n

    def token(self, n):
        return self.it.ref(dict(self.tasks[n]['tok']))

    def turn(self):
        while self.loopq:
            fn = self.loopq.pop(0)
            f0 = self.prog.fn1(self.CLS + '::cleanup')
            self.it.invoke(f0, f0.stmts[0], fn, [])

    def started(self, n):
        return any(e[0] == 'start' and e[1] == n for e in self.log)

    def ended(self, n):
        return any(e[0] == 'end' and e[1] == n for e in self.log)


class WorkBench(Bench):
    CLS = 'tbox::eventx::WorkThread'


def _short(sched):
    t = ''.join(str(c) for c in sched)
    return t if len(t) <= 80 else t[:80] + '... (%d choices)' % len(t)


def run_once(prog, script, schedule, min_threads, max_threads, bench=Bench):
    """(choices, verdict)"""
    b = bench(prog, schedule, min_threads, max_threads)
    k, it = b.k, b.it
    answers = []            # (position in the log, kind, task, answer)
    verdict = None
    cleaned = None
    try:
        try:
            if bench is Bench and not b.call('initialize', [min_threads, max_threads]):
                raise AnalysisBroken('ThreadPool::initialize(%d, %d) refused' % (min_threads, max_threads))
            for a in script:
                if a[0] == 'exec':
                    b.execute(a[1], a[2])
                elif a[0] == 'cancel' and a[1] < len(b.tasks):
                    r = b.call('cancel', [b.token(a[1])])
                    answers.append((b.main_acq, 'cancel', a[1], r))         # the answer is computed under the lock: that is the moment it speaks about
                elif a[0] == 'status' and a[1] < len(b.tasks):
                    r = b.call('getTaskStatus', [b.token(a[1])])
                    answers.append((b.main_acq, 'status', a[1], r))
                elif a[0] == 'turn':
                    b.turn()
                elif a[0] == 'relife':
                    # cleanup(), turn the loop, initialize() again: tokens of the first life must not name anything of the second
                    b.log.append(('cleanup-begins',))
                    b.call('cleanup', [])
                    b.log.append(('cleanup-returns',))
                    b.turn()
                    for t_ in b.tasks:
                        t_['old'] = True
                    if not b.call('initialize', [min_threads, max_threads]):
                        raise AnalysisBroken('ThreadPool::initialize refused after cleanup()')
                elif a[0] == 'settle':
                    cancelled = set(x[2] for x in answers if x[1] == 'cancel' and x[3] == 0)
                    k.park_main_until(lambda: all(b.ended(n) for n in range(len(b.tasks)) if n not in cancelled and b.tasks[n]['id']),
                                      'task(s) %s accepted and not cancelled are never executed' % [n for n in range(len(b.tasks)) if n not in cancelled and not b.ended(n)])
                if it.faults:
                    break
                size = b.call_cab_size() if bench is Bench else None
                if isinstance(size, int) and size > max_threads:
                    verdict = 'the pool holds %d worker threads where %d is the configured maximum' % (size, max_threads)
                    break
            if verdict is None and not it.faults:
                cleaned = len(b.log)
                b.log.append(('cleanup-begins',))
                b.call('cleanup', [])
                b.log.append(('cleanup-returns',))
                b.turn()
        except conc.Deadlock as e:
            if k.error is not None:
                raise k.error
            verdict = ('cleanup() does not return: ' if cleaned is not None else '') + str(e)
        if k.error is not None and verdict is None:
            raise k.error
        if verdict is None and it.faults:
            verdict = it.faults[0]
        if verdict is None:
            verdict = judge(b, answers, cleaned)
    finally:
        k.shutdown()
    return k.choices, verdict


def _cab_size(self):
    cab = self.d.get('threads_cabinet')
    return cab.get('count_') if isinstance(cab, dict) else None


Bench.call_cab_size = _cab_size


def judge(b, answers, cleaned):
    log = b.log
    pos = {}
    for i, e in enumerate(log):
        pos.setdefault((e[0], e[1] if len(e) > 1 else None), i)
    cancelled = set(x[2] for x in answers if x[1] == 'cancel' and x[3] == 0)
    byid = {t['id']: n for n, t in enumerate(b.tasks) if t['id']}
    for n, t in enumerate(b.tasks):
        if not t['id']:
            return 'execute() refuses task #%d on an initialised pool' % n
        starts = [e for e in log if e[0] == 'start' and e[1] == n]
        ends = [e for e in log if e[0] == 'end' and e[1] == n]
        cbs = [e for e in log if e[0] == 'cb' and e[1] == n]
        if len(starts) > 1:
            return 'task #%d is executed %d times' % (n, len(starts))
        if n in cancelled and starts:
            return 'task #%d is executed although cancel() answered 0 (cancelled)' % n
        if starts and starts[0][2] == 0:
            return 'task #%d is executed on the loop thread' % n
        if starts and not ends:
            return 'task #%d was started and never finished' % n
        want_cb = 1 if (starts and t['cb']) else 0
        if len(cbs) != want_cb:
            return 'the completion callback of task #%d runs %d time(s) where %d is due' % (n, len(cbs), want_cb)
        if cbs and cbs[0][2] != 0:
            return 'the completion callback of task #%d runs on thread %d, not on the loop thread' % (n, cbs[0][2])
        if cbs and log.index(cbs[0]) < log.index(ends[0]):
            return 'the completion callback of task #%d runs before the task body has returned' % n
    relife = next((i for i, e in enumerate(log) if e[0] == 'cleanup-returns' and i < len(log) - 1), None)
    for at, kind, n, ans in answers:
        if b.tasks[n].get('old') and relife is not None and at > relife and b.tasks[n]['id'] and pos.get(('submitted', n), 1 << 30) < relife:
            if kind == 'status' and ans != NOTFOUND:
                return 'after cleanup() and a new initialize(), getTaskStatus() of a token of the first life answers %s: it names a task of the second life' % ('"waiting"' if ans == WAITING else '"executing"')
            if kind == 'cancel' and ans != 1:
                return 'after cleanup() and a new initialize(), cancel() of a token of the first life answers %d: it names (and with 0 removes) a task of the second life' % ans
            continue
        later_start = any(e[0] == 'start' and e[1] == n and i >= at for i, e in enumerate(log))
        if kind == 'cancel' and ans == 1 and later_start:
            return 'cancel() answers "not found" for task #%d, which is executed afterwards' % n
        if kind == 'cancel' and ans == 2 and not any(e[0] == 'pick' and e[1] == b.tasks[n]['id'] and i < at for i, e in enumerate(log)):
            return 'cancel() answers "executing" for task #%d, which no worker has taken' % n
        if kind == 'status' and ans == NOTFOUND and later_start:
            return 'getTaskStatus() answers "not found" for task #%d, which is still going to run' % n
        if kind == 'status' and ans == WAITING and any(e[0] == 'start' and e[1] == n and i < at for i, e in enumerate(log)):
            return 'getTaskStatus() answers "waiting" for task #%d, which has already been started' % n
    # priority order, first-in-first-out within a priority: at a pick, nothing that had been submitted earlier and is still waiting outranks what is taken
    picked, gone = set(), set(b.tasks[n]['id'] for n in cancelled)
    cancel_at = {b.tasks[x[2]]['id']: x[0] for x in answers if x[1] == 'cancel' and x[3] == 0}
    for i, e in enumerate(log):
        if e[0] != 'pick':
            continue
        me = byid.get(e[1])
        if me is None:
            return 'a worker takes a task with a token nobody was given'
        if e[1] in cancel_at and cancel_at[e[1]] <= i:
            continue            # the token of a cancelled task left behind in the queue: taking it yields no task
        for n2, t2 in enumerate(b.tasks):
            if n2 == me or t2['id'] in picked:
                continue
            sub = pos.get(('submitted', n2))
            if sub is None or sub > i:
                continue
            if t2['id'] in cancel_at and cancel_at[t2['id']] <= i:
                continue
            if (t2['prio'], n2) < (b.tasks[me]['prio'], me):
                return 'a worker takes task #%d (priority %d) while task #%d (priority %d, submitted %s) is waiting' % (
                    me, b.tasks[me]['prio'], n2, t2['prio'], 'earlier' if n2 < me else 'before the pick')
        picked.add(e[1])
    # the end: every worker has ended and was joined exactly once, every thread object was destroyed once
    for t in b.k.threads[1:]:
        if not t.done:
            return 'worker %s is still alive after cleanup() has returned' % t.name
        if not t.joined:
            return 'worker %s has ended and is never joined' % t.name
    for rec in (b.thread_objs if b.CLS == T else ()):
        if rec.get('deleted', 0) != 1:
            return 'a std::thread object of the pool is destroyed %d time(s)' % rec.get('deleted', 0)
    if b.live_tasks:
        return '%d task object(s) are never returned to the pool' % len(b.live_tasks)
    return None


E = lambda p, cb=True: ('exec', p, cb)
SCRIPTS = [
    ((0, 1), [E(0), ('turn',), ('turn',), ('settle',), ('turn',)]),
    ((0, 1), [E(0), E(-2), E(2, False), ('settle',), ('turn',)]),
    ((0, 2), [E(0), E(0), ('cancel', 1), ('status', 0), ('settle',), ('turn',)]),
    ((1, 2), [E(2), E(0), E(-2), ('cancel', 0), ('status', 2), ('settle',), ('turn',)]),
    ((0, 1), [E(0), E(1)]),
    ((1, 1), [E(0), ('settle',), E(0), ('settle',), ('turn',)]),
    ((0, 2), [E(0), ('settle',), ('turn',), E(0), E(0), ('settle',), ('turn',)]),
    ((2, 2), [E(1), E(-1), E(0), ('status', 1), ('cancel', 2), ('settle',), ('turn',)]),
    ((0, 1), [E(0), ('status', 0), ('cancel', 0), ('status', 0)]),
    ((1, 3), []),
    ((0, 1), [E(0), E(0), ('settle',), ('turn',), ('relife',), E(0), ('status', 0), ('cancel', 1), ('status', 2), ('settle',), ('turn',)]),
    ((1, 2), [E(0), E(0, False), ('turn',), ('status', 1), ('turn',), ('settle',), ('turn',)]),
]


WORK_SCRIPTS = [
    [E(0), E(0), ('cancel', 1), ('status', 0), ('settle',), ('turn',)],
    [E(0), ('turn',), ('turn',), ('settle',), ('turn',)],
    [E(0), E(0, False)],
    [E(0), ('settle',), E(0), ('status', 1), ('cancel', 1), ('settle',), ('turn',)],
    [],
]


def describe(script):
    return ' '.join('%s(%s)' % (a[0], ','.join(str(x) for x in a[1:])) for a in script)


def r15(ctx, prog):
    import sys
    full = ctx.tier == 'thorough'
    ctx.rule('C05.R15', 'A10 the thread pool and the work thread over interleavings: %d driver scripts (execute with priorities and completion callbacks, cancel, status, loop turns, waiting until the pool has '
             'settled, cleanup at the end; pools of (min, max) = (0,1) (0,2) (1,1) (1,2) (2,2) (1,3) threads) are interpreted on the syntax trees of ThreadPool and its cabinets with '
             'every std::thread as a model thread, the mutex, the lock scopes, the condition variable, join and delete modelled, and every schedule of the synchronisation '
             'operations with at most %d preemption(s) enumerated: each accepted task runs exactly once, on a worker, unless cancel() answered 0, then never; the completion '
             'callback runs once, on the loop thread, after the body; "not found" is never said of a task that still runs afterwards, "executing" only of a task a worker has '
             'taken, a cancelled task never runs; a worker never takes a task while one that outranks it (priority, then submission order) is waiting; the cabinet never holds '
             'more workers than the maximum; no schedule ends with nobody able to go on (lost wake-up, cleanup that does not return); after cleanup every worker has ended, was '
             'joined once, every std::thread object destroyed once and every task object returned; the same for WorkThread (%d scripts, 2 preemptions)' % (len(SCRIPTS), 2 if full else 1, len(WORK_SCRIPTS)), floor=2)
    old_stack, old_rec = threading.stack_size(), sys.getrecursionlimit()
    threading.stack_size(256 * 1024 * 1024)
    sys.setrecursionlimit(max(old_rec, 20000))
    bad = None
    runs = 0
    try:
        for i, ((mn, mx), script) in enumerate(SCRIPTS):
            bound = 2 if (full or i < 3) else 1
            n, sched, why = conc.explore(lambda s_: run_once(prog, script, s_, mn, mx), preempt_bound=bound, max_runs=6000)
            runs += n
            if why is not None:
                bad = ((mn, mx), script, sched, why)
                break
    finally:
        threading.stack_size(old_stack)
        sys.setrecursionlimit(old_rec)
    W = 'tbox::eventx::WorkThread'
    wbad = None
    wruns = 0
    old_stack, old_rec = threading.stack_size(), sys.getrecursionlimit()
    threading.stack_size(256 * 1024 * 1024)
    sys.setrecursionlimit(max(old_rec, 20000))
    try:
        for script in WORK_SCRIPTS:
            n, sched, why = conc.explore(lambda s_: run_once(prog, script, s_, 1, 1, bench=WorkBench), preempt_bound=2, max_runs=6000)
            wruns += n
            if why is not None:
                wbad = (script, sched, why)
                break
    finally:
        threading.stack_size(old_stack)
        sys.setrecursionlimit(old_rec)
    g = prog.fn1(W + '::threadProc')
    ctx.ob('C05.R15', 'WorkThread|interleavings', wbad is None, '%d schedules over %d scripts' % (wruns, len(WORK_SCRIPTS)) if wbad is None else
           'script %s, schedule %s: %s' % (describe(wbad[0]), _short(wbad[1]), wbad[2]), where=g.loc(g.body))
    f = prog.fn1(T + '::threadProc')
    ctx.ob('C05.R15', 'ThreadPool|interleavings', bad is None, '%d schedules over %d scripts' % (runs, len(SCRIPTS)) if bad is None else
           'pool (min %d, max %d), script %s, schedule %s: %s' % (bad[0][0], bad[0][1], describe(bad[1]), _short(bad[2]), bad[3]), where=f.loc(f.body))
