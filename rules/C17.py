"""C17 — action trees (DESIGN §4 C17)."""
import glob
from tbxlint.facts import extract, AnalysisBroken, MODULES
from tbxlint import locks, q, reent

A = 'tbox::flow::Action'
AS = 'tbox::flow::AssembleAction'
SER = 'tbox::flow::SerialAssembleAction'
HOOKS = ('onStart', 'onPause', 'onResume', 'onStop', 'onReset', 'onBlock', 'onFinished')
NON_OWNING = {'curr_action_', 'parent_'}
EXEMPT = {('IfThenAction', 'tmp_'): {'reset': 'staging slot for a half-added if/then pair: isReady() is false while it is occupied, so its actions are never started'}}


def scope_units():
    us = ['flow/action.cpp', 'flow/action_executor.cpp']
    for p in sorted(glob.glob(MODULES + '/flow/actions/*.cpp')):
        if not p.endswith('_test.cpp'):
            us.append(p[len(MODULES) + 1:])
    return us


def method(prog, cls, name, required=False):
    for f in prog.methods_of(cls):
        if f.short == name or (name == '~' and f.d.get('dtor')):
            return f
    if required:
        raise AnalysisBroken('%s::%s not found' % (cls, name))
    return None


def refs_field(prog, f, fq, depth=0, seen=None):
    """f (or a same-class helper it calls) references field fq; returns the function that does"""
    seen = seen if seen is not None else set()
    if f is None or f.key in seen or depth > 3:
        return None
    seen.add(f.key)
    for g in prog.family(f):
        if any(st and st['k'] == 'MemberExpr' and st.get('q') == fq for st in g.stmts):
            return g
    for st in f.calls():
        for h in prog.by_usr.get(st.get('usr'), ()):
            if not h.parent_usr and h.cls == f.cls:
                r = refs_field(prog, h, fq, depth + 1, seen)
                if r:
                    return r
    return None


def call_sites_named(prog, f, name, depth=0, seen=None):
    """(function, call) for every call of a tbox::flow method `name` in f, its lambdas, or same-class helpers it calls"""
    seen = seen if seen is not None else set()
    if f is None or f.key in seen or depth > 3:
        return []
    seen.add(f.key)
    out = []
    for g in prog.family(f):
        for st in g.calls():
            if st.get('fn') == name and st.get('cls', '').startswith('tbox::flow::'):
                out.append((g, st))
    for st in f.calls():
        for h in prog.by_usr.get(st.get('usr'), ()):
            if not h.parent_usr and h.cls == f.cls:
                out += call_sites_named(prog, h, name, depth + 1, seen)
    return out


def calls_named(prog, f, name, depth=0, seen=None):
    seen = seen if seen is not None else set()
    if f is None or f.key in seen or depth > 3:
        return False
    seen.add(f.key)
    for g in prog.family(f):
        for st in g.calls():
            if st.get('fn') == name and st.get('cls', '').startswith('tbox::flow::'):
                return True
    for st in f.calls():
        for h in prog.by_usr.get(st.get('usr'), ()):
            if not h.parent_usr and h.cls == f.cls and calls_named(prog, h, name, depth + 1, seen):
                return True
    return False


def r1(ctx, prog):
    ctx.rule('C17.R1', 'A12 lifecycle propagation matrix: every composite with a child-holding field deletes it in the destructor, resets it in onReset, '
                       'installs it with setParent + finish + block callbacks, consults it in isReady, and (unless the serial base does it through '
                       'curr_action_) stops/pauses/resumes it', floor=40)
    comps = [c for c in prog.derived_classes(AS)]
    serial = set(prog.derived_classes(SER))
    n = 0
    for cname in sorted(comps):
        c = prog.cls(cname)
        fields = [fd for fd in c['fields'] if 'tbox::flow::Action *' in fd['ct'] and fd['n'] not in NON_OWNING]
        for fd in fields:
            fq = cname + '::' + fd['n']
            n += 1
            short = cname.split('::')[-1] + '.' + fd['n']
            d = method(prog, cname, '~')
            g = refs_field(prog, d, fq) if d else None
            ctx.ob('C17.R1', '%s|delete' % short, bool(g) and any(st and st['k'] == 'CXXDeleteExpr' for h in prog.family(d) for st in h.stmts),
                   'destructor deletes the children held in %s' % fd['n'], where=d.loc(d.body) if d else None)
            rs = method(prog, cname, 'onReset')
            exempt = EXEMPT.get((cname.split('::')[-1], fd['n']), {})
            ctx.ob('C17.R1', '%s|reset' % short, ('reset' in exempt) or (bool(rs) and bool(refs_field(prog, rs, fq)) and calls_named(prog, rs, 'reset')),
                   'onReset() resets the children held in %s' % fd['n'], where=rs.loc(rs.body) if rs else None)
            # ... all of them: a loop over the container that resets children ranges over the whole container (a child that was started and not reset stays finished/stopped)
            if rs is not None and 'reset' not in exempt:
                for g_, c_ in call_sites_named(prog, rs, 'reset'):
                    lps = [st for st in g_.stmts if st and st['k'] in ('ForStmt', 'CXXForRangeStmt') and c_['i'] in set(g_.walk(st['i']))]
                    for lp in lps:
                        if lp['k'] == 'CXXForRangeStmt':
                            whole = (g_.field_of(lp['range']) or '') == fq
                            if (g_.field_of(lp['range']) or '') != fq:
                                continue
                        else:
                            if not any(g_.stmts[x]['k'] in q.CALL_KINDS and g_.stmts[x].get('fn') == 'size' and g_.stmts[x].get('obj') is not None and g_.field_of(g_.stmts[x]['obj']) == fq
                                       for x in g_.walk(lp['cond'])):
                                continue
                            is_sz = lambda sx, g_=g_: sx['k'] in q.CALL_KINDS and sx.get('fn') == 'size' and sx.get('obj') is not None and g_.field_of(sx['obj']) == fq
                            tr = q.loop_trips(g_, lp, is_sz)
                            # no other conjunct may cut the range short
                            others = [x for x in g_.walk(lp['cond']) if g_.stmts[x]['k'] == 'MemberExpr' and g_.stmts[x].get('mk') == 'field' and g_.stmts[x].get('q') != fq]
                            whole = tr is not None and all(tr[N] == (N, 0) for N in tr) and not others
                        ctx.ob('C17.R1', '%s|reset-all@%s' % (short, g_.short), whole, 'the reset loop ranges over the whole of %s' % fd['n'] if whole else
                               'the loop that resets the children of %s does not range over the whole container (its bound also depends on other state): a child that was started and '
                               'is skipped keeps its finished/stopped state — the reset composite does not behave like a fresh one' % fd['n'], where=g_.loc(lp['i']))
            rd_ = method(prog, cname, 'isReady')
            ctx.ob('C17.R1', '%s|ready' % short, bool(rd_) and bool(refs_field(prog, rd_, fq)),
                   'isReady() consults %s' % fd['n'], where=rd_.loc(rd_.body) if rd_ else None)
            # installers: every site that stores a child into the field must be accompanied, on its own branch, by
            # setParent + setFinishCallback + setBlockCallback
            nsites = 0
            staged = []
            for f in prog.methods_of(cname):
                if f.d.get('dtor') or f.short in ('onReset',):
                    continue
                sites = []
                for st in f.stmts:
                    if not st:
                        continue
                    if st['k'] == 'BinaryOperator' and st.get('op') == '=' and fq in q.subtree_fields(f, st['ch'][0]):
                        r_ = f.s(f.strip_casts(st['ch'][1]))
                        if r_['k'] not in ('CXXNullPtrLiteralExpr', 'GNUNullExpr'):
                            sites.append(st)
                    if st['k'] in q.CALL_KINDS and 'obj' in st and f.field_of(st['obj']) == fq and st.get('fn') in ('push_back', 'emplace_back', 'insert', 'emplace'):
                        # pushing an already-installed staging pair is not an installation
                        if not any((f.field_of(a) or '').startswith(cname + '::') for a in st.get('args', [])):
                            sites.append(st)
                        else:
                            staged.append(f.field_of(st['args'][0]))
                    if st['k'] == 'CXXOperatorCallExpr' and st.get('op') == '[]' and f.field_of(st.get('obj', -1)) == fq:
                        p_, _ = f.up(st['i'])
                        ps = f.s(p_)
                        if ps and ps['k'] == 'BinaryOperator' and ps.get('op') == '=' and f.strip_casts(ps['ch'][0]) == st['i']:
                            sites.append(st)
                for io in f.d.get('inits', ()):
                    if io.get('field') == fd['n'] and io.get('written') and f.s(f.strip_casts(io['init']))['k'] not in ('CXXNullPtrLiteralExpr', 'GNUNullExpr', 'ImplicitValueInitExpr', 'CXXConstructExpr', 'InitListExpr'):
                        sites.append(None)
                for w in sites:
                    nsites += 1
                    gw = set(q.lexical_guards(f, w['i'])) if w is not None else set()
                    have = []
                    for need in ('setParent', 'setFinishCallback', 'setBlockCallback'):
                        ok1 = False
                        for c_ in f.calls():
                            if c_.get('fn') == need:
                                gc = set(q.lexical_guards(f, c_['i']))
                                if gc <= gw or gw <= gc:
                                    ok1 = True
                        if ok1:
                            have.append(need)
                    ctx.ob('C17.R1', '%s|install@%s:%s' % (short, f.short, w['l'] - f.line if w is not None else 'ctor-init'), len(have) == 3,
                           'child stored with %s on the same branch' % have, where=f.loc(w['i']) if w is not None else f.loc(f.body))
            if nsites == 0:
                ctx.ob('C17.R1', '%s|install' % short, bool(staged), ('filled only from the staging field %s, whose own install sites are checked' % staged[0].split('::')[-1]) if staged else 'no site installs a child into %s' % fd['n'])
            if cname not in serial:
                for hook, act in (('onStop', 'stop'), ('onPause', 'pause'), ('onResume', 'resume')):
                    h = method(prog, cname, hook)
                    ok = bool(h) and bool(refs_field(prog, h, fq)) and calls_named(prog, h, act)
                    ctx.ob('C17.R1', '%s|%s' % (short, hook), ok, '%s() propagates %s() to %s' % (hook, act, fd['n']), where=h.loc(h.body) if h else None)
                    if hook == 'onStop' and ok:
                        # stopping is for every child that is under way — running *or paused*: the propagation must not be filtered by a "running" test on the child
                        for g_, c_ in call_sites_named(prog, h, 'stop'):
                            narrow = []
                            for cnd, k in [(c, k) for c, k, b in g_.cfg.controlling_branches(q.pt(g_, c_))]:
                                for x in g_.walk(cnd):
                                    sx = g_.stmts[x]
                                    if sx['k'] in q.CALL_KINDS and sx.get('fn') == 'isRunning':
                                        narrow.append(sx)
                                    if sx['k'] == 'DeclRefExpr' and (sx.get('n') or '').endswith('kRunning'):
                                        narrow.append(sx)
                            ctx.ob('C17.R1', '%s|stop-not-filtered@%s' % (short, g_.short), not narrow, 'stop() reaches the child whatever its state (the base gate decides)' if not narrow else
                                   'the stop propagation is filtered by a "running" test on the child (%s): a child that is paused (or blocked) when the composite is stopped is '
                                   'skipped — it stays paused for ever and its subtree never runs its final hooks' % g_.loc(narrow[0]['i']), where=g_.loc(c_['i']))
    ctx.stats['composites'] = len(comps)
    ctx.stats['child_fields'] = n
    # the serial base propagates through curr_action_
    for hook, act in (('onPause', 'pause'), ('onResume', 'resume'), ('onStop', 'stop')):
        h = method(prog, SER, hook, True)
        ok = bool(refs_field(prog, h, SER + '::curr_action_')) and calls_named(prog, h, act)
        ctx.ob('C17.R1', 'SerialAssembleAction.curr_action_|%s' % hook, ok, 'serial base %s() propagates %s() to the running child' % (hook, act), where=h.loc(h.body))


def r2(ctx, prog):
    ctx.rule('C17.R2', 'A4 must-call: every override of onStart/onPause/onResume/onStop/onReset/onBlock/onFinished calls its base-class version on every path', floor=25)
    classes = [A] + prog.derived_classes(A)
    n = 0
    for cname in classes:
        if cname == A:
            continue
        for f in prog.methods_of(cname):
            if f.short not in HOOKS or not f.d.get('overrides'):
                continue
            n += 1
            base_calls = [st for st in f.calls() if st.get('fn') == f.short and st.get('cls') != cname and not st.get('virt', False) or
                          (st.get('fn') == f.short and st.get('cls') != cname and ('obj' not in st or f.path(st['obj']) == 'this'))]
            base_calls = [st for st in base_calls if st.get('cls') in classes]
            ok = bool(base_calls) and not f.cfg.exists_path(f.cfg.entry_point(), 'exit', avoid=q.pts(f, base_calls))
            ctx.ob('C17.R2', '%s|base-call' % f.name, ok, 'calls %s::%s on every path' % (base_calls[0].get('cls', '?').split('::')[-1], f.short) if ok else
                   'some path through %s does not call the base-class %s (the framework only warns at run time; the base hook queues notifications / updates state)' % (f.name, f.short),
                   where=f.loc(f.body))
    if n < 25:
        raise AnalysisBroken('expected >=25 hook overrides, found %d' % n)


def r3(ctx, prog):
    ctx.rule('C17.R3', 'A6+A12: finish/block notifications are only ever posted as cancellable deferred tasks (ids kept), and every way of leaving a run — '
                       'stop, reset, destructor — cancels both', floor=8)
    for cbf, idf in (('finish_cb_', 'finish_cb_run_id_'), ('block_cb_', 'block_cb_run_id_')):
        for f in prog.funcs.values():
            if not f.file.startswith(MODULES + '/flow/'):
                continue
            for st in f.stmts:
                if st and st['k'] == 'MemberExpr' and st.get('q') == A + '::' + cbf:
                    # classify the use
                    use = 'other'
                    for a in f.ancestors(st['i']):
                        sa = f.stmts[a]
                        if sa['k'] == 'CXXOperatorCallExpr' and sa.get('op') == '()' and f.strip_casts(sa.get('obj', -1)) == st['i']:
                            use = 'invoke'
                            break
                        if sa['k'] == 'CXXOperatorCallExpr' and sa.get('op') == '=' and f.strip_casts(sa.get('obj', -1)) == st['i']:
                            use = 'assign'
                            break
                        if sa['k'] in q.CALL_KINDS and sa.get('callee', '').startswith('std::bind'):
                            use = 'bind'
                            break
                        if sa['k'] in ('IfStmt',) or (sa['k'] in q.CALL_KINDS and sa.get('fn') == 'operator bool'):
                            use = 'test'
                            break
                    if use == 'bind':
                        # the bind flows into Loop::runNext whose id is stored
                        okb = False
                        for a in f.ancestors(st['i']):
                            sa = f.stmts[a]
                            if sa['k'] in q.CALL_KINDS and sa.get('fn') == 'runNext':
                                p_, _ = f.up(a)
                                ps = f.s(p_)
                                okb = ps is not None and ps['k'] == 'BinaryOperator' and ps.get('op') == '=' and (f.field_of(ps['ch'][0]) or '').endswith(idf)
                        ctx.ob('C17.R3', '%s|%s-posted' % (f.name, cbf), okb, '%s is bound into loop_.runNext and the returned id is stored in %s' % (cbf, idf), where=f.loc(st['i']))
                    else:
                        ctx.ob('C17.R3', '%s|%s-%s' % (f.name, cbf, use), use in ('assign', 'test'),
                               '%s %s' % (cbf, {'assign': 'is set', 'test': 'is tested', 'invoke': 'is invoked directly (not cancellable, re-enters the parent)', 'other': 'used in an unrecognised way'}[use]), where=f.loc(st['i']))
    cd = prog.fn1(A + '::cancelDispatchedCallback')
    for idf in ('finish_cb_run_id_', 'block_cb_run_id_'):
        canc = [st for st in cd.calls() if st.get('fn') == 'cancel' and st.get('args') and (cd.field_of(st['args'][0]) or '').endswith(idf)]
        zero = [a for a, rhs in q.assigns(cd, 'Action::' + idf) if cd.s(cd.strip_casts(rhs)).get('cv') == 0]
        ctx.ob('C17.R3', '%s|cancels-%s' % (cd.name, idf), bool(canc) and bool(zero), 'cancelDispatchedCallback cancels and clears %s' % idf, where=cd.loc(cd.body))
    for name in ('stop', 'reset', '~'):
        f = method(prog, A, name, True)
        cs = q.calls(f, callee=A + '::cancelDispatchedCallback')
        ok = bool(cs)
        if ok and name != '~':
            # on every path that leaves the run (after the early-return gate)
            gate_rets = [r for r in q.returns(f) if f.cfg.dominates(q.pt(f, r), q.pt(f, r))]
            hooks = [st for st in f.calls() if st.get('fn') in ('onStop', 'onReset')]
            ok = all(q.must_follow(f, q.pt(f, h), q.pts(f, cs)) or any(f.cfg.dominates(q.pt(f, c), q.pt(f, h)) for c in cs) for h in hooks) and bool(hooks)
        ctx.ob('C17.R3', '%s|cancels' % f.name, ok,
               '%s cancels the queued notifications' % f.short if ok else '%s leaves queued finish/block notifications alive: a stopped/reset action still delivers them' % f.short, where=f.loc(f.body))


def r4(ctx, prog):
    ctx.rule('C17.R4', 'A4 base lifecycle gates: every control method tests state_ before its hook; finish/block are rejected once finished/stopped; '
                       'stop and finish run onFinal exactly once after the hook; reset restores state_ and result_', floor=9)
    gates = {'start': 'onStart', 'pause': 'onPause', 'resume': 'onResume', 'stop': 'onStop', 'finish': 'onFinished', 'block': 'onBlock', 'reset': 'onReset'}
    for m, hook in gates.items():
        f = method(prog, A, m, True)
        hs = [st for st in f.calls() if st.get('fn') == hook]
        if len(hs) != 1:
            ctx.ob('C17.R4', '%s|hook' % f.name, False, 'expected one %s() call, found %d' % (hook, len(hs)), where=f.loc(f.body))
            continue
        g = f.cfg.controlling_branches(q.pt(f, hs[0]))
        ok = any(any(x.endswith('Action::state_') for x in q.subtree_fields(f, c)) or any(c2.get('fn') == 'isUnderway' for c2 in q.subtree_calls(f, c)) for c, k, b in g)
        ctx.ob('C17.R4', '%s|gated' % f.name, ok and not f.cfg.exists_path(q.pt(f, hs[0]), q.pt(f, hs[0])), '%s() runs once behind a state_ test' % hook, where=f.loc(hs[0]['i']))
    for m in ('finish', 'block'):
        f = method(prog, A, m, True)
        h = [st for st in f.calls() if st.get('fn') == gates[m]][0]
        consts = set()
        for c, br in q.lexical_guards(f, h['i']):
            for x in f.walk(c):
                sx = f.stmts[x]
                if sx['k'] == 'DeclRefExpr' and sx.get('dk') == 'EnumConstant':
                    consts.add(sx['n'])
        ctx.ob('C17.R4', '%s|rejected-when-done' % f.name, {'kFinished', 'kStoped'} <= consts, 'guard excludes %s' % sorted(consts), where=f.loc(h['i']))
    for m in ('stop', 'finish'):
        f = method(prog, A, m, True)
        fin = [st for st in f.calls() if st.get('fn') == 'onFinal']
        h = [st for st in f.calls() if st.get('fn') == gates[m]][0]
        ok = len(fin) == 1 and f.cfg.dominates(q.pt(f, h), q.pt(f, fin[0])) and q.must_follow(f, q.pt(f, h), q.pts(f, fin)) and not f.cfg.exists_path(q.pt(f, fin[0]), q.pt(f, fin[0]))
        ctx.ob('C17.R4', '%s|final-once' % f.name, ok, 'onFinal() runs exactly once, after %s()' % gates[m], where=f.loc(f.body))
        sts = [a for a, rhs in q.assigns(f, 'Action::state_')]
        ctx.ob('C17.R4', '%s|state-first' % f.name, bool(sts) and all(f.cfg.dominates(q.pt(f, a), q.pt(f, h)) for a in sts), 'state_ is updated before the hook (re-entrant calls see the new state)', where=f.loc(f.body))
    r = method(prog, A, 'reset', True)
    s1 = [a for a, rhs in q.assigns(r, 'Action::state_') if r.s(r.strip_casts(rhs)).get('n') == 'kIdle']
    s2 = [a for a, rhs in q.assigns(r, 'Action::result_') if r.s(r.strip_casts(rhs)).get('n') == 'kUnsure']
    ctx.ob('C17.R4', '%s|restores' % r.name, bool(s1) and bool(s2), 'reset() restores state_ = kIdle and result_ = kUnsure', where=r.loc(r.body))


def finish_handlers(prog):
    """(class, handler Func) for every method bound as a child's finish callback"""
    out = []
    for f in prog.funcs.values():
        if not f.file.startswith(MODULES + '/flow/actions/'):
            continue
        for st in f.calls():
            if st.get('fn') == 'setFinishCallback':
                for x in f.walk(st['args'][0]) if st.get('args') else ():
                    sx = f.stmts[x]
                    if sx['k'] == 'DeclRefExpr' and sx.get('dk') == 'CXXMethod':
                        for h in prog.by_usr.get(sx.get('usr'), ()):
                            out.append(h)
                    if sx['k'] == 'LambdaExpr':
                        lf = prog.lambda_func(f, sx)
                        if lf:
                            out.append(lf)
    uniq = {}
    for h in out:
        uniq[h.key] = h
    return list(uniq.values())


def r5(ctx, prog):
    ctx.rule('C17.R5', 'A4: serial composites hold a child\'s result back while paused: every child-finished handler of a serial composite first goes '
                       'through handleChildFinishEvent()/onLastChildFinished(); resume replays the held function through the loop; stop/reset drop it', floor=8)
    serial = set(prog.derived_classes(SER)) | {SER}
    n = 0
    for h in finish_handlers(prog):
        top = prog.outermost(h)
        if top.cls not in serial:
            continue
        n += 1
        gate = [st for st in h.calls() if st.get('fn') in ('handleChildFinishEvent', 'onLastChildFinished')]
        acts = [st for st in h.calls() if st.get('fn') in ('finish', 'startThisAction', 'start', 'reset', 'block') and st not in gate and
                not any(st['i'] in set(h.walk(g['i'])) for g in gate)]
        ok = bool(gate) or top.short == 'onLastChildFinished'
        if ok and gate and gate[0]['fn'] == 'handleChildFinishEvent':
            gp = q.pt(h, gate[0])
            for a in acts:
                gs = [(c, k) for c, k, b in h.cfg.controlling_branches(q.pt(h, a)) if gate[0]['i'] in set(h.walk(c))]
                ok = ok and any(k == 1 for c, k in gs)
        ctx.ob('C17.R5', '%s|held-back' % locks.site_name(prog, h), ok,
               'handler acts only after handleChildFinishEvent() returned false / delegates to onLastChildFinished()' if ok else
               'a child-finished handler of a serial composite acts without consulting handleChildFinishEvent(): a child result arriving while paused is processed instead of held', where=h.loc(h.body))
    if n < 6:
        raise AnalysisBroken('expected >=6 child-finished handlers in serial composites, found %d' % n)
    hc = method(prog, SER, 'handleChildFinishEvent', True)
    st_ = [a for a, rhs in q.assigns(hc, 'SerialAssembleAction::child_finish_func_')]
    ok = bool(st_) and any(any(c2.get('fn') == 'state' for c2 in q.subtree_calls(hc, c)) for a in st_ for c, k, b in hc.cfg.controlling_branches(q.pt(hc, a)))
    ctx.ob('C17.R5', '%s|stores-when-paused' % hc.name, ok, 'the child result is stored when the composite is paused', where=hc.loc(hc.body))
    # "go on, it is yours" (false) is answered only while the composite is running: in every other state — stopped, finished, idle — the child's result is dropped
    for r in q.returns(hc):
        if q.return_const(hc, r) != 0:
            continue
        run_edge = False
        for c, k, b in hc.cfg.controlling_branches(q.pt_or_term(hc, r)):
            for l, o, rr in q.edge_rels(hc, c, k):
                if l.endswith('state()') and o == '==' and rr.endswith('kRunning'):
                    run_edge = True
        ctx.ob('C17.R5', '%s|acts-only-when-running@%s' % (hc.name, hc.loc(r['i']).split(':')[-1]), run_edge, 'the handler is told to act only under state() == kRunning' if run_edge else
               'handleChildFinishEvent() answers "not held back" without having established state() == kRunning: the result of a child that finished just before stop() (or after the '
               'composite ended) is acted on — the next child or branch is started under a stopped parent', where=hc.loc(r['i']))
    lc = method(prog, SER, 'onLastChildFinished', True)
    fins = [c for c in lc.calls() if c.get('fn') == 'finish' and lc is prog.outermost(lc)]
    for c in fins:
        run_edge = any(l.endswith('state()') and o == '==' and rr.endswith('kRunning') for cnd, k, b in lc.cfg.controlling_branches(q.pt(lc, c)) for l, o, rr in q.edge_rels(lc, cnd, k)) or \
            any(k == 1 and any(x.get('fn') == 'handleChildFinishEvent' for x in q.subtree_calls(lc, cnd)) for cnd, k, b in lc.cfg.controlling_branches(q.pt(lc, c)))
        ctx.ob('C17.R5', '%s|finishes-only-when-running' % lc.name, run_edge, 'onLastChildFinished finishes the composite only while it is running (or behind the held-back test)',
               where=lc.loc(c['i']))
    rs = method(prog, SER, 'onResume', True)
    rn = [st for st in rs.calls() if st.get('fn') == 'runNext' and any((rs.field_of(x) or '').endswith('child_finish_func_') for a in st.get('args', []) for x in rs.walk(a))]
    ctx.ob('C17.R5', '%s|replays' % rs.name, bool(rn), 'onResume() replays the held child result through loop_.runNext', where=rs.loc(rs.body))
    for hook in ('onStop', 'onReset'):
        f = method(prog, SER, hook, True)
        clr = [a for a, rhs in q.assigns(f, 'SerialAssembleAction::child_finish_func_')]
        ctx.ob('C17.R5', '%s|drops' % f.name, bool(clr), '%s() drops a held child result' % hook, where=f.loc(f.body))


def reporter_fields(prog, handler):
    """fields of the handler's class whose child reports its finish to `handler`"""
    out = set()
    for f in prog.methods_of(handler.cls):
        for s2 in f.calls():
            if s2.get('fn') != 'setFinishCallback' or 'obj' not in s2 or not s2.get('args'):
                continue
            if not any(f.stmts[x].get('usr') == handler.usr for x in f.walk(s2['args'][0]) if f.stmts[x]['k'] == 'DeclRefExpr'):
                continue
            o = f.s(f.strip_casts(s2['obj']))
            fq = f.field_of(s2['obj'])
            if fq:
                out.add(fq.split('::')[-1])
                continue
            if o and o['k'] == 'DeclRefExpr':
                blk = f.enclosing(s2['i'], ('CompoundStmt',))
                for st in f.stmts:
                    if st and st['k'] == 'BinaryOperator' and st.get('op') == '=' and blk is not None and st['i'] in set(f.walk(blk)):
                        r_ = f.s(f.strip_casts(st['ch'][1]))
                        if r_ and r_['k'] == 'DeclRefExpr' and r_.get('d') == o.get('d') and f.field_of(st['ch'][0]):
                            out.add(f.path(st['ch'][0]))
    return out


def r6(ctx, prog):
    ctx.rule('C17.R6', 'A4: no restart of a child that is under way: serial composites start children only through startThisAction(); a handler that '
                       're-runs the child it just heard from resets it first', floor=3)
    serial = set(prog.derived_classes(SER))
    n = 0
    for cname in sorted(serial):
        for f in prog.methods_of(cname):
            for g in prog.family(f):
                for st in g.calls():
                    if st.get('fn') == 'start' and st.get('cls') == A and 'obj' in st and g.path(st['obj']) != 'this':
                        n += 1
                        ctx.ob('C17.R6', '%s|direct-start' % locks.site_name(prog, g), False, 'serial composite starts a child directly (bypassing curr_action_ bookkeeping)', where=g.loc(st['i']))
    for h in finish_handlers(prog):
        top = prog.outermost(h)
        if top.cls not in serial:
            continue
        c = prog.cls(top.cls)
        single = [fd['n'] for fd in c['fields'] if fd['ct'] == 'tbox::flow::Action *' and fd['n'] not in NON_OWNING]
        for st in h.calls():
            if st.get('fn') == 'startThisAction' and st.get('args'):
                tgt = h.path(st['args'][0])
                reporters = reporter_fields(prog, top)
                if tgt in single and tgt in reporters:
                    n += 1
                    resets = [s3 for s3 in h.calls() if s3.get('fn') == 'reset' and 'obj' in s3 and h.path(s3['obj']) == tgt]
                    ok = bool(resets) and not h.cfg.exists_path(h.cfg.entry_point(), q.pt(h, st), avoid=q.pts(h, resets))
                    ctx.ob('C17.R6', '%s|reset-before-rerun:%s' % (locks.site_name(prog, h), tgt), ok,
                           '%s is reset on every path before it is started again' % tgt if ok else '%s is started again from its own finish handler without a reset' % tgt, where=h.loc(st['i']))
    st_ = method(prog, SER, 'startThisAction', True)
    ok = any(s.get('fn') == 'start' for s in st_.calls()) and bool(q.assigns(st_, 'SerialAssembleAction::curr_action_'))
    ctx.ob('C17.R6', '%s|tracks' % st_.name, ok, 'startThisAction() starts the child and records it as curr_action_', where=st_.loc(st_.body))
    ctx.stats['rerun_sites'] = n


def r7(ctx, prog):
    ctx.rule('C17.R7', 'A4 replay fidelity: the function a serial composite stores while paused re-enters the same handler with the arguments the handler '
                       'was given — the closure calls the enclosing handler with its own parameters, and nothing on the way to the held-back test assigns a '
                       'parameter or one of the composite\'s own fields (a replay would apply it a second time)', floor=8)
    serial = set(prog.derived_classes(SER)) | {SER}
    n = 0
    for h in finish_handlers(prog):
        top = prog.outermost(h)
        if top.cls not in serial:
            continue
        gates = [st for st in h.calls() if st.get('fn') == 'handleChildFinishEvent']
        for gate in gates:
            n += 1
            gp = q.pt(h, gate)
            pids = {p_['d']: (i, p_['n']) for i, p_ in enumerate(h.params)}
            bad = []
            lam = [h.stmts[x] for a in gate.get('args', []) for x in h.walk(a) if h.stmts[x]['k'] == 'LambdaExpr']
            lf = prog.lambda_func(h, lam[0]) if lam else None
            if lf is None:
                bad.append('the stored function is not a closure over this handler')
            else:
                rec = [c for c in lf.calls() if c.get('usr') == h.usr]
                if not rec:
                    bad.append('the stored closure does not call %s again' % h.short)
                for c in rec:
                    for i, a in enumerate(c.get('args', [])):
                        x = lf.s(lf.strip_casts(a))
                        if not (x and x['k'] == 'DeclRefExpr' and x.get('d') in pids and pids[x['d']][0] == i):
                            bad.append('argument %d of the replayed call is %s, not the handler\'s own parameter' % (i + 1, lf.path(a)))
            # nothing is applied before the held-back test
            for st in h.stmts:
                if not st:
                    continue
                lhs = None
                if st['k'] in ('BinaryOperator', 'CompoundAssignOperator') and st.get('op', '').endswith('=') and st['op'] not in ('==', '!=', '<=', '>='):
                    lhs = st['ch'][0]
                elif st['k'] == 'UnaryOperator' and st.get('op') in ('++', '--'):
                    lhs = st['ch'][0]
                elif st['k'] == 'CXXOperatorCallExpr' and st.get('op') in ('=', '+=', '-=', '++', '--') and st.get('obj') is not None:
                    lhs = st['obj']
                if lhs is None:
                    continue
                sp = q.pt_or_term(h, st)
                if sp is None or gp is None or sp == gp or not h.cfg.exists_path(sp, gp):
                    continue
                if any(st['i'] in set(h.walk(a)) for a in gate.get('args', [])):
                    continue
                x = h.s(h.strip_casts(lhs))
                if st['k'] == 'BinaryOperator' and st.get('op') == '=' and (h.s(st['ch'][1]) or {}).get('cv') is not None:
                    continue        # a constant: applying it twice is applying it once
                if x and x['k'] == 'DeclRefExpr' and x.get('d') in pids:
                    bad.append('parameter %s is reassigned at %s before handleChildFinishEvent(): the stored closure captures the changed value and the replay through %s '
                               'changes it again' % (x['n'], h.loc(st['i']), h.short))
                elif h.field_of(lhs):
                    bad.append('%s is modified at %s before handleChildFinishEvent(): a held-back result applies it once now and once on replay' % (h.path(lhs), h.loc(st['i'])))
            ctx.ob('C17.R7', '%s|replay' % locks.site_name(prog, h), not bad, 'the held-back function replays the handler with its original arguments' if not bad else '; '.join(bad[:3]),
                   where=h.loc(gate['i']))
    if n < 8:
        raise AnalysisBroken('expected >= 8 held-back tests in serial composites, found %d' % n)


def r8(ctx, prog):
    ctx.rule('C17.R8', 'A12 fresh-run timeout: every run is armed with the configured time-out — timer_ev_ is programmed (initialize) only with the value given to '
                       'setTimeout(), or, where another interval is ever programmed, start()/reset() programs the configured one again before the timer is enabled', floor=1)
    st_f = method(prog, A, 'setTimeout', True)
    cfg_param = {p_['d'] for p_ in st_f.params}
    # fields that only ever hold the configured value
    cfg_fields = set()
    for fld in (x.split('::')[-1] for x in locks.class_fields(prog, A)):
        asg = [(f, a, rhs) for f in prog.methods_of(A) for a, rhs in q.assigns(f, 'Action::' + fld)]
        if asg and all(f is st_f and (st_f.s(st_f.strip_casts(rhs)) or {}).get('d') in cfg_param for f, a, rhs in asg):
            cfg_fields.add(fld)
    sites = []
    for f in prog.methods_of(A):
        for c in f.calls():
            if c.get('fn') == 'initialize' and c.get('obj') is not None and (f.field_of(c['obj']) or '').endswith('timer_ev_'):
                a0 = f.s(f.strip_casts(c['args'][0])) if c.get('args') else None
                while a0 is not None and a0['k'] in ('CXXConstructExpr', 'MaterializeTemporaryExpr', 'CXXBindTemporaryExpr') and a0.get('ch'):
                    a0 = f.s(f.strip_casts(a0['ch'][0]))
                conf = bool(a0) and ((f is st_f and a0['k'] == 'DeclRefExpr' and a0.get('d') in cfg_param) or
                                     ((f.field_of(a0['i']) or '').split('::')[-1] in cfg_fields))
                sites.append((f, c, conf))
    if not sites:
        raise AnalysisBroken('Action: no timer_ev_->initialize() site found')
    foreign = [(f, c) for f, c, conf in sites if not conf]
    ok, why = True, 'timer_ev_ is programmed at %d site(s), each with the configured time-out' % len(sites)
    if foreign:
        def reprograms(name):
            g = method(prog, A, name, True)
            ens = [c for c in g.calls() if c.get('fn') == 'enable' and c.get('obj') is not None and (g.field_of(c['obj']) or '').endswith('timer_ev_')]
            ins = [q.pt(g, c) for f, c, conf in sites if conf and f is g]
            return ens, ins, g
        ens, ins, g = reprograms('start')
        rg = method(prog, A, 'reset', True)
        rins = [q.pt(rg, c) for f, c, conf in sites if conf and f is rg]
        in_start = bool(ens) and all(any(g.cfg.dominates(i, q.pt(g, e)) for i in ins) for e in ens)
        in_reset = any(rg.cfg.postdominates(i, rg.cfg.entry_point()) for i in rins)      # on every path through reset()
        ok = in_start or in_reset
        f0, c0 = foreign[0]
        why = ('%s programs another interval, and start() programs the configured one before enabling' % f0.short) if ok else \
              ('%s() programs timer_ev_ with %s (%s), which is not the configured time-out, and neither start() nor reset() programs the configured value again: '
               'the next run of a reset action is armed with the leftover interval, so it does not behave like a fresh one'
               % (f0.short, f0.path(c0['args'][0]) if c0.get('args') else '?', f0.loc(c0['i'])))
    ctx.ob('C17.R8', 'Action|timer-interval', ok, why, where=(foreign[0][0].loc(foreign[0][1]['i']) if foreign else st_f.loc(st_f.body)))


def r9(ctx, prog):
    ctx.rule('C17.R9', 'A12 leaf resource matrix: an action that arms an event of its own (a TimerEvent/FdEvent member it enable()s) disarms it on every way a run can be '
             'left or suspended — for each of Action::stop(), reset() and pause(), one of the hooks that base method calls (read from its body) is overridden by the '
             'class and disables the event on every path. reset() does not pass through onFinal(), so a disarm there alone leaves a reset action with a live timer', floor=3)
    base_hooks = {}
    for m in ('stop', 'reset', 'pause'):
        bm = method(prog, A, m, True)
        base_hooks[m] = sorted({c.get('fn') for c in bm.calls() if (c.get('fn') or '').startswith('on') and c.get('virt')} |
                               {c.get('fn') for c in bm.calls() if (c.get('fn') or '') in HOOKS + ('onFinal',)})
        if not base_hooks[m]:
            raise AnalysisBroken('Action::%s calls no hook' % m)
    n = 0
    for cls in prog.derived_classes(A):
        ms = prog.methods_of(cls)
        armed = {}
        for g in ms:
            for c in g.calls():
                if c.get('fn') == 'enable' and c.get('obj') is not None and g.field_of(c['obj']) and 'Event' in ((g.s(c['obj']) or {}).get('ct') or (g.s(c['obj']) or {}).get('t') or ''):
                    fq = g.field_of(c['obj'])
                    if fq.startswith(cls + '::'):
                        armed.setdefault(fq, g)
        for fq in sorted(armed):
            for m in ('stop', 'reset', 'pause'):
                n += 1
                done = None
                for h in base_hooks[m]:
                    ov = [g for g in ms if g.short == h]
                    for g in ov:
                        ds = [c for c in g.calls() if c.get('fn') == 'disable' and c.get('obj') is not None and g.field_of(c['obj']) == fq]
                        if ds and not g.cfg.exists_path(g.cfg.entry_point(), 'exit', avoid=q.pts(g, ds), src_inclusive=True):
                            done = h
                ctx.ob('C17.R9', '%s|%s|%s()' % (cls.split('::')[-1], fq.split('::')[-1], m), done is not None,
                       '%s() reaches %s, which disables %s' % (m, done, fq.split('::')[-1]) if done else
                       'Action::%s() calls only %s, and %s overrides none of them with a disable of %s (armed in %s): after %s() the event is still live — it fires into an '
                       'action that is idle/stopped/paused, which then reports a finish of its own accord' % (m, '/'.join(base_hooks[m]), cls.split('::')[-1], fq.split('::')[-1],
                                                                                                          armed[fq].short, m), where=armed[fq].loc(armed[fq].body))
    if n < 3:
        raise AnalysisBroken('expected >= 1 leaf action with an event of its own (3 obligations), found %d obligations' % n)


def r10(ctx, prog):
    ctx.rule('C17.R10', 'A10 child index ranges by folding: where a composite reads children_.at(i) / table[i] behind a comparison of i with the container\'s size, the guards in '
             'force — folded over a grid of (i, size) — admit only i < size, so the composite finishes after its last child instead of indexing one past it; loops that '
             'start or visit every child run exactly size times from 0', floor=4)
    n = 0
    for f in prog.funcs.values():
        if not f.file.startswith(MODULES + '/flow/') or f.file.endswith('_test.cpp'):
            continue
        for c in f.calls():
            if not (c.get('fn') in ('at', 'operator[]') and c.get('obj') is not None and c.get('args')):
                continue
            cont = f.field_of(c['obj'])
            if not cont or not ('std::vector' in (c.get('cls') or '') or 'std::deque' in (c.get('cls') or '') or 'std::array' in (c.get('cls') or '')):
                continue
            ix = f.s(f.strip_casts(c['args'][0]))
            if ix is None or ix['k'] not in ('DeclRefExpr', 'MemberExpr') or ix.get('cv') is not None:
                continue
            iname = ix.get('n')
            is_i = lambda sx, iname=iname: sx['k'] in ('DeclRefExpr', 'MemberExpr') and sx.get('n') == iname
            is_sz = lambda sx, cont=cont: sx['k'] in q.CALL_KINDS and sx.get('fn') == 'size' and sx.get('obj') is not None and f.field_of(sx['obj']) == cont
            conds = [(cd, k) for cd, k, b in f.cfg.controlling_branches(q.pt(f, c)) if any(is_i(f.stmts[x]) for x in f.walk(cd)) and any(is_sz(f.stmts[x]) for x in f.walk(cd))]
            if not conds:
                continue
            n += 1
            bad = None
            for size in range(0, 4):
                for i in range(0, 5):
                    holds = True
                    for cd, k in conds:
                        v = q.eval_expr(f, cd, lambda sx, i=i, size=size: i if is_i(sx) else (size if is_sz(sx) else None))
                        if v is None:
                            holds = None
                            break
                        if bool(v) != (k == 0):
                            holds = False
                            break
                    if holds and i >= size and bad is None:
                        bad = (i, size)
            ctx.ob('C17.R10', '%s|%s[%s]@%s' % (locks.site_name(prog, f), cont.split('::')[-1], iname, f.loc(c['i']).split(':')[-1]), bad is None,
                   'the guards admit only %s < size' % iname if bad is None else
                   'the guards in front of %s.at(%s) let %s == %d through with %d element(s): after the last child the composite indexes one past the end (at() throws) instead '
                   'of finishing' % (cont.split('::')[-1], iname, iname, bad[0], bad[1]), where=f.loc(c['i']))
        # loops over all children
        for lp in [st for st in f.stmts if st and st['k'] == 'ForStmt' and st.get('cond') is not None]:
            szs = [f.stmts[x] for x in f.walk(lp['cond']) if f.stmts[x]['k'] in q.CALL_KINDS and f.stmts[x].get('fn') == 'size' and f.stmts[x].get('obj') is not None and f.field_of(f.stmts[x]['obj'])]
            if not szs:
                continue
            cont = f.field_of(szs[0]['obj'])
            tr = q.loop_trips(f, lp, lambda sx, cont=cont: sx['k'] in q.CALL_KINDS and sx.get('fn') == 'size' and sx.get('obj') is not None and f.field_of(sx['obj']) == cont)
            if tr is None:
                continue
            n += 1
            okw = all(tr[N] == (N, 0) for N in tr)
            wit = next(((N, tr[N]) for N in tr if tr[N] != (N, 0)), None)
            ctx.ob('C17.R10', '%s|for-each-%s@%s' % (locks.site_name(prog, f), cont.split('::')[-1], f.loc(lp['i']).split(':')[-1]), okw, 'visits elements 0..size-1, each once' if okw else
                   'the loop over %s does not visit exactly 0..size-1 (for %d element(s) it runs %d time(s) from index %d): a child is never started, or one past the end is touched'
                   % (cont.split('::')[-1], wit[0], wit[1][0], wit[1][1]), where=f.loc(lp['i']))
    # RepeatAction: the count-down replayed — with repeat_times_ == t the child is started exactly t times
    RP = 'tbox::flow::RepeatAction'
    st_ = method(prog, RP, 'onStart', True)
    fin = method(prog, RP, 'onChildFinished', True)
    ini = [(a, rhs) for a, rhs in q.assigns(st_, 'RepeatAction::remain_times_')]
    dec = [x for x in fin.stmts if x and x['k'] == 'UnaryOperator' and x.get('op') == '--' and (fin.field_of(x['ch'][0]) or '').endswith('::remain_times_')]
    if len(ini) != 1 or len(dec) != 1:
        raise AnalysisBroken('RepeatAction: remain_times_ initialisation / count-down not found (%d/%d)' % (len(ini), len(dec)))
    rem = lambda sx: sx['k'] == 'MemberExpr' and sx.get('n') == 'remain_times_'
    conds = [(c, k) for c, k, b in fin.cfg.controlling_branches(q.pt_or_term(fin, dec[0])) if any(rem(fin.stmts[x]) for x in fin.walk(c))]
    res = {}
    for t in range(1, 5):
        r = q.eval_expr(st_, ini[0][1], lambda sx, t=t: t if (sx['k'] == 'MemberExpr' and sx.get('n') == 'repeat_times_') else None)
        starts = 1
        while r is not None and starts < 12:
            again = all((bool(q.eval_expr(fin, c, lambda sx, r=r: r if rem(sx) else None)) == (k == 0)) for c, k in conds) if conds else False
            if not again:
                break
            starts += 1
            r -= 1
            if r < 0:
                starts = 99
                break
        res[t] = starts if r is not None else None
    okr = all(res[t] == t for t in res)
    n += 1
    ctx.ob('C17.R10', 'RepeatAction|count-down', okr, 'a RepeatAction of t times starts its child exactly t times (t = 1..4 replayed)' if okr else
           'replaying remain_times_ gives child starts %s for repeat_times_ 1..4 (99 = the counter wraps below zero): the documented number of repetitions is off by one' % res,
           where=fin.loc(dec[0]['i']))
    if n < 4:
        raise AnalysisBroken('expected >= 4 guarded child look-ups / child loops in the flow module, found %d' % n)


def run(ctx):
    prog = extract('ALL' if ctx.tier == 'thorough' else scope_units())
    ctx.guard(r1, ctx, prog)
    ctx.guard(r2, ctx, prog)
    ctx.guard(r3, ctx, prog)
    ctx.guard(r4, ctx, prog)
    ctx.guard(r5, ctx, prog)
    ctx.guard(r6, ctx, prog)
    ctx.guard(r7, ctx, prog)
    ctx.guard(r8, ctx, prog)
    ctx.guard(r9, ctx, prog)
    ctx.guard(r10, ctx, prog)
    from rules import C17_replay
    ctx.guard(C17_replay.r11, ctx, prog)
    return prog
