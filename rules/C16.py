"""C16 — hierarchical state machine (DESIGN §4 C16)."""
from tbxlint.facts import extract, AnalysisBroken
from tbxlint import locks, q

I = 'tbox::flow::StateMachine::Impl'
SCOPE = ['flow/state_machine.cpp']
STATE_VARS = ('is_running_', 'curr_state_', 'last_state_', 'next_state_')


def impl_funcs(prog):
    return [f for f in prog.funcs.values() if (prog.outermost(f).cls or '') == I]


def depth_map(prog, f, entry_depth=0):
    """abstract re-entrancy counter: depth before each point (min over joins), +1 at ++cb_level_, -1 at --cb_level_"""
    def transfer(pt, e, d):
        if e[0] != 'S':
            return d
        st = f.stmts[e[1]]
        if st['k'] == 'UnaryOperator' and st.get('op') in ('++', '--') and (f.field_of(st['ch'][0]) or '').endswith('Impl::cb_level_'):
            return d + (1 if st['op'] == '++' else -1)
        return d
    inn, before = f.cfg.forward(entry_depth, transfer, min)
    return inn, before


def user_invokes(f):
    return [st for st in q.invokes(f)]


def r1(ctx, prog):
    ctx.rule('C16.R1', 'A4+A6 re-entrancy: every user function (enter/exit/route action, guard, event handler, state-changed callback) is invoked with the '
                       're-entrancy counter raised and the counter is balanced at every exit; start/stop/run test it and return before writing any state', floor=10)
    n = 0
    for f in impl_funcs(prog):
        if f.parent_func is not None:
            continue
        inn, before = depth_map(prog, f)
        fam = [(f, before, inn)]
        # lambdas passed to std algorithms run synchronously at the depth of the call
        for st in f.stmts:
            if st and st['k'] == 'LambdaExpr':
                lam = prog.lambda_func(f, st)
                call = f.enclosing(st['i'], q.CALL_KINDS)
                if lam and call is not None and f.stmts[call].get('callee', '').startswith('std::'):
                    d0 = before.get(f.cfg.point_of(call), 0)
                    li, lb = depth_map(prog, lam, d0)
                    fam.append((lam, lb, li))
        for g, bef, inn_ in fam:
            for iv in user_invokes(g):
                n += 1
                d = bef.get(q.pt(g, iv))
                what = g.path(iv['obj']) if 'obj' in iv else g.path(iv.get('calleeexpr'))
                ctx.ob('C16.R1', '%s|invoke:%s' % (f.name, what.split('.')[-1]), d is not None and d >= 1,
                       '%s invoked with cb_level_ raised (depth %s)' % (what, d) if d is not None and d >= 1 else '%s is invoked outside the ++cb_level_/--cb_level_ bracket: calls made from it are not rejected' % what,
                       where=g.loc(iv['i']))
        ex = inn.get(f.cfg.exit)
        if any(st and st['k'] == 'UnaryOperator' and (f.field_of(st['ch'][0]) or '').endswith('Impl::cb_level_') for st in f.stmts):
            ctx.ob('C16.R1', '%s|balanced' % f.name, ex == 0, 'counter balanced on every path to the exit' if ex == 0 else
                   'some path reaches the exit with cb_level_ at %s relative to entry' % ex, where=f.loc(f.body))
            # and not over-raised: max depth at exit also 0
            def tr(pt, e, d):
                if e[0] != 'S':
                    return d
                st = f.stmts[e[1]]
                if st['k'] == 'UnaryOperator' and st.get('op') in ('++', '--') and (f.field_of(st['ch'][0]) or '').endswith('Impl::cb_level_'):
                    return d + (1 if st['op'] == '++' else -1)
                return d
            inn2, _ = f.cfg.forward(0, tr, max)
            mx = inn2.get(f.cfg.exit)
            ctx.ob('C16.R1', '%s|balanced-max' % f.name, mx == 0, 'no path leaves the counter raised' if mx == 0 else
                   'some path reaches the exit with cb_level_ still raised by %s: every later call sees a callback in progress and refuses (or defers) for ever' % mx, where=f.loc(f.body))
    if n < 8:
        raise AnalysisBroken('expected >=8 user-function invocations in the state machine, found %d' % n)
    for name in ('start', 'stop', 'run'):
        f = prog.fn1(I + '::' + name)
        ws = []
        for v in STATE_VARS:
            ws += q.writes(f, 'Impl::' + v)
        if not ws:
            raise AnalysisBroken('%s: no writes to machine state found' % f.name)
        ok = True
        for w in ws:
            g = [(c, k) for c, k, b in f.cfg.controlling_branches(q.pt(f, w)) if any(x.endswith('Impl::cb_level_') for x in q.subtree_fields(f, c))]
            good = False
            for c, k in g:
                x = f.s(f.strip_casts(c))
                if x['k'] == 'BinaryOperator' and x.get('op') == '!=' and f.s(f.strip_casts(x['ch'][1])).get('cv') == 0 and k == 1:
                    good = True
                if x['k'] == 'BinaryOperator' and x.get('op') == '==' and f.s(f.strip_casts(x['ch'][1])).get('cv') == 0 and k == 0:
                    good = True
            ok = ok and good
        ctx.ob('C16.R1', '%s|reject-reentry' % f.name, ok, 'every write to is_running_/curr_state_/last_state_/next_state_ is behind the cb_level_ == 0 test', where=f.loc(f.body))


def named_invokes(f, suffix):
    return [iv for iv in q.invokes(f) if ('obj' in iv and f.path(iv['obj']).endswith(suffix))]


def r2(ctx, prog):
    ctx.rule('C16.R2', 'A4 order: on the transition path of run(): exit action -> last_state_ update -> route action -> curr_state_ update -> enter '
                       'action -> state-changed notification -> nested start+run, each at most once', floor=6)
    f = prog.fn1(I + '::run')
    ex = named_invokes(f, 'curr_state_.exit_action')
    ra = named_invokes(f, 'route_action')
    en = named_invokes(f, 'curr_state_.enter_action')
    nt = named_invokes(f, 'state_changed_cb_')
    ls = [a for a, rhs in q.assigns(f, 'Impl::last_state_')]
    cs = [a for a, rhs in q.assigns(f, 'Impl::curr_state_') if (f.field_of(rhs) or '').endswith('next_state_')]
    sub_start = [st for st in f.calls() if st.get('fn') == 'start' and 'obj' in st and f.path(st['obj']).endswith('sub_sm')]
    sub_run = [st for st in f.calls() if st.get('fn') == 'run' and 'obj' in st and f.path(st['obj']).endswith('sub_sm') and any(f.cfg.exists_path(q.pt(f, s), q.pt(f, st)) for s in sub_start)]
    seq = [('exit action', ex), ('last_state_ update', ls), ('route action', ra), ('curr_state_ update', cs), ('enter action', en), ('notification', nt), ('nested start', sub_start), ('nested run', sub_run)]
    for name, lst in seq:
        if len(lst) != 1:
            ctx.ob('C16.R2', '%s|step:%s' % (f.name, name), False, 'expected exactly one %s site on the transition path, found %d' % (name, len(lst)), where=f.loc(f.body))
            return
    for (n1, a), (n2, b) in zip(seq, seq[1:]):
        pa, pb = q.pt(f, a[0]), q.pt(f, b[0])
        ok = f.cfg.exists_path(pa, pb) and not f.cfg.exists_path(pb, pa)
        ctx.ob('C16.R2', '%s|%s<%s' % (f.name, n1.replace(' ', '-'), n2.replace(' ', '-')), ok, '%s precedes %s and never follows it' % (n1, n2), where=f.loc(b[0]['i']))
    # unconditional state updates on the transition path: the two stores dominate the enter action
    ctx.ob('C16.R2', '%s|stores-dominate' % f.name, f.cfg.dominates(q.pt(f, ls[0]), q.pt(f, cs[0])) and f.cfg.dominates(q.pt(f, cs[0]), q.pt(f, en[0])),
           'last_state_/curr_state_ updates are unconditional on the transition path', where=f.loc(cs[0]['i']))


def r3(ctx, prog):
    ctx.rule('C16.R3', 'A4 precedence: the active sub-machine gets the event first and own routes are considered only once it has terminated; a '
                       'per-state handler is consulted before the routes; the route scan is a forward first-match over an append-only vector with '
                       'the event test before the guard', floor=6)
    f = prog.fn1(I + '::run')
    deleg = [st for st in f.calls() if st.get('fn') == 'run' and 'obj' in st and f.path(st['obj']).endswith('sub_sm')]
    lookup = [st for st in f.calls() if st.get('fn') == 'find' and 'obj' in st and f.path(st['obj']).endswith('events')]
    scan = [st for st in f.calls() if st.get('callee', '').startswith('std::find_if')]
    scan_loop = None
    if not scan:
        # the same scan written as an explicit loop over routes whose body calls the guard
        for lp in f.stmts:
            if lp and lp['k'] in ('ForStmt', 'CXXForRangeStmt', 'WhileStmt') and lp.get('body') is not None and \
                    any('guard' in f.path(iv['obj']) and iv['i'] in set(f.walk(lp['body'])) for iv in q.invokes(f)) and \
                    any(x.endswith('routes') or '.routes' in x for x in q.subtree_paths(f, lp['i'])):
                scan_loop = lp
        if scan_loop is not None:
            scan = [scan_loop]
    if not deleg or not lookup or not scan:
        raise AnalysisBroken('run(): delegation / handler lookup / route scan not found (%d/%d/%d)' % (len(deleg), len(lookup), len(scan)))
    first_deleg = sorted(deleg, key=lambda s: s['l'])[0]
    ctx.ob('C16.R3', '%s|delegate-first' % f.name, not f.cfg.exists_path(q.pt(f, lookup[0]), q.pt(f, first_deleg)) and
           any(g for g in q.lexical_guards(f, first_deleg['i']) if 'curr_state_.sub_sm' in q.subtree_paths(f, g[0])),
           'delegation to sub_sm->run() comes before the handler lookup, under sub_sm != nullptr', where=f.loc(first_deleg['i']))
    # after delegation the function returns unless isTerminated()
    rets = [r for r in q.returns(f) if any(br == 'then' and any(c2.get('fn') == 'isTerminated' for c2 in q.subtree_calls(f, c)) for c, br in q.lexical_guards(f, r['i']))]
    ok = False
    for r in rets:
        c = [c for c, br in q.lexical_guards(f, r['i']) if any(c2.get('fn') == 'isTerminated' for c2 in q.subtree_calls(f, c))][0]
        x = f.s(f.strip_casts(c))
        ok = x['k'] == 'UnaryOperator' and x.get('op') == '!' and f.cfg.dominates(q.pt(f, first_deleg), q.pt(f, r))
    # and no path from the delegation to the lookup that skips the isTerminated test
    tests = [st for st in f.calls() if st.get('fn') == 'isTerminated']
    ok = ok and not f.cfg.exists_path(q.pt(f, first_deleg), q.pt(f, lookup[0]), avoid=q.pts(f, tests))
    ctx.ob('C16.R3', '%s|own-routes-after-termination' % f.name, ok, 'after delegating, run() returns unless the sub-machine isTerminated()', where=f.loc(first_deleg['i']))
    g = [(c, k) for c, k, b in f.cfg.controlling_branches(q.pt(f, scan[0])) if 'next_state_id' in q.subtree_paths(f, c)]
    okg = any(q.edge_says(f, c, k, lambda l: l == 'next_state_id', ('==',), lambda r: True) for c, k in g)
    ctx.ob('C16.R3', '%s|handler-before-routes' % f.name, okg and f.cfg.exists_path(q.pt(f, lookup[0]), q.pt(f, scan[0])) and not f.cfg.exists_path(q.pt(f, scan[0]), q.pt(f, lookup[0])),
           'the route scan runs only when the handler produced no target state', where=f.loc(scan[0]['i']))
    muts = []
    for g_ in impl_funcs(prog):
        for st in g_.calls():
            if 'obj' in st and (g_.field_of(st['obj']) or '').endswith('State::routes') and st.get('fn') not in ('begin', 'end', 'size', 'empty', 'cbegin', 'cend'):
                muts.append(st.get('fn'))
    ctx.ob('C16.R3', I + '|routes-append-only', bool(muts) and set(muts) <= {'emplace_back', 'push_back'}, 'routes vector is only appended to (%s)' % sorted(set(muts)))
    if scan_loop is None:
        a = [f.path(x) for x in scan[0]['args'][:2]]
        ctx.ob('C16.R3', '%s|forward-scan' % f.name, a == ['curr_state_.routes.begin()', 'curr_state_.routes.end()'], 'std::find_if over routes.begin()..end() (%s)' % a, where=f.loc(scan[0]['i']))
        lam = None
        for x in f.walk(scan[0]['args'][2]):
            if f.stmts[x]['k'] == 'LambdaExpr':
                lam = prog.lambda_func(f, f.stmts[x])
        if lam is None:
            raise AnalysisBroken('run(): route predicate lambda not found')
        body_fn, start = lam, lam.cfg.entry_point()
    else:
        lp = scan_loop
        if lp['k'] == 'CXXForRangeStmt':
            fwd = f.path(lp['range']).endswith('routes')
        else:
            paths = ' '.join(q.subtree_paths(f, lp['i']))
            incs = [st for st in f.stmts if st and st['i'] in set(f.walk(lp['i'])) and st['k'] in ('UnaryOperator', 'CXXOperatorCallExpr') and st.get('op') == '++']
            decs = [st for st in f.stmts if st and st['i'] in set(f.walk(lp['i'])) and st['k'] in ('UnaryOperator', 'CXXOperatorCallExpr') and st.get('op') == '--']
            from tbxlint import rd as _rd
            starts_at_begin = 'routes.begin()' in paths
            for x in f.walk(lp['cond']) if lp.get('cond') is not None else ():
                sx = f.stmts[x]
                if sx['k'] == 'DeclRefExpr' and sx.get('dk') == 'Var':
                    for dfn in _rd.local_defs(f, sx['d']):
                        if dfn['kind'] == 'init' and dfn['rhs'] is not None and any(p_.endswith('routes.begin()') for p_ in q.subtree_paths(f, dfn['rhs'])):
                            starts_at_begin = True
            fwd = starts_at_begin and 'routes.end()' in paths and bool(incs) and not decs
        # first match: some break/return inside the loop is controlled by both the event test and the guard call
        leaves = [st for st in f.stmts if st and st['i'] in set(f.walk(lp['body'])) and st['k'] in ('BreakStmt', 'ReturnStmt')]
        ctx.ob('C16.R3', '%s|forward-scan' % f.name, fwd and bool(leaves), 'explicit forward loop over routes that leaves at the first match', where=f.loc(lp['i']))
        body_fn, start = f, f.cfg.point_of(f.s(lp['body'])['ch'][0]) if f.s(lp['body']).get('ch') else q.pt(f, lp)
    lam = body_fn
    gi = [iv for iv in q.invokes(lam) if 'guard' in lam.path(iv['obj'])]
    tests = [st for st in lam.stmts if st and st['k'] == 'BinaryOperator' and st.get('op') in ('!=', '==') and 'item.event_id' in q.subtree_paths(lam, st['i'])]
    cmp_event = any('event.id' in q.subtree_paths(lam, t['i']) for t in tests)
    if scan_loop is None:
        ok = bool(gi) and cmp_event and all(not lam.cfg.exists_path(lam.cfg.entry_point(), q.pt(lam, i), avoid=q.pts(lam, tests)) for i in gi)
    else:
        # per iteration: from the loop's condition no path reaches the guard call without passing the event test
        cp = lam.cfg.point_of(scan_loop['cond']) if scan_loop.get('cond') is not None else q.pt(lam, scan_loop)
        ok = bool(gi) and cmp_event and cp is not None and all(not lam.cfg.exists_path(cp, q.pt(lam, i), avoid=q.pts(lam, tests)) for i in gi)
    ctx.ob('C16.R3', '%s|event-before-guard' % f.name, ok, 'the event id test dominates the guard call (guards of non-matching routes are not evaluated)', where=lam.loc(lam.body) if scan_loop is None else f.loc(scan_loop['i']))


def r6(ctx, prog):
    ctx.rule('C16.R6', 'A6 late binding of the transition target: run() resolves the target state by its id at transition time (findState(id), or the built-in terminal state '
             'when no state with id 0 exists); it never uses a State pointer cached when the route or handler was registered (states may be defined after routes)', floor=1)
    f = prog.fn1(I + '::run')
    ws = q.assigns(f, 'Impl::next_state_')
    if not ws:
        raise AnalysisBroken('run(): no assignment to next_state_')
    for a, rhs in ws:
        r = f.s(f.strip_casts(rhs))
        kind = None
        if r is not None and r['k'] in q.CALL_KINDS and r.get('fn') == 'findState':
            kind = 'findState(id)'
        elif r is not None and r['k'] == 'UnaryOperator' and r.get('op') == '&' and (f.field_of(r['ch'][0]) or f.path(r['ch'][0])).endswith('_term_state_'):
            kind = '&_term_state_'
        elif r is not None and r['k'] in ('CXXNullPtrLiteralExpr', 'GNUNullExpr'):
            kind = 'nullptr'
        ctx.ob('C16.R6', '%s|next_state_@%s' % (f.name, f.loc(a['i']).split(':')[-1]), kind is not None, 'next_state_ = %s' % kind if kind else
               'next_state_ is taken from %s — a pointer stored earlier (when the route was added) instead of a look-up by id now: a state defined after the route '
               '(e.g. a user-defined state 0) is bypassed, its actions and routes never run' % q.expr_text(f, rhs), where=f.loc(a['i']))


def r4(ctx, prog):
    ctx.rule('C16.R4', 'A4 pairing: enter/exit balance at every nesting level: stop() and the transition leave a state through its exit action exactly '
                       'once with a non-null sub-machine stopped first; start() and the transition enter through the enter action and start the sub-machine', floor=5)
    s = prog.fn1(I + '::stop')
    ex = named_invokes(s, 'curr_state_.exit_action')
    ss = [st for st in s.calls() if st.get('fn') == 'stop' and 'obj' in st and s.path(st['obj']).endswith('sub_sm')]
    clr = [a for a, rhs in q.assigns(s, 'Impl::curr_state_')]
    ctx.ob('C16.R4', '%s|exit-once' % s.name, len(ex) == 1 and bool(clr) and not s.cfg.exists_path(q.pt(s, clr[0]), q.pt(s, ex[0])), 'exit action runs once, before curr_state_ is cleared', where=s.loc(s.body))
    ok = bool(ss) and bool(ex)
    if ok:
        g = [c for c, br in q.lexical_guards(s, ss[0]['i']) if br == 'then' and 'curr_state_.sub_sm' in q.subtree_paths(s, c)]
        ok = bool(g) and s.cfg.dominates(s.cfg.point_of(g[0]), q.pt(s, ex[0])) and not s.cfg.exists_path(q.pt(s, ex[0]), q.pt(s, ss[0]))
    ctx.ob('C16.R4', '%s|sub-stopped-first' % s.name, ok,
           'a non-null sub-machine of the current state is stopped before the exit action' if ok else
           'stop() leaves the active sub state machine of the current state running: its exit actions never run and a later start() cannot restart it', where=s.loc(s.body))
    r = prog.fn1(I + '::run')
    ex = named_invokes(r, 'curr_state_.exit_action')
    sub_stop = [st for st in r.calls() if st.get('fn') == 'stop' and 'obj' in st and r.path(st['obj']).endswith('sub_sm')]
    deleg = sorted([st for st in r.calls() if st.get('fn') == 'run' and 'obj' in st and r.path(st['obj']).endswith('sub_sm')], key=lambda x: x['l'])
    ok = bool(ex) and bool(sub_stop) and bool(deleg) and not r.cfg.exists_path(q.pt(r, deleg[0]), q.pt(r, ex[0]), avoid=q.pts(r, sub_stop))
    ctx.ob('C16.R4', '%s|sub-stopped-before-leaving' % r.name, ok, 'every path from the delegation to the exit action passes sub_sm->stop()', where=r.loc(r.body))
    st_ = prog.fn1(I + '::start')
    en = [iv for iv in q.invokes(st_) if 'enter_action' in st_.path(iv['obj'])]
    sub = [x for x in st_.calls() if x.get('fn') == 'start' and 'obj' in x and st_.path(x['obj']).endswith('sub_sm')]
    run_w = [a for a, rhs in q.assigns(st_, 'Impl::is_running_')]
    ctx.ob('C16.R4', '%s|enter+sub-start' % st_.name, len(en) == 1 and len(sub) == 1 and bool(run_w) and st_.cfg.exists_path(q.pt(st_, en[0]), q.pt(st_, sub[0])) and
           q.must_follow(st_, q.pt(st_, run_w[0]), [q.pt(st_, sub[0])] + [st_.cfg.point_of(c) for c, br in q.lexical_guards(st_, sub[0]['i'])]),
           'start() enters the initial state and then starts its sub-machine', where=st_.loc(st_.body))
    en = named_invokes(r, 'curr_state_.enter_action')
    ctx.ob('C16.R4', '%s|one-exit-one-enter' % r.name, len(named_invokes(r, 'curr_state_.exit_action')) == 1 and len(en) == 1 and
           q.must_follow(r, r.cfg.point_of([c for c, br in q.lexical_guards(r, ex[0]['i'])][0]) if ex else r.cfg.entry_point(), [r.cfg.point_of([c for c, br in q.lexical_guards(r, en[0]['i'])][0])]) if ex and en else False,
           'a transition that runs the exit test always reaches the enter test', where=r.loc(r.body))


def r5(ctx, prog):
    ctx.rule('C16.R5', 'A4: definition calls are rejected while running: every mutation of the state table, routes, handlers, sub-machines and the '
                       'initial state is behind the is_running_ test', floor=4)
    targets = ('Impl::states_', 'State::routes', 'State::events', 'State::default_event', 'State::sub_sm')
    n = 0
    for f in impl_funcs(prog):
        if f.parent_func is not None or f.d.get('ctor') or f.d.get('dtor') or f.short in ('start', 'stop', 'run'):
            continue
        for t in targets:
            for w in q.writes(f, t):
                n += 1
                g = [(c, k) for c, k, b in f.cfg.controlling_branches(q.pt(f, w)) if any(x.endswith('Impl::is_running_') for x in q.subtree_fields(f, c))]
                ok = any(k == 1 for c, k in g)
                ctx.ob('C16.R5', '%s|%s' % (f.name, t.split('::')[-1]), ok, 'write to %s is behind `if (is_running_) return`' % t.split('::')[-1], where=f.loc(w['i']))
    if n < 4:
        raise AnalysisBroken('expected >=4 definition-time mutations, found %d' % n)


def r7(ctx, prog):
    ctx.rule('C16.R7', 'A12+A6 definition semantics: (a) registering a handler again replaces the earlier one, for a specific event as for the any-event slot — both branches of '
             'addEvent() store by assignment (operator[] = / plain =), not by emplace/insert, which keep the first; (b) the built-in terminal state shared by all machines is '
             'only ever referred to by run() as the transition target of last resort — no look-up hands it out to the definition calls, which would write into an object every '
             'machine in the process shares', floor=2)
    IM = [c for c in (prog.fn('tbox::flow::StateMachine::Impl::addEvent') or [])]
    if not IM:
        raise AnalysisBroken('StateMachine::Impl::addEvent not found')
    f = IM[0]
    stores = []
    for c in f.calls():
        if c.get('obj') is not None and f.path(c['obj']).endswith('events') and c.get('fn') in ('emplace', 'insert', 'try_emplace', 'emplace_hint', 'insert_or_assign', 'operator[]'):
            stores.append(c)
    keep_first = [c for c in stores if c['fn'] in ('emplace', 'insert', 'try_emplace', 'emplace_hint')]
    overwrite = [c for c in stores if c['fn'] in ('insert_or_assign', 'operator[]')]
    ctx.ob('C16.R7', '%s|re-registration-replaces' % f.name, bool(overwrite) and not keep_first, 'a handler registered again for the same event replaces the earlier one' if overwrite and not keep_first else
           'addEvent() stores the handler with %s(), which keeps the first registration and silently drops later ones, while the any-event slot is assigned (last wins): the handler that '
           'picks the target is not the one registered last' % (keep_first[0]['fn'] if keep_first else '?'), where=f.loc((keep_first or stores or [{'i': f.body}])[0]['i']))
    # (b) who may refer to the shared terminal state
    users = set()
    for g in prog.funcs.values():
        if not g.file.endswith('flow/state_machine.cpp'):
            continue
        for st in g.stmts:
            if st and st['k'] == 'DeclRefExpr' and (st.get('n') or '').endswith('_term_state_'):
                users.add(prog.outermost(g).short)
    ok = bool(users) and users <= {'run'}
    ctx.ob('C16.R7', 'StateMachine::Impl|term-state-users', ok, 'the shared terminal state is referred to by %s only' % sorted(users) if ok else
           'the built-in terminal state, one object shared by every machine, is referred to by %s: a look-up that hands it out lets addEvent/addRoute/setSubStateMachine/start '
           'accept an undefined state 0 and write into that shared object — a terminated machine stops being a sink and unrelated machines run each other\'s handlers' % sorted(users),
           where=f.loc(f.body))


def run(ctx):
    prog = extract('ALL' if ctx.tier == 'thorough' else SCOPE)
    ctx.guard(r1, ctx, prog)
    ctx.guard(r2, ctx, prog)
    ctx.guard(r3, ctx, prog)
    ctx.guard(r4, ctx, prog)
    ctx.guard(r6, ctx, prog)
    ctx.guard(r7, ctx, prog)
    ctx.guard(r5, ctx, prog)
    from rules import C16_replay
    ctx.guard(C16_replay.r8, ctx, prog)
    ctx.guard(C16_replay.r9, ctx, prog)
    return prog
