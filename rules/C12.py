"""C12 — HTTP server (DESIGN §4 C12)."""
from tbxlint.facts import extract, AnalysisBroken, MODULES
from tbxlint import locks, q, exc, rd, harden
import glob

IMPL = 'tbox::http::server::Server::Impl'
PARSER = 'tbox::http::server::RequestParser'
CTXC = 'tbox::http::server::Context'


def scope_units():
    us = []
    for pat in ('http/*.cpp', 'http/server/*.cpp', 'http/client/*.cpp', 'util/string.cpp', 'util/buffer.cpp',
                'network/buffered_fd.cpp', 'network/tcp_connection.cpp', 'network/tcp_server.cpp'):
        for p in sorted(glob.glob(MODULES + '/' + pat)):
            if not p.endswith('_test.cpp'):
                us.append(p[len(MODULES) + 1:])
    return us

EXC_TABLE = {
    # (function, thrower, receiver) : reason — confirmed by reading request_parser.cpp
    (PARSER + '::parse', 'std::string::substr', 'str'):
        'positions are the parse cursor `pos` (0, or a found CRLF position + 2, or advanced by the checked body length — the cursor-update '
        'shapes are enforced by C12.R2) or find() results guarded against npos',
}


def recv_entries(prog):
    return [prog.fn1(PARSER + '::parse')] + [prog.fn1(IMPL + '::' + n) for n in
            ('onTcpReceived', 'onTcpSendCompleted', 'commitRespond', 'onTcpConnected', 'onTcpDisconnected', 'handle')]


def r1(ctx, prog):
    ctx.rule('C12.R1', 'A8: no exception escapes the receive path (parse, onTcpReceived, onTcpSendCompleted, commitRespond, connect/disconnect '
                       'handlers): every may-throw std call is caught, proven in range, or a confirmed table exception', floor=1)
    entries = [prog.fn1(PARSER + '::parse')] + [prog.fn1(IMPL + '::' + n) for n in
               ('onTcpReceived', 'onTcpSendCompleted', 'commitRespond', 'onTcpConnected', 'onTcpDisconnected', 'handle')]
    entries += [f for f in prog.fn(CTXC + '::~Context', required=True)]
    eng = exc.ExcEngine(prog, exceptions=EXC_TABLE,
                        follow=lambda g: g.file.startswith(MODULES + '/http/') or g.file.startswith(MODULES + '/util/'))
    prove = exc.chain_provers(exc.prove_string_pos, rd.prove_string_pos_rd, exc.prove_index_guard, exc.prove_find_guard)
    findings = eng.scan(entries, prove)
    for fn, where, label, why in eng.proofs:
        ctx.ob('C12.R1', '%s|%s@%s' % (fn, label, where.split(':')[-1]), True, '%s: %s' % (label, why), where=where)
    seen = set()
    for fd in findings:
        f, st = fd['func'], fd['stmt']
        key = '%s|%s|%s' % (f.name, fd['label'], fd['path'])
        if key in seen:
            continue
        seen.add(key)
        ctx.ob('C12.R1', key, False, '%s may throw %s, not caught on the chain %s' % (fd['label'], '/'.join(fd['types']), ' -> '.join(fd['chain'][-4:])), where=f.loc(st['i']))
    ctx.stats['may_throw_sites'] = eng.sites
    ctx.stats['functions_on_receive_path'] = eng.functions
    ctx.ob('C12.R1', IMPL + '|scanned', True, '%d functions reachable from the receive/commit entries, %d may-throw sites' % (eng.functions, eng.sites))
    if eng.functions < 20:
        raise AnalysisBroken('receive-path call graph too small (%d functions)' % eng.functions)
    unused = set(EXC_TABLE) - eng.used_exceptions
    if unused:
        ctx.note('unused exception-table entries (code changed): %s' % sorted(unused))


def r2(ctx, prog):
    ctx.rule('C12.R2', 'A4: segmentation independence, structural part: a fail verdict is only taken on a complete unit (the CRLF of the '
                       'line being parsed was found); the parse cursor only advances past a found CRLF, by the checked body length, or to the end', floor=6)
    f = prog.fn1(PARSER + '::parse')
    fails = [a for a, rhs in q.assigns(f, 'RequestParser::state_') if 'kFail' in (f.path(rhs) + str(f.s(f.strip_casts(rhs)).get('n')))]
    if len(fails) < 5:
        raise AnalysisBroken('parse: expected >=5 kFail verdicts, found %d' % len(fails))
    # "complete line" tests: comparisons of a find(CRLF...) result with npos whose true edge leaves (return/break)
    crlf_vars = set()
    for st in f.stmts:
        if st and st['k'] == 'DeclStmt':
            for d in st['decls']:
                if 'init' in d:
                    c = f.s(f.strip_casts(d['init']))
                    if c and c['k'] == 'CXXMemberCallExpr' and c.get('fn') == 'find' and c.get('args') and \
                            f.s(f.strip_casts(c['args'][0])).get('v') == '\\x0d\\x0a':
                        crlf_vars.add(d['d'])
    if len(crlf_vars) < 2:
        raise AnalysisBroken('parse: find(CRLF) locals not found')
    for i, a in enumerate(fails):
        p = q.pt(f, a)
        ok = any(exc.npos_guarded(f, p, v) for v in crlf_vars)
        ctx.ob('C12.R2', '%s|fail-after-complete-line#%d' % (f.name, i), ok,
               'kFail verdict is dominated by "CRLF of this line found"' if ok else
               'kFail verdict at %s is taken before the line is known to be complete: a request split inside this token fails although the unsplit request parses' % f.loc(a['i']),
               where=f.loc(a['i']))
    # cursor updates
    posd = None
    for st in f.stmts:
        if st and st['k'] == 'DeclStmt':
            for d in st['decls']:
                if d.get('n') == 'pos':
                    posd = d
    if posd is None:
        raise AnalysisBroken('parse: cursor variable pos not found')
    for st in f.stmts:
        if not st or st['k'] not in ('BinaryOperator', 'CompoundAssignOperator', 'UnaryOperator'):
            continue
        if st.get('op') not in ('=', '+=', '-=', '++', '--'):
            continue
        l = f.s(f.strip_casts(st['ch'][0]))
        if not (l and l['k'] == 'DeclRefExpr' and l.get('d') == posd['d']):
            continue
        p = q.pt(f, st)
        ok, why = False, 'unrecognised cursor update'
        if st['op'] == '=':
            r = f.s(f.strip_casts(st['ch'][1]))
            if r['k'] == 'BinaryOperator' and r.get('op') == '+':
                a0, a1 = f.s(f.strip_casts(r['ch'][0])), f.s(f.strip_casts(r['ch'][1]))
                if a0['k'] == 'DeclRefExpr' and a0.get('d') in crlf_vars and a1.get('cv') == 2 and exc.npos_guarded(f, p, a0['d']):
                    ok, why = True, 'past a found CRLF'
            elif r['k'] == 'DeclRefExpr' and r.get('n') == 'data_size':
                # only the body stage of a request without Content-Length takes everything that arrived
                g = [c for c, br in q.lexical_guards(f, st['i']) if br == 'else' and any(x.endswith('content_length_') for x in q.subtree_fields(f, c))]
                if g:
                    ok, why = True, 'to the end of the data (body without Content-Length)'
                else:
                    why = 'to the end of the data outside the no-Content-Length body branch'
        elif st['op'] == '+=':
            r = f.s(f.strip_casts(st['ch'][1]))
            if r.get('cv') == 2:
                # guarded by end_pos == pos (CRLF found at the cursor)
                for cond, k, b in f.cfg.controlling_branches(p):
                    cs = f.s(f.strip_casts(cond))
                    while cs and cs['k'] == 'UnaryOperator' and cs.get('op') == '!':
                        cs = f.s(f.strip_casts(cs['ch'][0]))
                    rel = q.edge_relation(f, cond, k)
                    if cs and cs['k'] == 'BinaryOperator' and rel is not None and rel[1] == '==':
                        ds = {f.s(f.strip_casts(x)).get('d') for x in cs['ch']}
                        if posd['d'] in ds and ds & crlf_vars:
                            ok, why = True, 'past a CRLF found at the cursor'
            elif (f.field_of(st['ch'][1]) or '').endswith('content_length_'):
                for cond, k, b in f.cfg.controlling_branches(p):
                    # (data_size - pos) >= content_length_, in any spelling / orientation / polarity
                    for l_, o_, r_ in q.edge_rels(f, cond, k):
                        cs = f.s(f.strip_casts(cond))
                        while cs and cs['k'] == 'UnaryOperator' and cs.get('op') == '!':
                            cs = f.s(f.strip_casts(cs['ch'][0]))
                        if o_ == '>=' and r_.endswith('content_length_') and cs and cs['k'] == 'BinaryOperator':      # exactly >=: a body that is just complete is taken
                            other = cs['ch'][0] if (f.field_of(cs['ch'][1]) or '').endswith('content_length_') else cs['ch'][1]
                            if 'data_size' in q.subtree_paths(f, other) and 'pos' in q.subtree_paths(f, other) and q.expr_text(f, other) in ('(data_size-pos)',):
                                ok, why = True, 'by the body length after the (data_size - pos) >= content_length_ test'
        if not ok and st['op'] == '+=' and why == 'unrecognised cursor update':
            # any other advance: accepted when it is proven to stay inside the data that arrived (linear facts: guards, std::min, monotone counters)
            from tbxlint import bounds
            from tbxlint.affine import Aff
            rhsf = bounds.form(f, st['ch'][1], p)
            cur_ = bounds.form(f, st['ch'][0], p)
            newpos = (cur_ + rhsf) if (st['op'] == '+=' and rhsf is not None and cur_ is not None) else rhsf
            dsz = [p_ for p_ in f.params if p_['n'] == 'data_size']
            if newpos is not None and dsz:
                facts = bounds.facts_at(f, p)
                usyms = bounds.unsigned_syms(f)
                if bounds.decide(Aff.sym('data_size') - newpos, facts, usyms) and (st['op'] == '=' or bounds.decide(rhsf, facts, usyms)):
                    ok, why = True, 'forward, by an amount proven to stay inside the data that arrived'
        ctx.ob('C12.R2', '%s|cursor@%s' % (f.name, why.replace(' ', '-')), ok, 'cursor update: ' + why, where=f.loc(st['i']))
    # returns: 0 or the cursor
    for r in q.returns(f):
        v = f.s(f.strip_casts(r.get('val')))
        ok = v is not None and (v.get('cv') == 0 or (v['k'] == 'DeclRefExpr' and v.get('d') == posd['d']))
        ctx.ob('C12.R2', '%s|return' % f.name, ok, 'parse returns 0 or the cursor', where=f.loc(r['i']))


def r3(ctx, prog):
    ctx.rule('C12.R3', 'A4: nothing after a close-marked request: once close_index is stored no further request is dispatched without '
                       're-testing it, or every send in commitRespond is guarded by index <= close_index', floor=1)
    f = prog.fn1(IMPL + '::onTcpReceived')
    marks = [a for a, rhs in q.assigns(f, 'Connection::close_index')]
    disp = q.calls(f, callee=IMPL + '::handle')
    if not marks or not disp:
        raise AnalysisBroken('onTcpReceived: close_index store / handle() dispatch not found')
    tests = [st for st in f.stmts if st and st['k'] == 'BinaryOperator' and st.get('op') in ('!=', '==', '<', '>', '<=', '>=')
             and any(x.endswith('Connection::close_index') for x in q.subtree_fields(f, st['i']))]
    design_a = True
    bad_where = None
    for m in marks:
        mp = q.pt(f, m)
        filt = q.forward_correlated_filter(f, mp)
        for d in disp:
            dp = q.pt(f, d)
            # dispatching the marking request itself is fine; a violation is a *further* dispatch reached from it without a
            # re-test of close_index (paths contradicting the local flag that guards the mark are infeasible)
            if f.cfg.exists_path(mp, dp, edge_filter=filt) and f.cfg.exists_path(dp, dp, avoid=q.pts(f, tests), edge_filter=filt):
                design_a = False
                bad_where = f.loc(d['i'])
    c = prog.fn1(IMPL + '::commitRespond')
    sends = send_sites(prog, c)
    if not sends:
        raise AnalysisBroken('commitRespond: tcp_server_.send not found')
    design_b = True
    for s in sends:
        sp = q.pt(c, s)
        ok = False
        for cond, k, b in c.cfg.controlling_branches(sp):
            if any(x.endswith('Connection::close_index') for x in q.subtree_fields(c, cond)):
                ok = True
        design_b = design_b and ok
    ctx.ob('C12.R3', '%s|no-dispatch-after-close' % f.name, design_a or design_b,
           'requests after a close-marked one are not dispatched' if design_a else 'every send is guarded by the close index' if design_b else
           'after storing close_index the receive loop reaches another handle() dispatch (%s) without re-testing close_index, and commitRespond '
           'sends a response whose index exceeds close_index when it is next in turn' % bad_where, where=bad_where or f.loc(marks[0]['i']))


def r4(ctx, prog):
    ctx.rule('C12.R4', 'A6: exactly one commit per request by construction: commitRespond is only called by ~Context; Context objects are '
                       'only created by make_shared in onTcpReceived; the Respond is deleted on every path of commitRespond or parked', floor=4)
    c = prog.fn1(IMPL + '::commitRespond')
    callers = set()
    for f in prog.funcs.values():
        for st in f.calls():
            if st.get('fn') == 'commitRespond':
                callers.add(prog.outermost(f).name)
    # Server::commitRespond forwards to Impl
    allowed = {CTXC + '::~Context', 'tbox::http::server::Server::commitRespond'}
    ctx.ob('C12.R4', '%s|callers' % c.name, callers <= allowed and (CTXC + '::~Context') in callers, 'commitRespond callers: %s' % sorted(callers))
    made = []
    for f in prog.funcs.values():
        for st in f.stmts:
            if st and st['k'] in ('CXXConstructExpr', 'CXXTemporaryObjectExpr', 'CXXNewExpr') and (st.get('ctor') == CTXC or st.get('cat', '').endswith('server::Context')) and f.file.startswith(MODULES):
                made.append(prog.outermost(f).name)
            if st and st['k'] == 'CallExpr' and st.get('callee', '').startswith('std::make_shared') and (st.get('ct') or st.get('t', '')).endswith('server::Context>'):
                made.append(prog.outermost(f).name)
    ctx.ob('C12.R4', '%s|created' % CTXC, set(made) == {IMPL + '::onTcpReceived'}, 'Context created in: %s' % sorted(set(made)))
    # Respond ownership in commitRespond: every path either deletes `res` or parks it in res_buff
    dels = [st for st in c.stmts if st and st['k'] == 'CXXDeleteExpr' and c.path(st['ch'][0]) == 'res']
    # ... or hands it to a local closure that deletes its parameter
    for st in c.stmts:
        if st and st['k'] == 'DeclStmt':
            for d in st['decls']:
                if 'init' not in d:
                    continue
                for x in c.walk(d['init']):
                    if c.stmts[x]['k'] == 'LambdaExpr':
                        lf = prog.lambda_func(c, c.stmts[x])
                        if lf is not None and lf.params and any(y and y['k'] == 'CXXDeleteExpr' and lf.path(y['ch'][0]) == lf.params[0]['n'] for y in lf.stmts):
                            for cc in c.calls():
                                if cc.get('fn') == 'operator()' and cc.get('obj') is not None and (c.s(c.strip_casts(cc['obj'])) or {}).get('d') == d['d'] and \
                                        cc.get('args') and c.path(cc['args'][0]) == 'res':
                                    dels.append(cc)
    parks = [st for st in c.stmts if st and st['k'] in ('BinaryOperator', 'CXXOperatorCallExpr') and st.get('op') == '=' and
             c.path(st['ch'][-1] if st['k'] == 'BinaryOperator' else st['args'][0]) == 'res']
    ok = not c.cfg.exists_path(c.cfg.entry_point(), 'exit', avoid=q.pts(c, dels + parks))
    ctx.ob('C12.R4', '%s|respond-owned' % c.name, ok and bool(dels) and bool(parks), 'every path through commitRespond deletes the Respond or parks it (%d delete, %d park sites)' % (len(dels), len(parks)), where=c.loc(c.body))
    d = prog.fn1(IMPL + '::Connection::~Connection')
    ctx.ob('C12.R4', '%s|parked-freed' % d.name, any(st and st['k'] == 'CXXDeleteExpr' for st in d.stmts), 'parked responses are freed with the connection', where=d.loc(d.body))


def send_sites(prog, c):
    """call sites in c at which one response is written: tcp_server_.send(...) itself, or a call of a local closure whose body contains that send"""
    out = [st for st in c.calls() if st.get('fn') == 'send' and q.obj_field_is(c, st, 'Impl::tcp_server_')]
    lam_vars = {}
    for st in c.stmts:
        if st and st['k'] == 'DeclStmt':
            for d in st['decls']:
                if 'init' in d:
                    for x in c.walk(d['init']):
                        if c.stmts[x]['k'] == 'LambdaExpr':
                            lf = prog.lambda_func(c, c.stmts[x])
                            if lf is not None and any(s2.get('fn') == 'send' and (lf.field_of(s2.get('obj', -1)) or '').endswith('tcp_server_') for s2 in lf.calls()):
                                lam_vars[d['d']] = lf
    for st in c.calls():
        if st.get('fn') == 'operator()' and st.get('obj') is not None:
            o = c.s(c.strip_casts(st['obj']))
            if o is not None and o['k'] == 'DeclRefExpr' and o.get('d') in lam_vars:
                out.append(st)
    return out


def r5(ctx, prog):
    ctx.rule('C12.R5', 'A4: in-order flush: res_index advances once per send; the parked map is searched with the updated index; '
                       'the connection is dropped only when res_index > close_index', floor=4)
    c = prog.fn1(IMPL + '::commitRespond')
    sends = send_sites(prog, c)
    if not sends:
        ctx.ob('C12.R5', '%s|sends' % c.name, False, 'commitRespond never writes a response', where=c.loc(c.body))
        return
    incs = q.writes(c, 'Connection::res_index')
    for s in sends:
        sp = q.pt(c, s)
        ok = q.must_follow(c, sp, q.pts(c, incs)) and not c.cfg.exists_path(sp, sp, avoid=q.pts(c, incs))
        ctx.ob('C12.R5', '%s|send-then-advance' % c.name, ok, 'every send is followed by exactly the res_index increment before the next send', where=c.loc(s['i']))
    for i in incs:
        ip = q.pt(c, i)
        ok = not any(c.cfg.exists_path(ip, q.pt(c, j), avoid=q.pts(c, sends)) for j in incs)
        ctx.ob('C12.R5', '%s|advance-per-send' % c.name, ok, 'res_index is not advanced twice without a send in between', where=c.loc(i['i']))
    # direct send only when index == res_index
    first = sorted(sends, key=lambda s: s['l'])[0]
    g = c.cfg.controlling_branches(q.pt(c, first))
    ok = any(q.edge_says(c, cond, k, lambda l: l == 'index', ('==',), lambda r: r.endswith('res_index')) for cond, k, b in g)
    ctx.ob('C12.R5', '%s|in-turn-only' % c.name, ok, 'a response is written directly only when index == res_index', where=c.loc(first['i']))
    finds = [st for st in c.calls() if st.get('fn') == 'find' and st.get('args') and (c.field_of(st['args'][0]) or '').endswith('res_index')]
    ctx.ob('C12.R5', '%s|lookup-next' % c.name, len(finds) >= 1 and all(any(c.cfg.dominates(q.pt(c, i), q.pt(c, fd)) for i in incs) for fd in finds),
           'the parked map is searched by the (already advanced) res_index', where=c.loc(c.body))
    sc = prog.fn1(IMPL + '::onTcpSendCompleted')
    dis = [st for st in sc.calls() if st.get('fn') == 'disconnect']
    for d in dis:
        g = sc.cfg.controlling_branches(q.pt(sc, d))
        ok = any(q.edge_holds(sc, cond, k, 'conn.res_index', '>', 'conn.close_index') for cond, k, b in g)
        ctx.ob('C12.R5', '%s|close-after-last' % sc.name, ok, 'disconnect only under res_index > close_index', where=sc.loc(d['i']))
    if not dis:
        ctx.ob('C12.R5', '%s|close-after-last' % sc.name, False, 'onTcpSendCompleted never disconnects: the connection stays open after the close response', where=sc.loc(sc.body))


def r10(ctx, prog):
    ctx.rule('C12.R10', 'A5 per-request parser state: every RequestParser member that parse() updates relative to its old value (+=, ++, -=) is given an absolute value at the '
             'start of each request (the state_ == kInit stage), so that nothing accumulates over the requests of a keep-alive connection', floor=1)
    f = prog.fn1(PARSER + '::parse')
    rel = []
    for st in f.stmts:
        if not st:
            continue
        tgt = None
        if st['k'] == 'CompoundAssignOperator' and st.get('op') in ('+=', '-=', '*=', '|='):
            tgt = st['ch'][0]
        elif st['k'] == 'UnaryOperator' and st.get('op') in ('++', '--'):
            tgt = st['ch'][0]
        if tgt is not None:
            fq = f.field_of(tgt)
            if fq and fq.startswith(PARSER + '::'):
                rel.append((st, fq))
    # the kInit stage: statements controlled by the true edge of `state_ == kInit`
    init_pts = []
    for b in f.cfg.blocks.values():
        if b.cond is not None and q.edge_says(f, b.cond, 0, lambda l: l.endswith('state_'), ('==',), lambda r: r.endswith('kInit')):
            init_pts.append((b.cond, b.id))
    if not init_pts:
        raise AnalysisBroken('RequestParser::parse: the state_ == kInit stage was not found')
    for st, fq in rel:
        short = fq.split('::')[-1]
        absol = [a for a, rhs in q.assigns(f, short) if a['k'] == 'BinaryOperator' and a.get('op') == '=' and
                 any(c_ == ic and k_ == 0 for c_, k_, b_ in f.cfg.controlling_branches(q.pt(f, a)) for ic, ib in init_pts)]
        ctx.ob('C12.R10', '%s|%s' % (f.name, short), bool(absol), '%s is re-initialised in the kInit stage' % short if absol else
               '%s is updated relative to its previous value at %s but never given a fresh value when a new request starts: it keeps growing over the requests of one connection'
               % (short, f.loc(st['i'])), where=f.loc(st['i']))
    ctx.ob('C12.R10', '%s|relative-updates' % f.name, True, '%d relative member updates in parse() examined' % len(rel))
    # what a stage has learnt survives its own re-entry: parse() runs a stage again on the next call when the data ended inside it, so a member that the stage fills from
    # the input (a non-constant assignment) must not be reset by a statement of that same stage
    stage_of = lambda p_: [(c, b) for c, k, b in f.cfg.controlling_branches(p_) if k == 0 and any(l.endswith('state_') and o == '==' for l, o, r in q.edge_rels(f, c, k))]
    fields = sorted({(f.field_of(st['ch'][0]) or '') for st in f.stmts if st and st['k'] == 'BinaryOperator' and st.get('op') == '=' and (f.field_of(st['ch'][0]) or '').startswith(PARSER + '::')} - {''})
    n_f = 0
    for fq in fields:
        short = fq.split('::')[-1]
        if short == 'state_':
            continue
        asg = q.assigns(f, short)
        consts = [a for a, rhs in asg if (f.s(rhs) or {}).get('cv') is not None or any(f.stmts[x]['k'] in q.CALL_KINDS and 'numeric_limits' in (f.stmts[x].get('callee') or '') for x in f.walk(rhs))
                  or (f.s(f.strip_casts(rhs)) or {}).get('k') == 'DeclRefExpr' and (f.s(f.strip_casts(rhs)) or {}).get('gl')]
        data = [a for a, rhs in asg if a not in consts]
        if not consts or not data:
            continue
        n_f += 1
        bad = None
        for a in consts:
            sa = {c for c, b in stage_of(q.pt(f, a))}
            for d_ in data:
                sd = {c for c, b in stage_of(q.pt(f, d_))}
                if sa and sa & sd and f.cfg.exists_path(q.pt(f, a), q.pt(f, d_)):
                    # is the stage re-enterable: can the function be left after the data write with state_ unchanged?
                    st_w = q.pts(f, [x for x, r_ in q.assigns(f, 'state_')])
                    if f.cfg.exists_path(q.pt(f, d_), 'exit', avoid=st_w):
                        bad = (a, d_)
        ctx.ob('C12.R10', '%s|%s-survives-reentry' % (f.name, short), bad is None, 'the reset of %s is not in the stage that fills it' % short if bad is None else
               '%s is reset at %s in the same stage that fills it from the input at %s, and that stage is entered again on the next parse() call when the data ended inside it: '
               'what an earlier segment established is forgotten — the request parses when it arrives in one piece and fails when a segment boundary falls behind that header' %
               (short, f.loc(bad[0]['i']), f.loc(bad[1]['i'])), where=f.loc(bad[0]['i']) if bad else f.loc(f.body))
    if n_f < 1:
        raise AnalysisBroken('RequestParser::parse: no member with both a constant reset and a data assignment found')


def r7(ctx, prog):
    ctx.rule('C12.R7', 'A12 boundary agreement: close_index is the index of the closing request, whose response must still be sent; every comparison of '
             'res_index / a response index with close_index draws the line at the same place ("past the last" == index > close_index)', floor=1)
    n = 0
    for f in prog.funcs.values():
        if not f.file.endswith('http/server/server_imp.cpp'):
            continue
        for st in f.stmts:
            if not st or st['k'] != 'BinaryOperator' or st.get('op') not in ('<', '<=', '>', '>=', '==', '!='):
                continue
            l, r = st['ch']
            fl, fr = (f.field_of(l) or '').split('::')[-1], (f.field_of(r) or '').split('::')[-1]
            if 'close_index' not in (fl, fr):
                continue
            other, oid = (fl, l) if fr == 'close_index' else (fr, r)
            op = st['op'] if fr == 'close_index' else {'<': '>', '>': '<', '<=': '>=', '>=': '<=', '==': '==', '!=': '!='}[st['op']]
            ov = f.s(f.strip_casts(oid))
            if ov is not None and ov.get('cv') is not None or 'numeric_limits' in ' '.join(str(x.get('callee', '')) for x in q.subtree_calls(f, oid)):
                continue        # comparison with the "unset" sentinel, not with an index
            if other not in ('res_index', 'req_index') and f.path(oid) not in ('index',):
                raise AnalysisBroken('unrecognised comparison with close_index at %s' % f.loc(st['i']))
            n += 1
            ok = op in ('>', '<=')
            ctx.ob('C12.R7', '%s|%s %s close_index' % (f.name, f.path(oid), op), ok,
                   'boundary "index %s close_index" agrees with the definition (the response numbered close_index is still sent)' % op if ok else
                   'comparison "%s %s close_index" draws the boundary one off: the closing request\'s own response is treated as %s' %
                   (f.path(oid), op, 'not to be sent' if op in ('<', '>=') else 'special'), where=f.loc(st['i']))
    if n < 1:
        raise AnalysisBroken('no comparison against close_index found')


def r8(ctx, prog):
    ctx.rule('C12.R8', 'A4+A6 no self-inflicted end-of-stream: the transport reports read()==0 as "peer closed" and the HTTP layer then deletes the '
             'connection record with its parked responses (chain re-derived from the sources on every run), so the server must not shut down the '
             'read side of a connection that may still owe a response', floor=4)
    NET = 'tbox::network::'
    # link 1: BufferedFd::onReadCallback invokes read_zero_cb_ when the read returned 0
    rcb = prog.fn1(NET + 'BufferedFd::onReadCallback')
    inv = q.invokes(rcb, 'read_zero_cb_')
    if not inv:
        raise AnalysisBroken('teardown chain changed: BufferedFd::onReadCallback no longer invokes read_zero_cb_ (re-derive C12.R8)')
    ctx.ob('C12.R8', 'chain|read-zero', True, 'BufferedFd::onReadCallback reports a zero-length read through read_zero_cb_', where=rcb.loc(inv[0]['i']))
    # link 2: TcpConnection binds read_zero_cb_ to onSocketClosed, which disables the fd, drops the BufferedFd (send queue included) and reports the disconnect
    bound = False
    for f in prog.funcs.values():
        if f.name.startswith(NET + 'TcpConnection::'):
            for c in f.calls():
                if c.get('fn') == 'setReadZeroCallback' and any('onSocketClosed' in str(prog_s.get('q') or prog_s.get('n') or '') for a in c.get('args', ()) for prog_s in (f.stmts[x] for x in f.walk(a)) if prog_s):
                    bound = True
    osc = prog.fn1(NET + 'TcpConnection::onSocketClosed')
    if not bound or not q.invokes(osc, 'disconnected_cb_'):
        raise AnalysisBroken('teardown chain changed: TcpConnection no longer maps read-zero to onSocketClosed -> disconnected_cb_ (re-derive C12.R8)')
    ctx.ob('C12.R8', 'chain|socket-closed', True, 'TcpConnection binds read_zero_cb_ to onSocketClosed, which invokes disconnected_cb_', where=osc.loc(osc.body))
    # link 3: the HTTP layer deletes the connection record on disconnect
    otd = prog.fn1(IMPL + '::onTcpDisconnected')
    dels = [st for st in otd.stmts if st and st['k'] == 'CXXDeleteExpr']
    if not dels:
        raise AnalysisBroken('teardown chain changed: Server::Impl::onTcpDisconnected no longer deletes the connection record (re-derive C12.R8)')
    ctx.ob('C12.R8', 'chain|record-deleted', True, 'Server::Impl::onTcpDisconnected deletes the connection record (parked responses included)', where=otd.loc(dels[0]['i']))
    # the rule: no read-side shutdown by the HTTP server unless every owed response was already sent (res_index > close_index)
    n = 0
    for f in prog.funcs.values():
        if not f.file.startswith(MODULES + '/http/server/'):
            continue
        for c in f.calls():
            if c.get('fn') != 'shutdown' or not (c.get('cls', '').startswith(NET + 'Tcp') or c.get('callee') == 'shutdown'):
                continue
            how = f.s(f.strip_casts(c['args'][-1])).get('cv') if c.get('args') else None
            n += 1
            hname = {0: 'SHUT_RD', 1: 'SHUT_WR', 2: 'SHUT_RDWR'}.get(how, '?')
            g = f.cfg.controlling_branches(q.pt(f, c))
            done = any((lambda r_: r_ is not None and ((r_[0].endswith('res_index') and r_[1] == '>' and r_[2].endswith('close_index')) or
                                                        (r_[0].endswith('close_index') and r_[1] == '<' and r_[2].endswith('res_index'))))(q.edge_relation(f, cond, k)) for cond, k, b in g)
            # "sent" is only known in the send-complete callback: TcpServer::send() may leave part of the data in the connection's send queue
            drained = prog.outermost(f).name == IMPL + '::onTcpSendCompleted'
            ok = done and drained
            ctx.ob('C12.R8', '%s|shutdown(%s)' % (f.name, hname), ok,
                   'transport shutdown only in the send-complete callback after the last response (res_index > close_index)' if ok else
                   ('the server shuts down the read side of a connection that still owes responses: the next loop pass reads 0, TcpConnection::onSocketClosed '
                    'drops the send queue and onTcpDisconnected deletes the record — the response of a handler that completes later (and the unsent tail of a large one) is lost'
                    if how in (0, 2) and not done else
                    'the server shuts down the %s side outside the send-complete callback: TcpServer::send() may still hold part of the response in the send queue, '
                    'every later write fails and the client receives a truncated response' % ('write' if how == 1 else 'socket')),
                   where=f.loc(c['i']))
    ctx.ob('C12.R8', 'http/server|shutdown-sites', True, '%d transport shutdown call(s) in http/server examined' % n)


def r6(ctx, prog):
    ctx.rule('C12.R6', 'A7: onTcpReceived does not touch the connection record after deleting it', floor=1)
    f = prog.fn1(IMPL + '::onTcpReceived')
    dels = [st for st in f.stmts if st and st['k'] == 'CXXDeleteExpr' and f.path(st['ch'][0]) == 'conn']
    if not dels:
        raise AnalysisBroken('onTcpReceived: delete conn not found')
    uses = [st for st in f.stmts if st and st['k'] == 'DeclRefExpr' and st.get('n') == 'conn']
    for d in dels:
        dp = q.pt(f, d)
        bad = [u for u in uses if q.pt(f, u) and q.pt(f, u) != dp and u['i'] not in set(f.walk(d['i'])) and f.cfg.exists_path(dp, q.pt(f, u))]
        ctx.ob('C12.R6', '%s|no-use-after-delete' % f.name, not bad, 'no use of conn is reachable after delete conn' if not bad else 'conn used at %s after being deleted' % f.loc(bad[0]['i']), where=f.loc(d['i']))


def r12(ctx, prog):
    ctx.rule('C12.R12', 'A4 consume / flush pairing in the server: what parse() reports as consumed is removed from the receive buffer before the next parse or dispatch; every '
             'advance of res_index follows the send of exactly one response; a parked response that was sent is erased, and the parked map is searched again (with the '
             'advanced index) before the flush loop tests its iterator again', floor=5)
    IMPL = 'tbox::http::server::Server::Impl'
    f = prog.fn1(IMPL + '::onTcpReceived')
    ps = [c for c in f.calls() if c.get('fn') == 'parse']
    if len(ps) != 1:
        raise AnalysisBroken('onTcpReceived: expected one parse() call, found %d' % len(ps))
    holder = None
    for st in f.stmts:
        if st and st['k'] == 'DeclStmt':
            for d in st['decls']:
                if 'init' in d and ps[0]['i'] in set(f.walk(d['init'])):
                    holder = d
    hr = [c for c in f.calls() if c.get('fn') == 'hasRead' and c.get('args') and holder is not None and (f.s(f.strip_casts(c['args'][0])) or {}).get('d') == holder['d']]
    nxt = [q.pt(f, c) for c in f.calls() if c.get('fn') in ('getRequest', 'state')] + [q.pt(f, ps[0])]
    pp = q.pt(f, ps[0])
    ok = bool(hr) and not any(f.cfg.exists_path(pp, x, avoid=q.pts(f, hr)) for x in nxt if x is not None)
    ctx.ob('C12.R12', '%s|consume-parsed' % f.name, ok, 'buff.hasRead(<parse result>) precedes every use of the parser state and the next parse' if ok else
           'the bytes parse() reports as consumed are not removed from the buffer before the parser is consulted again: the same request is parsed and dispatched over and over',
           where=f.loc(ps[0]['i']))
    g = prog.fn1(IMPL + '::commitRespond')
    sends = send_sites(prog, g)
    incs = [st for st in g.stmts if st and st['k'] == 'UnaryOperator' and st.get('op') == '++' and g.path(st['ch'][0]).endswith('res_index')]
    if not sends or not incs:
        raise AnalysisBroken('commitRespond: sends / res_index increments not found (%d/%d)' % (len(sends), len(incs)))
    for inc in incs:
        ip = q.pt_or_term(g, inc)
        others = [q.pt_or_term(g, x) for x in incs if x is not inc]
        ok = any(g.cfg.dominates(q.pt(g, s_), ip) and g.cfg.exists_path(q.pt(g, s_), ip, avoid=[o for o in others if o]) for s_ in sends)
        ctx.ob('C12.R12', '%s|send-before-advance@%s' % (g.name, g.loc(inc['i']).split(':')[-1]), ok, 'this advance of res_index follows the send of one response' if ok else
               'res_index advances here without a response having been sent for it: the response at that index is skipped and never written', where=g.loc(inc['i']))
    loops = [st for st in g.stmts if st and st['k'] in ('WhileStmt', 'ForStmt') and st.get('cond') is not None and any(x['i'] in set(g.walk(st['i'])) for x in incs)]
    ers = [c for c in g.calls() if c.get('fn') == 'erase' and c.get('obj') is not None and 'res_buff' in g.path(c['obj'])]
    for lp in loops:
        cp = g.cfg.point_of(lp['cond'])
        body_sends = [s_ for s_ in sends if s_['i'] in set(g.walk(lp['i']))]
        body_ers = [e for e in ers if e['i'] in set(g.walk(lp['i']))]
        itv = [g.stmts[x].get('d') for x in g.walk(lp['cond']) if g.stmts[x]['k'] == 'DeclRefExpr' and g.stmts[x].get('dk') == 'Var']
        reassign = [st for st in g.stmts if st and (st['i'] in set(g.walk(lp['i']))) and ((st['k'] == 'BinaryOperator' and st.get('op') == '=') or (st['k'] == 'CXXOperatorCallExpr' and st.get('op') == '=')) and
                    (g.s(g.strip_casts(st['ch'][0] if st['k'] == 'BinaryOperator' else st.get('obj', -1))) or {}).get('d') in itv and any(c.get('fn') in ('find', 'erase', 'begin', 'lower_bound') for c in q.subtree_calls(g, st['i']))]
        ok1 = bool(body_sends) and bool(body_ers) and all(not g.cfg.exists_path(q.pt(g, s_), cp, avoid=q.pts(g, body_ers)) and
                                                         not g.cfg.exists_path(q.pt(g, s_), 'exit', avoid=q.pts(g, body_ers)) for s_ in body_sends)
        ctx.ob('C12.R12', '%s|sent-then-erased' % g.name, ok1, 'a parked response that was sent is erased before the loop goes round or the function returns' if ok1 else
               'a parked response is sent (and released) and a path leaves it in res_buff — back to the loop test or out of the function: the connection\'s teardown deletes it '
               'a second time', where=g.loc(lp['i']))
        # an erase whose own result is assigned to the iterator is its re-assignment
        ok2 = bool(reassign) and all(any(e['i'] in set(g.walk(r_['i'])) for r_ in reassign) or
                                     not g.cfg.exists_path(q.pt(g, e), cp, avoid=[q.pt_or_term(g, r_) for r_ in reassign]) for e in body_ers)
        ctx.ob('C12.R12', '%s|search-again' % g.name, ok2, 'after the erase the iterator is given a fresh value (find / the result of erase) before it is tested' if ok2 else
               'after res_buff.erase(iter) the loop tests iter again without a new find(): the erased iterator is compared and dereferenced', where=g.loc(lp['i']))


def run(ctx):
    prog = extract('ALL' if ctx.tier == 'thorough' else scope_units())
    ctx.guard(r1, ctx, prog)
    ctx.guard(r2, ctx, prog)
    ctx.guard(r3, ctx, prog)
    ctx.guard(r4, ctx, prog)
    ctx.guard(r5, ctx, prog)
    ctx.guard(r6, ctx, prog)
    # C12.R7 (the operator in comparisons with close_index) is retired: it condemned `res_index >= close_index` tested before the counter moves, which is the same
    # boundary (variant r16_close_test_before_count); the boundary is decided by the replay C12.R16, which catches what R7 caught (seed C12/b, r16_close_one_early)
    ctx.guard(r8, ctx, prog)
    ctx.guard(r10, ctx, prog)
    ctx.guard(r12, ctx, prog)
    ctx.guard(harden.run_threshold, ctx, prog, 'C12.R11', lambda g: g.file.startswith(MODULES + '/http/server/'), 'HTTP request parser', 1)
    ctx.guard(harden.run, ctx, prog, 'C12.R9', recv_entries(prog),
              lambda g: g.file.startswith(MODULES + '/http/') or g.file.startswith(MODULES + '/util/'), 'HTTP receive/commit path')
    from tbxlint import progress
    ctx.guard(progress.run_files, ctx, prog, 'C12.R13', ['http/server/request_parser.cpp', 'http/server/server_imp.cpp', 'http/server/context.cpp', 'http/common.cpp', 'http/url.cpp', 'http/request.cpp', 'http/respond.cpp', 'network/tcp_server.cpp'], 'HTTP receive path', floor=1)
    from rules import C12_replay
    ctx.guard(C12_replay.r14, ctx, prog)
    from rules import C12_respond
    ctx.guard(C12_respond.r16, ctx, prog)
    from tbxlint import divzero
    ctx.guard(divzero.rule, ctx, prog, 'C12.R15', 'A9 no division or remainder by a value that may be zero in the HTTP server: every integer /, % whose divisor is not a non-zero constant is preceded on every path by a test that the divisor is not zero (or the divisor is positive by construction): a zero that the peer can cause (a window width, a count, a length) is a SIGFPE that ends the process', ['/http/'], 30)
    return prog
