"""C09 — the asynchronous sink end to end, over interleavings (C09.R15).  Imported by rules/C09.py.

Several threads hand records to AsyncSink::handleLog under the dispatch lock of the logger (modelled as one mutex: C09.R2 establishes that every sink function runs under it);
tbxlint/minterp.py interprets Sink::handleLog / filter, AsyncSink::onEnable / onLogFrontEnd / onLogBackEndReadPipe / onDisable, the whole util::AsyncPipe underneath and the
util::Buffer of the back end; tbxlint/conc.py supplies the threads (producers, the pipe's background thread) and enumerates schedules.  A record's header travels through the
pipe as sizeof(LogContent) cells of which the first carries the record; its text as marked bytes.  The formatter is a probe.  When disable() returns: every record reached the
formatter exactly once, with exactly its own text, each thread's records in their order."""
import sys
import threading
from tbxlint.facts import AnalysisBroken
from tbxlint import minterp, conc
from tbxlint.minterp import P, S

ASINK = 'tbox::log::AsyncSink'
SINK = 'tbox::log::Sink'
PIPE = 'tbox::util::AsyncPipe'
IMPL = PIPE + '::Impl'


class Bench:
    def __init__(self, prog, schedule, H, cfg):
        self.prog, self.H = prog, H
        self.delivered = []
        self.flushed = 0
        noop = lambda it, f, st, a: None
        zero = lambda it, f, st, a: 0
        hooks = dict(minterp.VECTOR_HOOKS)
        hooks.update({'memcpy': self.h_memcpy, 'memmove': minterp.h_memcpy, 'onLogBackEnd': self.h_backend, 'flush': self.h_flush, 'now': zero, 'bind': lambda it, f, st, a: ('bind', a[0], list(a[1:])),
                      'move': lambda it, f, st, a: a[0], '__assert_fail': self.h_assert, 'abort': self.h_assert, 'pop_front': self.h_pop_front, 'milliseconds': lambda it, f, st, a: a[0] if a else 0,
                      'operator<<': zero})
        hooks.pop('count', None)
        self.it = minterp.Interp(prog, {'str:empty': [0]}, hooks=hooks, inline=('*',), max_steps=400000)
        it = self.it
        it.string_mode = True
        self.k = conc.Kernel(it, schedule)

        def new_thread(it_, f, st, args):
            if not args:
                r = {'__cls__': 'std::thread', '__open__': True}
                it_._keep.append(r)
                return r
            src = it_.record_of(args[0])
            if src is not None and src.get('__cls__') == 'std::thread':
                return src
            return self.k.new_thread_object(args[0], args[1:])
        it.ctor_hooks['std::thread'] = new_thread
        self.sink = it.new_record(ASINK)
        it._keep.append(self.sink)
        ap = self.sink.get('async_pipe_')
        if not isinstance(ap, dict):
            raise AnalysisBroken('AsyncSink::async_pipe_ is not a record')
        ctor = [g for g in prog.by_name.get(PIPE + '::AsyncPipe', ()) if g.d.get('ctor') and not g.params and g.body is not None]
        if len(ctor) != 1:
            raise AnalysisBroken('AsyncPipe(): %d candidate(s)' % len(ctor))
        it.run_ctor(ctor[0], ctor[0].stmts[0], ap, PIPE, ctor[0], [])
        impl = it.record_of(ap.get('impl_'))
        if impl is None:
            raise AnalysisBroken('AsyncPipe::impl_ is not a record after construction')
        for nm in ('curr_buffer_mutex_', 'full_buffers_mutex_', 'free_buffers_mutex_', 'buff_num_mutex_', 'full_buffers_cv_', 'free_buffers_cv_', 'backend_thread_'):
            impl[nm] = {'__cls__': 'std::sync', '__open__': True}
            it._keep.append(impl[nm])
        for nm in ('free_buffers_', 'full_buffers_'):
            if not isinstance(impl.get(nm), list):
                impl[nm] = []
        impl.update({'curr_buffer_': 0, 'buff_num_': 0, 'inited_': 0, 'stop_signal_': 0, 'cb_': 0})
        self.impl = impl
        self.sink['modules_level_'] = {'__map__': True}
        self.sink['lock_'] = {'__cls__': 'std::mutex', '__open__': True}
        it._keep.append(self.sink['lock_'])
        self.sink['is_pipe_inited_'] = 0
        c = self.sink.get('cfg_')
        if not isinstance(c, dict):
            raise AnalysisBroken('AsyncSink::cfg_ is not a record')
        c.update(cfg)
        self.dispatch_lock = {'__cls__': 'std::mutex', '__open__': True}
        it._keep.append(self.dispatch_lock)
        self.serial = 0

    def h_assert(self, it, f, st, a):
        it.fault(f, st, 'an assertion fails (abort)')
        raise minterp._Abort()

    def h_pop_front(self, it, f, st, a):
        v = minterp._vec(it, f, st)
        if not v:
            it.fault(f, st, 'pop_front on an empty sequence')
            return None
        v.pop(0)

    # ---- the record header as bytes
    def h_memcpy(self, it, f, st, a):
        dst, src, n = a[0], a[1], a[2]
        srec = it.record_of(src) if isinstance(src, P) and isinstance(it.mem.get(src.r), dict) else None
        drec = it.record_of(dst) if isinstance(dst, P) and isinstance(it.mem.get(dst.r), dict) else None
        if srec is not None and srec.get('__cls__') == 'LogContent':
            # a record header copied into a buffer: sizeof(LogContent) cells, the first of which carries the record
            off = src.o
            if off < 0 or off + n > self.H:
                it.fault(f, st, 'bytes %d..%d of a record header of %d byte(s) are copied' % (off, off + n, self.H))
                raise minterp._Abort()
            sp = it.span(f, st, dst, n, 'memcpy of (a part of) a record header into a buffer')
            if sp is None:
                raise minterp._Abort()
            whole = [('hdr', {k_: v for k_, v in srec.items() if not k_.startswith('__')})] + [('pad', srec.get('thread_id'), srec.get('line'), i) for i in range(1, self.H)]
            sp[0][sp[1]:sp[1] + n] = whole[off:off + n]
            return dst
        if drec is not None and drec.get('__cls__') == 'LogContent':
            sp = it.span(f, st, src, n, 'memcpy of a record header out of the buffer')
            if sp is None:
                raise minterp._Abort()
            c0 = sp[0][sp[1]] if n > 0 else None
            rest = sp[0][sp[1] + 1:sp[1] + n]
            if n == self.H and isinstance(c0, tuple) and c0[0] == 'hdr' and rest != [('pad', c0[1].get('thread_id'), c0[1].get('line'), i) for i in range(1, self.H)]:
                it.fault(f, st, 'a record header is put together from the bytes of two records (interleaved)')
                raise minterp._Abort()
            if n != self.H or not (isinstance(c0, tuple) and c0[0] == 'hdr'):
                it.fault(f, st, 'a record header is read at a position of the stream that is not the start of a frame (the record is corrupted / interleaved with another)')
                raise minterp._Abort()
            for k_, v in c0[1].items():
                drec[k_] = v
            return dst
        return minterp.h_memcpy(it, f, st, a)

    def h_backend(self, it, f, st, a):
        rec = it.record_of(a[0])
        tl, tp = rec.get('text_len'), rec.get('text_ptr')
        cells = []
        if isinstance(tl, int) and tl > 0:
            sp = it.span(f, st, tp, tl, 'the text of the record handed to the formatter') if isinstance(tp, P) else None
            cells = list(sp[0][sp[1]:sp[1] + tl]) if sp is not None else None
        self.delivered.append((rec.get('thread_id'), rec.get('line'), tl, cells, self.k.current.tid))
        self.k.reschedule('formatter')

    def h_flush(self, it, f, st, a):
        self.flushed = len(self.delivered)

    def call(self, cls, rec, name, args=()):
        cands = [g for g in self.prog.by_name.get(cls + '::' + name, ()) if g.body is not None and len(g.params) == len(args)]
        if len(cands) != 1:
            raise AnalysisBroken('%s::%s/%d: %d candidate(s)' % (cls, name, len(args), len(cands)))
        return self.it.call(cands[0], list(args), this=rec)

    def producer(self, pid, lens):
        def body():
            for j, tl in enumerate(lens):
                self.serial += 1
                name = 'text#%d' % self.serial
                self.it.mem[name] = [('x', pid, j, i) for i in range(tl)]
                content = {'__cls__': 'LogContent', '__open__': True, 'thread_id': pid, 'line': j, 'level': 3, 'module_id': S('m'), 'text_len': tl, 'text_ptr': P(name, 0) if tl else 0,
                           'text_trunc': 0}
                self.it._keep.append(content)
                # Dispatch(): every registered sink function runs under the logger's lock
                self.k._lock(self.dispatch_lock, self.prog.fn1(SINK + '::handleLog'), self.prog.fn1(SINK + '::handleLog').stmts[0])
                self.call(SINK, self.sink, 'handleLog', [self.it.ref(content)])
                self.k._unlock(self.dispatch_lock, self.prog.fn1(SINK + '::handleLog'), self.prog.fn1(SINK + '::handleLog').stmts[0])
        return body


def _short(sched):
    t = ''.join(str(c) for c in sched)
    return t if len(t) <= 80 else t[:80] + '... (%d choices)' % len(t)


def run_once(prog, H, cfg, producers, schedule):
    b = Bench(prog, schedule, H, cfg)
    k, it = b.k, b.it
    verdict = None
    try:
        try:
            b.call(ASINK, b.sink, 'onEnable', [])
            if not b.sink.get('is_pipe_inited_'):
                raise AnalysisBroken('AsyncSink::onEnable did not start the pipe (config %s)' % (cfg,))
            ths = [k.spawn(b.producer(pid, lens), (), name='logger-%d' % pid) for pid, lens in enumerate(producers)]
            k.park_main_until(lambda: all(t.done for t in ths), 'a logging thread never returns from the sink')
            if not it.faults:
                b.call(ASINK, b.sink, 'onDisable', [])
        except conc.Deadlock as e:
            if k.error is not None and 'does not terminate' not in str(k.error):
                raise k.error
            verdict = str(e) if k.error is None else None
        except AnalysisBroken as e:
            if 'does not terminate' not in str(e):
                raise
            k.error = e
        if k.error is not None and verdict is None:
            if 'does not terminate' in str(k.error):
                verdict = 'a thread loops without end (%s)' % str(k.error).split(':')[0]
            else:
                raise k.error
        if verdict is None and it.faults:
            verdict = it.faults[0]
        if verdict is None:
            verdict = judge(b, producers)
    finally:
        k.shutdown()
    return k.choices, verdict


def judge(b, producers):
    want = sum(len(l) for l in producers)
    seen = {}
    for pid, line, tl, cells, tid in b.delivered:
        if not isinstance(pid, int) or pid >= len(producers) or not isinstance(line, int) or line >= len(producers[pid]):
            return 'the formatter is handed a record nobody logged (thread %s, record %s)' % (pid, line)
        if (pid, line) in seen:
            return 'record %d of thread %d reaches the formatter twice' % (line, pid)
        seen[(pid, line)] = True
        tl0 = producers[pid][line]
        if tl != tl0 or cells != [('x', pid, line, i) for i in range(tl0)]:
            return 'record %d of thread %d reaches the formatter with %s' % (line, pid, 'a text length of %s instead of %d' % (tl, tl0) if tl != tl0 else 'bytes that are not its own text (interleaved with another record)')
    if len(seen) != want:
        return '%d record(s) were logged before disable() and %d had reached the formatter when it returned' % (want, len(seen))
    for pid in range(len(producers)):
        order = [line for p_, line, tl, cells, tid in b.delivered if p_ == pid]
        if order != sorted(order):
            return 'the records of thread %d reach the formatter in the order %s' % (pid, order)
    if b.flushed != len(b.delivered):
        return '%d record(s) handed to the formatter were not flushed when disable() returned' % (len(b.delivered) - b.flushed)
    if len(set(x[4] for x in b.delivered)) > 1:
        return 'the formatter runs on more than one thread'
    return None


CASES = [
    ({'buff_size': 64, 'buff_min_num': 1, 'buff_max_num': 2, 'interval': 1}, [[3, 0], [2]]),
    ({'buff_size': 0, 'buff_min_num': 1, 'buff_max_num': 1, 'interval': 1}, [[1], [1], [0]]),      # buff_size filled in: one header and a half
    ({'buff_size': -1, 'buff_min_num': 2, 'buff_max_num': 2, 'interval': 1}, [[5, 2], [4]]),         # buff_size filled in: less than a header
]


def r15(ctx, prog):
    full = ctx.tier == 'thorough'
    ctx.rule('C09.R15', 'A10 the asynchronous sink end to end over interleavings: two or three logging threads hand records (texts of 0..5 marked bytes) to Sink::handleLog under the '
             'dispatch lock; filter, AsyncSink::onLogFrontEnd (header, then text), the whole util::AsyncPipe (buffers larger than a record, of one header and a half, smaller than a '
             'header), its background thread, AsyncSink::onLogBackEndReadPipe on the interpreted util::Buffer and onDisable are interpreted with the threads as model threads and '
             'every schedule with at most %d preemption(s) or time-outs enumerated: when disable() returns every record has reached the formatter exactly once with exactly its own '
             'text, the records of each thread in order, all flushed, on one thread; no header is read anywhere but at the start of a frame' % (2 if full else 1), floor=1)
    need = [ASINK + '::onLogBackEndReadPipe', IMPL + '::threadFunc', 'tbox::util::Buffer::append', SINK + '::handleLog']
    if not all(any(g.name == n_ for g in prog.funcs.values()) for n_ in need):
        from tbxlint.facts import extract
        prog = extract('ALL')
    f = prog.fn1(ASINK + '::onLogBackEndReadPipe')
    sz = [st.get('cv') for st in f.stmts if st and st['k'] == 'UnaryExprOrTypeTraitExpr' and st.get('cv')]
    if not sz:
        raise AnalysisBroken('onLogBackEndReadPipe: sizeof(LogContent) not found')
    H = max(sz)
    old_stack, old_rec = threading.stack_size(), sys.getrecursionlimit()
    threading.stack_size(256 * 1024 * 1024)
    sys.setrecursionlimit(max(old_rec, 20000))
    bad = None
    runs = 0
    try:
        for i, (cfg, producers) in enumerate(CASES):
            cfg = dict(cfg)
            if cfg['buff_size'] == 0:
                cfg['buff_size'] = H + H // 2
            elif cfg['buff_size'] == -1:
                cfg['buff_size'] = H - 3
            elif cfg['buff_size'] < 2 * H:
                cfg['buff_size'] = 2 * H + 8
            n, sched, why = conc.explore(lambda s_: run_once(prog, H, cfg, producers, s_), preempt_bound=(2 if full else 1), max_runs=4000)
            runs += n
            if why is not None:
                bad = (cfg, producers, sched, why)
                break
    finally:
        threading.stack_size(old_stack)
        sys.setrecursionlimit(old_rec)
    ctx.ob('C09.R15', 'AsyncSink|interleavings', bad is None, '%d schedules over %d configurations' % (runs, len(CASES)) if bad is None else
           'pipe buffers of %d byte(s) (%d..%d of them), threads logging texts of %s byte(s), schedule %s: %s' % (bad[0]['buff_size'], bad[0]['buff_min_num'], bad[0]['buff_max_num'], bad[1],
                                                                                                            _short(bad[2]), bad[3]), where=f.loc(f.body))
