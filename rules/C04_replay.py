"""C04 — signal subscription replayed against a model of the process (C04.R12).  Imported by rules/C04.py.

tbxlint/minterp.py interprets the syntax trees of CommonLoop::subscribeSignal / unsubscribeSignal / onSignal, of the process-wide handler SignalHandlerFunc and of
SignalEventImpl (initialize, enable, disable, onSignal) for two loops that share the process-wide table.  The process is a model: a disposition per signal (default, or a
sentinel handler installed "before the first subscription"), sigaction() swaps dispositions, a pipe per loop (CreateFdPair, write, read in chunks of ten), delivering a signal
runs whatever the disposition says, and a turn of a loop dispatches its pipe's read event when the pipe holds something.  Scripts enable and disable signal events (persistent,
one-shot, two signals, two loops, one whose callback disables another) and deliver signals.  After every delivery and the turns that follow: exactly one callback on every
event that was enabled and subscribed, none on any other, the sentinel ran once; when no event is enabled for a signal its disposition is what it was before the first
subscription."""
import itertools
from tbxlint.facts import AnalysisBroken
from tbxlint import minterp
from tbxlint.minterp import P, It

L = 'tbox::event::CommonLoop'
E = 'tbox::event::SignalEventImpl'
EAGAIN = 11
SA_SIGINFO = 4


def _setv(it, f, st):
    v = it.cur_obj
    if not isinstance(v, list):
        raise AnalysisBroken('%s: set operation on something the replay does not hold as a set (%s)' % (f.short, f.loc(st['i'])))
    return v


def _set_insert(it, f, st, a):
    v = _setv(it, f, st)
    x = a[0]
    if not any(y == x for y in v):
        v.append(x)
        if all(isinstance(y, int) for y in v):
            v.sort()
    return None


def _set_erase(it, f, st, a):
    v = _setv(it, f, st)
    x = a[0]
    if isinstance(x, It):
        if 0 <= x.k < len(v):
            del v[x.k]
        return It(v, x.k)
    n = len(v)
    v[:] = [y for y in v if not (y == x)]
    return n - len(v)


def _set_find(it, f, st, a):
    v = _setv(it, f, st)
    for i, y in enumerate(v):
        if y == a[0]:
            return It(v, i)
    return It(v, len(v))


class HandlerUnion(dict):
    """the union inside struct sigaction: sa_handler and sa_sigaction are one storage"""
    ALIAS = {'sa_sigaction': 'sa_handler'}

    def __setitem__(self, k, v):
        dict.__setitem__(self, self.ALIAS.get(k, k), v)

    def __getitem__(self, k):
        return dict.__getitem__(self, self.ALIAS.get(k, k))

    def get(self, k, default=None):
        return dict.get(self, self.ALIAS.get(k, k), default)

    def __contains__(self, k):
        return dict.__contains__(self, self.ALIAS.get(k, k))


def _union(h=0):
    u = HandlerUnion()
    dict.__setitem__(u, '__cls__', None)
    dict.__setitem__(u, '__open__', True)
    u['sa_handler'] = h
    return u


class Process:
    def __init__(self, prog, sentinel_for=(), ignored=()):
        self.prog = prog
        self.disp = {}                  # signo -> {'flags', 'h'}; absent = default
        self.sentinel_runs = []
        for s_ in sentinel_for:
            self.disp[s_] = {'flags': 0, 'h': self.sentinel}
        for s_ in ignored:
            self.disp[s_] = {'flags': 0, 'h': 1}          # SIG_IGN
        self.original = {k: dict(v) for k, v in self.disp.items()}
        self.pipes = {}                 # write fd -> list of ints; read fd = write fd - 1
        self.next_fd = 10
        self.calls = []                 # (event index, signo)
        self.lib_handler = None
        self.problem = None
        noop = lambda it, f, st, a: None
        hooks = dict(minterp.VECTOR_HOOKS)
        hooks.update({'set::insert': _set_insert, 'set::erase': _set_erase, 'set::find': _set_find, 'map::operator[]': self.h_map_index,
                      'CreateFdPair': self.h_pair, 'close': self.h_close, 'write': self.h_write, 'read': self.h_read, 'sigaction': self.h_sigaction,
                      'sigfillset': noop, 'sigemptyset': noop, 'sigprocmask': noop, 'SetScopeExitAction': noop, 'memset': self.h_memset, 'newFdEvent': self.h_new_event,
                      'run': noop, 'beginEventProcess': noop, 'endEventProcess': noop, 'bind': lambda it, f, st, a: ('bind', a[0], list(a[1:])), 'abort': self.h_abort,
                      '__errno_location': lambda it, f, st, a: P('errno', 0), 'strerror': noop, 'unique_lock': noop, 'move': lambda it, f, st, a: a[0], '__libc_current_sigrtmax': lambda it, f, st, a: 64, '__libc_current_sigrtmin': lambda it, f, st, a: 34})
        for c in ('FdEvent', 'Event'):
            hooks[c + '::initialize'] = lambda it, f, st, a: 1
            hooks[c + '::setCallback'] = lambda it, f, st, a: it.record_of(it.cur_obj).__setitem__('cb', a[0])
            hooks[c + '::enable'] = lambda it, f, st, a: (it.record_of(it.cur_obj).__setitem__('enabled', 1), 1)[1]
            hooks[c + '::disable'] = lambda it, f, st, a: (it.record_of(it.cur_obj).__setitem__('enabled', 0), 1)[1]
        self.it = minterp.Interp(prog, {'str:empty': [0], 'errno': [0]}, hooks=hooks, inline=('*',), max_steps=4000000)
        self.it.noeval = set(getattr(self.it, 'noeval', ())) | {'LogNotice', 'LogErr', 'LogWarn'}
        self.ctxs = {'__map__': True}
        found = 0
        for n, kind in self.global_names():
            if kind == 'ctxs':
                self.it.globals[n] = self.ctxs
                found += 1
            else:
                self.it.globals[n] = 0
        if not found:
            raise AnalysisBroken('the process-wide table _signal_ctxs_ is not referred to by subscribeSignal')
        self.loops = []
        self.events = []

    def global_names(self):
        out = set()
        for nm in (L + '::subscribeSignal',):
            f = self.prog.fn1(nm)
            for st in f.stmts:
                if st and st['k'] == 'DeclRefExpr' and st.get('gl') and st.get('q'):
                    if (st.get('n') or '') == '_signal_ctxs_':
                        out.add((st['q'], 'ctxs'))
                    elif (st.get('n') or '') == '_signal_lock_':
                        out.add((st['q'], 'lock'))
        return out

    # ---- process model
    def sentinel(self, *a):
        self.sentinel_runs.append(a[0] if a else None)

    def h_abort(self, it, f, st, a):
        it.fault(f, st, 'an assertion of the library fails (abort)')
        raise minterp._Abort()

    def h_memset(self, it, f, st, a):
        r = it.record_of(a[0])
        if r is not None:
            # a struct sigaction cleared to zero
            inner = _union(0)
            it._keep.append(inner)
            mask = {'__cls__': None, '__open__': True}
            it._keep.append(mask)
            r.update({'sa_flags': 0, '__sigaction_handler': it.ref(inner), 'sa_restorer': 0, 'sa_mask': mask})
            return a[0]
        return minterp.h_memset(it, f, st, a)

    def sa_of(self, r):
        inner = self.it.record_of(r.get('__sigaction_handler'))
        h = 0
        if inner is not None:
            h = inner.get('sa_handler') or 0
        return {'flags': r.get('sa_flags', 0) or 0, 'h': h}

    def sa_into(self, r, d):
        inner = self.it.record_of(r.get('__sigaction_handler'))
        if inner is None or not isinstance(inner, HandlerUnion):
            inner = _union(0)
            self.it._keep.append(inner)
            r['__sigaction_handler'] = self.it.ref(inner)
        inner['sa_handler'] = d['h']
        r['sa_flags'] = d['flags']

    def h_sigaction(self, it, f, st, a):
        signo, newp, oldp = a[0], a[1], a[2]
        cur = self.disp.get(signo, {'flags': 0, 'h': 0})
        if oldp not in (0, None):
            r = it.record_of(oldp)
            if r is None:
                raise AnalysisBroken('sigaction: the old-action argument is not a record the replay holds (%s)' % f.loc(st['i']))
            self.sa_into(r, cur)
        if newp not in (0, None):
            r = it.record_of(newp)
            if r is None:
                raise AnalysisBroken('sigaction: the new-action argument is not a record the replay holds (%s)' % f.loc(st['i']))
            d = self.sa_of(r)
            if d['h'] in (0, None) and d['flags'] == 0:
                self.disp.pop(signo, None)
            else:
                self.disp[signo] = d
        return 0

    def h_map_index(self, it, f, st, a):
        m = it.cur_obj
        if not (isinstance(m, dict) and m.get('__map__')):
            raise AnalysisBroken('%s: operator[] on something the replay does not hold as a map (%s)' % (f.short, f.loc(st['i'])))
        key = a[-1]
        if key not in m:
            cls = st.get('cls') or ''
            if 'SignalCtx' in cls:
                old = {'__cls__': 'sigaction', '__open__': True}
                ctx = {'__cls__': 'SignalCtx', '__open__': True, 'write_fds': [], 'old_handler': old}
                it._keep += [old, ctx]
                self.sa_into(old, {'flags': 0, 'h': 0})
                m[key] = ctx
            else:
                m[key] = []
        v = m[key]
        return it.ref(v) if isinstance(v, dict) else v

    def h_pair(self, it, f, st, a):
        r, w = self.next_fd, self.next_fd + 1
        self.next_fd += 2
        self.pipes[w] = []
        # the two reference arguments are the loop's own descriptor fields (checked: the call names them)
        names = [(f.field_of(x) or '').split('::')[-1] for x in st['args'][:2]]
        if names != ['signal_read_fd_', 'signal_write_fd_'] or not isinstance(it.this, dict):
            raise AnalysisBroken('CreateFdPair is not called with (signal_read_fd_, signal_write_fd_) (%s)' % f.loc(st['i']))
        it.this['signal_read_fd_'], it.this['signal_write_fd_'] = r, w
        return 1

    def h_close(self, it, f, st, a):
        fd = a[0]
        w = fd if fd in self.pipes else None
        if w is not None:
            if self.pipes[w]:
                self.problem = self.problem or 'a pipe is closed while it still holds %d undelivered signal number(s)' % len(self.pipes[w])
            del self.pipes[w]
        return 0

    def h_write(self, it, f, st, a):
        fd = a[0]
        if fd not in self.pipes:
            it.fault(f, st, 'the handler writes to descriptor %s, which is not an open pipe of a subscribed loop' % (fd,))
            return -1
        p = a[1]
        v = it.mem[p.r][p.o] if isinstance(p, P) and p.r in it.mem and not isinstance(it.mem[p.r], dict) else None
        self.pipes[fd].append(v)
        return 4

    def h_read(self, it, f, st, a):
        fd, p, n = a[0], a[1], a[2]
        w = fd + 1
        if w not in self.pipes:
            it.fault(f, st, 'read from descriptor %s, which is not an open signal pipe' % (fd,))
            return -1
        q_ = self.pipes[w]
        if not q_:
            it.mem['errno'][0] = EAGAIN
            return -1
        k = min(len(q_), n // 4)
        sp = it.span(f, st, p, k, 'read() into the array handed to it')
        if sp is None:
            raise minterp._Abort()
        sp[0][sp[1]:sp[1] + k] = q_[:k]
        del q_[:k]
        return 4 * k

    def h_new_event(self, it, f, st, a):
        e = {'__cls__': 'tbox::event::FdEvent', '__open__': True, 'enabled': 0, 'cb': 0}
        it._keep.append(e)
        return it.ref(e)

    # ---- objects
    def new_loop(self):
        rec = self.it.new_record(L)
        self.it._keep.append(rec)
        rec['all_signals_subscribers_'] = {'__map__': True}
        rec['signal_read_fd_'] = rec['signal_write_fd_'] = -1
        rec['sp_signal_read_event_'] = 0
        self.loops.append(rec)
        return rec

    def new_event(self, loop, signals, oneshot, on_call=None):
        rec = self.it.new_record(E)
        self.it._keep.append(rec)
        idx = len(self.events)
        rec['wp_loop_'] = self.it.ref(loop)
        rec['sigset_'] = []
        rec['is_inited_'] = rec['is_enabled_'] = rec['cb_level_'] = 0

        def cb(signo, idx=idx):
            self.calls.append((idx, signo))
            if on_call is not None:
                on_call()
        rec['cb_'] = cb
        for s_ in signals:
            self.call(E, rec, 'initialize', [s_, 1 if oneshot else 0], pick=lambda g: g.params[0]['t'] == 'int')
        self.events.append({'rec': rec, 'loop': loop, 'signals': list(signals), 'oneshot': oneshot})
        return idx

    def call(self, cls, rec, name, args=(), pick=None):
        cands = [g for g in self.prog.by_name.get(cls + '::' + name, ()) if g.body is not None and len(g.params) == len(args) and (pick is None or pick(g))]
        if len(cands) != 1:
            raise AnalysisBroken('%s::%s/%d: %d candidate(s)' % (cls, name, len(args), len(cands)))
        return self.it.call(cands[0], list(args), this=rec)

    def enabled(self, idx):
        return bool(self.events[idx]['rec'].get('is_enabled_'))

    # ---- the process delivers, the loops turn
    def deliver(self, signo):
        d = self.disp.get(signo)
        if d is None:
            return 'default'
        h = d['h']
        if h == 1:
            return 'ignored'
        if h == self.sentinel:
            self.sentinel(signo)
            return 'sentinel'
        if not self.it.is_callable(h):
            raise AnalysisBroken('the disposition of signal %d is a value the replay cannot run (%r)' % (signo, h))
        f0 = self.prog.fn1(L + '::onSignal')
        if d['flags'] & SA_SIGINFO:
            self.it.invoke(f0, f0.stmts[0], h, [signo, 0, 0])
        else:
            self.it.invoke(f0, f0.stmts[0], h, [signo])
        return 'library' if isinstance(h, tuple) and h[0] == 'func' and h[2] == 'SignalHandlerFunc' else 'other'

    def turn(self):
        for lp in self.loops:
            ev = self.it.record_of(lp.get('sp_signal_read_event_'))
            w = lp.get('signal_write_fd_')
            if ev is not None and ev.get('enabled') and self.pipes.get(w):
                f0 = self.prog.fn1(L + '::onSignal')
                self.it.invoke(f0, f0.stmts[0], ev['cb'], [])


EVENTS = [('A', (10,), False, None), ('A', (10,), True, None), ('B', (10,), False, None), ('A', (10, 12), False, None), ('A', (10,), False, 0)]


def describe(a):
    return '%s(%s)' % (a[0], a[1])


def run_script(prog, script, sentinel_for, ignored=()):
    p = Process(prog, sentinel_for, ignored)
    loops = {'A': p.new_loop(), 'B': p.new_loop()}
    for lp, sigs, oneshot, victim in EVENTS:
        on_call = None
        if victim is not None:
            on_call = lambda victim=victim: p.call(E, p.events[victim]['rec'], 'disable')
        p.new_event(loops[lp], sigs, oneshot, on_call)
    fired = [0] * len(EVENTS)

    def dispositions(when):
        for s_ in (10, 12):
            subs = [i for i in range(len(EVENTS)) if p.enabled(i) and s_ in EVENTS[i][1]]
            d = p.disp.get(s_)
            lib = d is not None and isinstance(d['h'], tuple) and d['h'][0] == 'func'
            if subs and not lib:
                return '%s: event(s) %s are enabled for signal %d and the process does not run the handler of the library for it' % (when, subs, s_)
            if not subs:
                o = p.original.get(s_)
                if (d or None) != (o or None) and not (d is not None and o is not None and d['h'] == o['h'] and d['flags'] == o['flags']):
                    return '%s: no event is enabled for signal %d and its disposition is %s where %s was in force before the first subscription' % (
                        when, s_, 'the handler of the library' if lib else ('the default' if d is None else ('"ignore"' if d['h'] == 1 else 'another handler')),
                        'the default' if o is None else ('"ignore"' if o['h'] == 1 else 'the sentinel handler'))
        return None
    for n, a in enumerate(script):
        when = 'after step %d, %s' % (n + 1, describe(a))
        if a[0] == 'en':
            if not p.enabled(a[1]):
                fired[a[1]] = 0
            if not p.call(E, p.events[a[1]]['rec'], 'enable'):
                return '%s: enable() fails' % when
        elif a[0] == 'dis':
            p.call(E, p.events[a[1]]['rec'], 'disable')
        else:
            s_ = a[1]
            expect = [i for i in range(len(EVENTS)) if p.enabled(i) and s_ in EVENTS[i][1]]
            c0, r0 = len(p.calls), len(p.sentinel_runs)
            p.deliver(s_)
            if p.it.faults:
                return '%s: %s' % (when, p.it.faults[0])
            p.turn()
            p.turn()
            if p.it.faults:
                return '%s: %s' % (when, p.it.faults[0])
            got = p.calls[c0:]
            for i in range(len(EVENTS)):
                c = sum(1 for x in got if x == (i, s_))
                other = sum(1 for x in got if x[0] == i and x[1] != s_)
                if other:
                    return '%s: event %d is called back with a signal number that was not delivered' % (when, i)
                fired[i] += c
                if i in expect:
                    maybe_skipped = any(EVENTS[j][3] == i and j in expect for j in range(len(EVENTS)))
                    if c != 1 and not (maybe_skipped and c == 0):
                        return '%s: event %d (loop %s, %s) is enabled for signal %d and is called back %d time(s)' % (when, i, EVENTS[i][0], 'one-shot' if EVENTS[i][2] else 'persistent', s_, c)
                elif c:
                    return '%s: event %d is not enabled for signal %d and is called back' % (when, i, s_)
                if EVENTS[i][2] and fired[i] > 1:
                    return '%s: the one-shot event %d has fired %d times since it was enabled' % (when, i, fired[i])
            want = 1 if s_ in sentinel_for else 0
            if len(p.sentinel_runs) - r0 != want:
                return '%s: the handler installed before the first subscription runs %d time(s) for this delivery' % (when, len(p.sentinel_runs) - r0)
            if any(q_ for q_ in p.pipes.values()):
                return '%s: signal numbers are left unread in a pipe after the loops have turned' % when
        if p.it.faults:
            return '%s: %s' % (when, p.it.faults[0])
        why = p.problem or dispositions(when)
        if why:
            return why
    for i in range(len(EVENTS)):
        p.call(E, p.events[i]['rec'], 'disable')
    if p.it.faults:
        return 'final disable: %s' % p.it.faults[0]
    why = p.problem or dispositions('after every event has been disabled')
    if why:
        return why
    return None


def r12(ctx, prog):
    depth = 5 if ctx.tier == 'thorough' else 4
    alpha = [('en', i) for i in range(len(EVENTS))] + [('dis', i) for i in range(len(EVENTS))] + [('deliver', 10), ('deliver', 12)]
    scripts = []
    for n in range(1, depth + 1):
        for s_ in itertools.product(alpha, repeat=n):
            if s_[0][0] != 'en' or not any(a[0] == 'deliver' for a in s_) and n > 2:
                continue
            scripts.append(s_)
    scripts.append((('en', 0), ('en', 1), ('en', 2), ('en', 3), ('en', 4), ('deliver', 10), ('deliver', 10), ('deliver', 12), ('dis', 3), ('deliver', 12), ('en', 1), ('deliver', 10)))
    scripts.append((('en', 1), ('deliver', 10), ('deliver', 10), ('en', 1), ('deliver', 10), ('en', 2), ('dis', 2), ('deliver', 10)))
    ctx.rule('C04.R12', 'A10 signal subscription by abstract replay: %d scripts of up to %d steps (enable / disable of five signal events — persistent, one-shot, on a second loop, for two signals, '
             'one whose callback disables another — and deliveries of two signals, with and without a handler for one signal installed and the other signal ignored beforehand) run on the syntax trees of subscribeSignal, '
             'unsubscribeSignal, onSignal, the process-wide handler and SignalEventImpl over a model of the process (dispositions swapped by sigaction, a pipe per loop, read in '
             'chunks): each delivery gives exactly one callback on every enabled subscribed event in both loops and none elsewhere, the earlier handler runs once per delivery, a one-shot '
             'fires once per enable, the disposition is the library\'s exactly while an event is enabled for the signal and otherwise what it was before, no signal number is '
             'left unread in a pipe' % (2 * len(scripts), depth), floor=1)
    bad = None
    for sentinel_for, ignored in (((), ()), ((10,), (12,))):
        for s_ in scripts:
            why = run_script(prog, s_, sentinel_for, ignored)
            if why is not None:
                bad = (s_, sentinel_for, why)
                break
        if bad:
            break
    f = prog.fn1(L + '::onSignal')
    ctx.ob('C04.R12', 'signals|replay', bad is None, '%d runs: one callback per enabled subscriber, dispositions restored' % (2 * len(scripts)) if bad is None else
           'script %s%s: %s' % (' '.join(describe(a) for a in bad[0]), ' with a handler for signal 10 installed and signal 12 ignored beforehand' if bad[1] else '', bad[2]), where=f.loc(f.body))
