"""C14 — the completion chain of a JSON-RPC request wired end to end (C14.R18).  Imported by rules/C14.py.

"Every request issued with a completion callback has that callback invoked exactly once, with the matching response ... otherwise with a timeout error" rests on a
chain of hand-overs, each of which is a single statement that can be lost without any other rule noticing (statement-deletion sweep): the callback is stored under the id
that is sent and watched; the receive side classifies a message and relays (id, error code, result) to the Rpc object; the Rpc object looks the callback up under that id and
passes the relayed values on; the time-out watcher is installed, started and bound to the handler that completes with the time-out code.  The rule checks each link as a
data-dependence / must-call fact on the typed syntax tree."""
from tbxlint.facts import AnalysisBroken
from tbxlint import q, rd

NS = 'tbox::jsonrpc::'
RPC = NS + 'Rpc'


def _bound_methods(f, call):
    out = []
    for a in call.get('args', []):
        for x in f.walk(a):
            sx = f.stmts[x]
            if sx['k'] == 'DeclRefExpr' and sx.get('dk') == 'CXXMethod':
                out.append(sx.get('n'))
    return out


def _same_var(f, a, b):
    x, y = f.s(f.strip_casts(a)), f.s(f.strip_casts(b))
    return x is not None and y is not None and x['k'] == 'DeclRefExpr' and y['k'] == 'DeclRefExpr' and x.get('d') is not None and x.get('d') == y.get('d')


def _filled_from(f, var_expr, key, before_pt):
    """the local is handed by reference to GetField(js, "<key>", var) on a path to before_pt (or at it)"""
    v = f.s(f.strip_casts(var_expr))
    if v is None or v['k'] != 'DeclRefExpr':
        return False
    for c in f.calls():
        if (c.get('fn') or '') == 'GetField' and len(c.get('args', [])) == 3:
            k = [f.stmts[x] for x in f.walk(c['args'][1]) if f.stmts[x]['k'] == 'StringLiteral']
            t = f.s(f.strip_casts(c['args'][2]))
            if k and k[0].get('v') == key and t is not None and t['k'] == 'DeclRefExpr' and t.get('d') == v.get('d') and f.cfg.exists_path(q.pt(f, c), before_pt):
                return True
    return False


def r18(ctx, prog):
    ctx.rule('C14.R18', 'A4 the completion chain is wired end to end: request() stores the callback under the very id it sends and hands to the time-out watcher; initialize() installs and starts '
             'the watcher and registers both receive handlers with the framing on every successful path; Proto::onRecvJson relays a result as (id filled from "id", 0, the "result" member) and an '
             'error as (id filled from "id", code filled from "code", null) to the response handler and a request to the request handler; onRecvRespond/onRequestTimeout invoke the callback '
             'stored under the id they were given, with the relayed values resp. the time-out code', floor=8)
    # (1) request(): one id for store, watch and send
    reqs = [g for g in prog.fn(RPC + '::request') if len(g.params) == 3]
    if len(reqs) != 1:
        raise AnalysisBroken('Rpc::request(method, params, cb) not found')
    f = reqs[0]
    stores = [c for c in f.calls() if c['k'] == 'CXXOperatorCallExpr' and c.get('op') == '[]' and c.get('args') and 'obj' in c and (f.field_of(c['obj']) or '').endswith('request_callback_')]
    stores += [c for c in f.calls() if c.get('fn') in ('emplace', 'insert', 'insert_or_assign') and 'obj' in c and (f.field_of(c['obj']) or '').endswith('request_callback_')]
    adds = [c for c in f.calls() if c.get('fn') == 'add' and 'obj' in c and (f.field_of(c['obj']) or '').endswith('request_timeout_')]
    sends = [c for c in f.calls() if c.get('fn') == 'sendRequest']
    ok = bool(stores) and bool(adds) and bool(sends)
    if ok:
        key = stores[0]['args'][0]
        ok = all(_same_var(f, key, a['args'][0]) for a in adds) and all(_same_var(f, key, s_['args'][0]) for s_ in sends)
        # the watch follows the store wherever the store happens; the send happens on every path
        # no path files the callback without arming the time-out (before or after it); the send happens on every path
        ap = q.pts(f, adds)
        ok = ok and not any(f.cfg.exists_path(f.cfg.entry_point(), q.pt(f, s_), avoid=ap) and f.cfg.exists_path(q.pt(f, s_), 'exit', avoid=ap) for s_ in stores) and \
            not f.cfg.exists_path(f.cfg.entry_point(), 'exit', avoid=q.pts(f, sends))
    ctx.ob('C14.R18', '%s|one-id' % f.name, ok, 'the callback is stored, watched and sent under one id; every path sends' if ok else
           'request() does not store the callback, arm the time-out and send the request under one and the same id on every path: the response (or the time-out) is looked up under an id '
           'the callback is not filed under', where=f.loc(f.body))
    # (2) initialize(): watcher installed + started, handlers registered, on every path that returns true
    ini = prog.fn1(RPC + '::initialize')
    trues = [r for r in q.returns(ini) if q.return_const(ini, r) in (1, True)]
    need = {
        'time-out handler bound': [c for c in ini.calls() if c.get('fn') == 'setCallback' and 'obj' in c and (ini.field_of(c['obj']) or '').endswith('request_timeout_') and 'onRequestTimeout' in _bound_methods(ini, c)],
        'time-out watcher started': [c for c in ini.calls() if c.get('fn') == 'initialize' and 'obj' in c and (ini.field_of(c['obj']) or '').endswith('request_timeout_')],
        'receive handlers registered': [c for c in ini.calls() if c.get('fn') == 'setRecvCallback' and {'onRecvRequest', 'onRecvRespond'} <= set(_bound_methods(ini, c))],
    }
    if not trues:
        raise AnalysisBroken('Rpc::initialize: no successful return found')
    for what, cs in need.items():
        ok = bool(cs) and all(not ini.cfg.exists_path(ini.cfg.entry_point(), q.pt(ini, r), avoid=q.pts(ini, cs)) for r in trues)
        ctx.ob('C14.R18', '%s|%s' % (ini.name, what.replace(' ', '-')), ok, '%s on every successful path' % what if ok else
               'initialize() can return true without: %s — %s' % (what, 'requests that get no response are never completed' if 'time-out' in what else 'no response ever reaches a callback'),
               where=ini.loc(ini.body))
    ctor = [g for g in prog.methods_of(RPC) if g.d.get('ctor')]
    # (3) the relay in Proto::onRecvJson
    pj = prog.fn1(NS + 'Proto::onRecvJson')
    rsp = [c for c in pj.calls() if c['k'] == 'CXXOperatorCallExpr' and c.get('op') == '()' and 'obj' in c and (pj.field_of(c['obj']) or '').endswith('recv_respond_cb_') and len(c.get('args', [])) == 3]
    rq = [c for c in pj.calls() if c['k'] == 'CXXOperatorCallExpr' and c.get('op') == '()' and 'obj' in c and (pj.field_of(c['obj']) or '').endswith('recv_request_cb_') and len(c.get('args', [])) == 3]

    def klass(c):
        ks = set()
        for cond, k, b in pj.cfg.controlling_branches(q.pt(pj, c)):
            for x in q.subtree_calls(pj, cond):
                if x.get('fn') == 'contains' and k == 0:
                    lit = [pj.stmts[y].get('v') for a in x.get('args', []) for y in pj.walk(a) if pj.stmts[y]['k'] == 'StringLiteral']
                    ks.update(lit)
        return ks
    seen = {}
    for c in rsp:
        a = c['args']
        kl = klass(c)
        if 'result' in kl:
            res_member = any(x['k'] == 'CXXOperatorCallExpr' and x.get('op') == '[]' and any(pj.stmts[y].get('v') == 'result' for y in pj.walk(x['i']) if pj.stmts[y]['k'] == 'StringLiteral')
                             for x in [pj.stmts[y] for y in pj.walk(a[2])])
            ok = _filled_from(pj, a[0], 'id', q.pt(pj, c)) and pj.s(pj.strip_casts(a[1])).get('cv') == 0 and res_member
            seen['result'] = True
            ctx.ob('C14.R18', '%s|relay-result' % pj.name, ok, 'a result is relayed as (id from "id", 0, js["result"])' if ok else
                   'the result relay does not pass (the id read from "id", 0, the "result" member): the waiting callback gets a wrong error code or value, or another request is completed',
                   where=pj.loc(c['i']))
        elif 'error' in kl:
            ok = _filled_from(pj, a[0], 'id', q.pt(pj, c)) and _filled_from(pj, a[1], 'code', q.pt(pj, c))
            seen['error'] = True
            ctx.ob('C14.R18', '%s|relay-error' % pj.name, ok, 'an error is relayed as (id from "id", code from "code", null)' if ok else
                   'the error relay does not pass (the id read from "id", the code read from "code"): the waiting callback sees success or another request is completed', where=pj.loc(c['i']))
    for k_ in ('result', 'error'):
        if k_ not in seen:
            ctx.ob('C14.R18', '%s|relay-%s' % (pj.name, k_), False, 'a message with a "%s" member is not relayed to the response handler: the request it answers runs into its time-out' % k_, where=pj.loc(pj.body))
    okq = bool(rq) and all('method' in klass(c) and _filled_from(pj, c['args'][0], 'id', q.pt(pj, c)) and _filled_from(pj, c['args'][1], 'method', q.pt(pj, c)) for c in rq)
    ctx.ob('C14.R18', '%s|relay-request' % pj.name, okq, 'a request is relayed as (id from "id", method from "method", params)' if okq else
           'a message with a "method" member is not relayed to the request handler with its id and method', where=pj.loc(rq[0]['i']) if rq else pj.loc(pj.body))
    # (4) completion: the callback found under the id parameter, invoked with the relayed values / the time-out code
    for name, want in (('onRecvRespond', 'params'), ('onRequestTimeout', 'timeout')):
        g = prog.fn1(RPC + '::' + name)
        idp = g.params[0]['d']
        finds = [c for c in g.calls() if c.get('fn') in ('find', 'at') and 'obj' in c and (g.field_of(c['obj']) or '').endswith('request_callback_') and c.get('args')]
        inv = q.invokes(g)
        ok = bool(finds) and bool(inv) and all((g.s(g.strip_casts(c['args'][0])) or {}).get('d') == idp for c in finds)
        why = 'the callback is not looked up under the id the handler was given'
        if ok:
            for i in inv:
                args = i.get('args', [])
                if want == 'params':
                    good = len(args) == 2 and all((g.s(g.strip_casts(a)) or {}).get('d') == g.params[j + 1]['d'] for j, a in enumerate(args))
                    why = 'the callback is not given the error code and result the handler received'
                else:
                    a0 = g.s(g.strip_casts(args[0])) if args else None
                    good = a0 is not None and (a0.get('n') == 'kRequestTimeout' or (a0.get('cv') is not None and a0.get('cv') != 0))
                    why = 'the time-out completes the callback with an error code of 0 / without the time-out code'
                ok = ok and good
        ctx.ob('C14.R18', '%s|completes' % g.name, ok, 'looks the callback up under its id parameter and passes %s' % ('the relayed (code, result)' if want == 'params' else 'the time-out code') if ok else
               '%s(): %s' % (g.short, why), where=g.loc(g.body))
