"""C03 — enable()/disable() of both back-ends replayed over the interest-set state (C03.R11).  Imported by rules/C03.py.

State: the event's kinds (events_, 1..7), its enabled flag, the per-descriptor record (three subscriber counters, the cached epoll mask) and — for epoll —
a model of the kernel's registration for the descriptor (0 = not registered).  tbxlint/minterp.py interprets enable(), disable() and reloadEpoll(); epoll_ctl is
an event applied to the model.  Nothing of the repository is compiled or run."""
from tbxlint.facts import AnalysisBroken
from tbxlint import minterp
from tbxlint.minterp import P

KBIT = {'read': 1, 'write': 4, 'except': 8}       # EPOLLIN, EPOLLOUT, EPOLLERR
TBIT = {'read': 1, 'write': 2, 'except': 4}       # kReadEvent, kWriteEvent, kExceptEvent
CTR = {'read': 'read_event_num', 'write': 'write_event_num', 'except': 'except_event_num'}


def kmask(rec):
    return sum(KBIT[k] for k in KBIT if isinstance(rec[CTR[k]], int) and rec[CTR[k]] > 0)


def one(prog, ev, be, method, events, counters, enabled):
    rec = dict(counters)
    rec['fd_events'] = {}
    rec['fd'] = 7
    rec['ref'] = 1
    kernel = {'mask': 0, 'faults': []}
    if be == 'epoll':
        kernel['mask'] = kmask(rec)
        rec['ev'] = {'events': kernel['mask'], 'data': {'fd': 7, 'ptr': None}}
    mem = {'shared': rec, 'loop': {}}

    def h_ctl(it, f, st, a):
        op, evp = a[1], a[3]
        m = it.mem[evp.r]['events'] if isinstance(evp, P) and isinstance(it.mem.get(evp.r), dict) else None
        if op == 1:
            if kernel['mask'] != 0:
                kernel['faults'].append('EPOLL_CTL_ADD for a descriptor that is already registered (EEXIST)')
            kernel['mask'] = m
        elif op == 3:
            if kernel['mask'] == 0:
                kernel['faults'].append('EPOLL_CTL_MOD for a descriptor that is not registered (ENOENT)')
            kernel['mask'] = m
        elif op == 2:
            if kernel['mask'] == 0:
                kernel['faults'].append('EPOLL_CTL_DEL for a descriptor that is not registered (ENOENT)')
            kernel['mask'] = 0
        else:
            raise AnalysisBroken('epoll_ctl with an operation the replay does not know (%s)' % f.loc(st['i']))
        return 0
    noop = lambda it, f, st, a: None
    hooks = {'epoll_ctl': h_ctl, 'push_back': noop, 'emplace_back': noop, 'erase': noop, 'begin': noop, 'end': noop, 'find': noop, 'remove': noop, 'epollFd': lambda it, f, st, a: 3,
             '__builtin_expect': lambda it, f, st, a: a[0]}
    it = minterp.Interp(prog, mem, hooks=hooks, inline=('reloadEpoll',))
    it.this.update({'d_': P('shared', 0), 'events_': events, 'is_enabled_': int(enabled), 'fd_': 7, 'wp_loop_': P('loop', 0), 'cb_level_': 0})
    ret = it.call(prog.fn1(ev + '::' + method), [])
    return ret, rec, it.this, kernel, it.faults


def r11(ctx, prog, BACKENDS):
    ctx.rule('C03.R11', 'A10 interest-set protocol by abstract replay: enable() and disable() of both back-ends (with reloadEpoll() and a model of the kernel registration for epoll) are '
             'interpreted from every start state — kinds 1..7, each subscriber counter 0..2, enabled or not —: a state change steps exactly the counters of the event\'s own kinds by one, '
             'flips the enabled flag, a call that changes nothing leaves everything alone, and afterwards the kernel (and the cached mask) request exactly the kinds whose counter is '
             'positive, reached through epoll_ctl operations that are legal for the registration state', floor=4)
    for be, (ev, lp, sd) in BACKENDS.items():
        for method in ('enable', 'disable'):
            bad = None
            runs = 0
            for events in range(1, 8):
                for r0 in range(3):
                    for w0 in range(3):
                        for x0 in range(3):
                            for enabled in (0, 1):
                                c0 = {'read_event_num': r0, 'write_event_num': w0, 'except_event_num': x0}
                                if enabled and any(c0[CTR[k]] < 1 for k in TBIT if events & TBIT[k]):
                                    continue        # an enabled event has been counted
                                runs += 1
                                ret, rec, this, kernel, faults = one(prog, ev, be, method, events, c0, enabled)
                                acts = (method == 'enable' and not enabled) or (method == 'disable' and enabled)
                                step = (1 if method == 'enable' else -1) if acts else 0
                                want = {CTR[k]: c0[CTR[k]] + (step if events & TBIT[k] else 0) for k in TBIT}
                                why = None
                                if faults:
                                    why = faults[0]
                                elif any(rec[c] != want[c] for c in want):
                                    why = 'the counters end as %s where %s is due' % ({c: rec[c] for c in sorted(want)}, {c: want[c] for c in sorted(want)})
                                elif this['is_enabled_'] != (int(enabled) if not acts else int(method == 'enable')):
                                    why = 'the enabled flag ends as %s' % this['is_enabled_']
                                elif be == 'epoll' and kernel['faults']:
                                    why = kernel['faults'][0]
                                elif be == 'epoll' and kernel['mask'] != kmask(rec):
                                    why = 'the kernel is left watching mask %s where the counters call for %s' % (kernel['mask'], kmask(rec))
                                elif be == 'epoll' and rec['ev']['events'] != kernel['mask']:
                                    why = 'the cached mask %s differs from the registered mask %s' % (rec['ev']['events'], kernel['mask'])
                                elif ret not in (1, True):
                                    why = 'it returns %s' % ret
                                if why and bad is None:
                                    bad = (events, c0, enabled, why)
            f = prog.fn1(ev + '::' + method)
            if runs < 100:
                raise AnalysisBroken('%s: only %d start states replayed' % (f.name, runs))
            ctx.ob('C03.R11', '%s|protocol' % f.name, bad is None, '%d start states: counters, flag and registration follow the protocol' % runs if bad is None else
                   '%s() of an event with kinds %d on a descriptor with counters %s (event %s): %s — the descriptor\'s interest set no longer matches its enabled events'
                   % (method, bad[0], bad[1], 'enabled' if bad[2] else 'not enabled', bad[3]), where=f.loc(f.body))
