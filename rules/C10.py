"""C10 — asynchronous pipe (DESIGN §4 C10)."""
from tbxlint.facts import extract, AnalysisBroken
from tbxlint import locks, q

SCOPE = ['util/async_pipe.cpp', 'trace/sink.cpp', 'log/async_sink.cpp']
IMPL = 'tbox::util::AsyncPipe::Impl'
PIPE = 'tbox::util::AsyncPipe'
M_CURR = IMPL + '::curr_buffer_mutex_'
M_FULL = IMPL + '::full_buffers_mutex_'
M_FREE = IMPL + '::free_buffers_mutex_'
M_NUM = IMPL + '::buff_num_mutex_'


def scope_funcs(prog):
    out = []
    for f in prog.funcs.values():
        o = prog.outermost(f)
        if o.cls and (o.cls == PIPE or o.cls.startswith(PIPE + '::')):
            out.append(f)
    return out


def setup(prog):
    fs = scope_funcs(prog)
    eng = locks.LockEngine(prog, fs, sync_hof=('std::find', 'std::for_each'), deferred={})
    def m(n):
        return prog.fn1(n)
    producer = [m(PIPE + '::append'), m(PIPE + '::appendLock'),
                # appendUnlock releases the producer mutex appendLock took: by the same contract it is entered holding it
                (m(PIPE + '::appendUnlock'), [M_CURR]), (m(IMPL + '::appendUnlock'), [M_CURR]),
                # appendLockless is by contract called between appendLock/appendUnlock (checked by C10.R2c
                # over every caller in the program), so it is entered with the producer mutex
                (m(PIPE + '::appendLockless'), [M_CURR])]
    owner = [m(PIPE + '::initialize'), m(PIPE + '::cleanup'), m(PIPE + '::setCallback'), m(PIPE + '::AsyncPipe'),
             m(PIPE + '::~AsyncPipe')]
    backend = m(IMPL + '::threadFunc')
    ctxs = eng.contexts({'producer': producer, 'owner': owner, 'backend': [backend]},
                        thread_entries={backend.usr: 'backend'})
    return eng, ctxs, backend


def r1(ctx, prog, eng, ctxs):
    ctx.rule('C10.R1', 'A1: every conflicting concurrent access pair to the pipe state shares a lock (roles: producers (multi), '
                       'backend thread, owner; owner/producer exclusive by contract; before thread start / after join exempt)', floor=20)
    fields = locks.class_fields(prog, IMPL)
    exceptions = {
        'cfg_': 'written by the owner in initialize() before the backend thread is started; read-only afterwards',
        'cb_': 'set by the owner before the first append; the backend reads it only after taking a buffer that a producer '
               'queued under full_buffers_mutex_/curr_buffer_mutex_, so the mutex hand-over orders the accesses (happens-before, not lockset)',
    }
    accs = locks.race_rule(ctx, 'C10.R1', prog, eng, ctxs, fields, multi_roles=('producer',),
                           not_concurrent=[('owner', 'producer')], exceptions=exceptions,
                           phase=locks.thread_phase(prog, eng, {IMPL + '::backend_thread_': 'backend'},
                                                    starters={IMPL + '::initialize': 'backend'}))
    roles = {a['role'] for a in accs if a['field'] == IMPL + '::stop_signal_'}
    if not {'owner', 'backend'} <= roles:
        raise AnalysisBroken('stop_signal_ not seen in owner and backend roles: %s' % roles)
    roles = {a['role'] for a in accs if a['field'] == IMPL + '::full_buffers_'}
    if not {'producer', 'backend'} <= roles:
        raise AnalysisBroken('full_buffers_ not seen in producer and backend roles: %s' % roles)


def r2(ctx, prog, eng):
    ctx.rule('C10.R2', 'A3: one append is one critical section of the producer mutex: Impl::append holds it across '
                       'appendLockless, appendLockless never releases it, and every external appendLockless call sits '
                       'between appendLock and appendUnlock on the same pipe', floor=3)
    ap = prog.fn1(IMPL + '::append')
    res = eng.analyze(ap, frozenset())
    cs = q.calls(ap, callee=IMPL + '::appendLockless')
    if not cs:
        raise AnalysisBroken('Impl::append does not call appendLockless')
    for c in cs:
        ctx.ob('C10.R2', '%s|holds' % ap.name, M_CURR in (res.get(q.pt(ap, c)) or ()), 'appendLockless called with curr_buffer_mutex_ held',
               where=ap.loc(c['i']))
    # the whole datum goes through one critical section: one call, with the caller's own (ptr, size), not in a loop
    whole = len(cs) == 1 and [ap.path(a) for a in cs[0]['args']] == [p_['n'] for p_ in ap.params] and \
        ap.enclosing(cs[0]['i'], ('ForStmt', 'WhileStmt', 'DoStmt', 'CXXForRangeStmt')) is None
    ctx.ob('C10.R2', '%s|whole-datum' % ap.name, whole,
           'append() passes its whole datum to appendLockless once, inside one critical section' if whole else
           'append() splits the datum over several critical sections of the producer mutex: appends of other threads can land between the pieces', where=ap.loc(cs[0]['i']))
    al = prog.fn1(IMPL + '::appendLockless')
    r2_ = eng.analyze(al, frozenset([M_CURR]))
    lost = [p for p, e in al.cfg.points() if r2_.get(p) is not None and M_CURR not in r2_[p]]
    waits = [st for st in al.stmts if st and q.is_call(st, cls='std::condition_variable') and st.get('fn') in locks.CV_WAITS
             and al.path(st['args'][0]) != '?' and eng._var_locks(al).get(al.s(al.strip_casts(st['args'][0])).get('d'), (None,))[0] == M_CURR]
    ctx.ob('C10.R2', '%s|never-releases' % al.name, not lost and not waits and M_CURR in r2_['exit'],
           'appendLockless keeps the producer mutex at every point (no unlock, no wait on it)', where=al.loc(al.body))
    # external callers
    n = 0
    for f in prog.funcs.values():
        o = prog.outermost(f)
        if o.cls and o.cls.startswith(PIPE):
            continue
        for c in q.calls(f, callee=PIPE + '::appendLockless'):
            n += 1
            obj = f.path(c['obj'])
            cp = q.pt(f, c)
            lk = [x for x in q.calls(f, callee=PIPE + '::appendLock') if f.path(x['obj']) == obj and x.get('fn') == 'appendLock']
            ul = [x for x in q.calls(f, callee=PIPE + '::appendUnlock') if f.path(x['obj']) == obj]
            ok = bool(lk) and bool(ul) and not f.cfg.exists_path(f.cfg.entry_point(), cp, avoid=q.pts(f, lk)) \
                and not any(f.cfg.exists_path(q.pt(f, u), cp, avoid=q.pts(f, lk)) for u in ul) \
                and q.must_follow(f, cp, q.pts(f, ul))
            ctx.ob('C10.R2', '%s|bracketed' % locks.site_name(prog, f), ok,
                   'appendLockless on %s is dominated by appendLock (no unlock in between) and followed by appendUnlock on every path' % obj,
                   where=f.loc(c['i']))
    ctx.stats['external_appendLockless_calls'] = n


def r3(ctx, prog, eng, ctxs, backend):
    ctx.rule('C10.R3', 'A6: full buffers are queued at the back and taken from the front; a buffer is reset only after the sink '
                       'callback returned; the callback is invoked only by the backend thread with no pipe lock held', floor=5)
    put = {'push_back', 'emplace_back'}
    for f in scope_funcs(prog):
        for st in f.stmts:
            if st and st['k'] in q.CALL_KINDS and q.obj_field_is(f, st, 'Impl::full_buffers_'):
                fn = st.get('fn')
                if fn in ('push_back', 'push_front', 'emplace_back', 'emplace_front', 'insert', 'emplace'):
                    ctx.ob('C10.R3', '%s|queue-put' % locks.site_name(prog, f), fn in put, 'full_buffers_ grows with %s' % fn, where=f.loc(st['i']))
                elif fn in ('front', 'back', 'pop_front', 'pop_back', 'erase', 'at', 'operator[]'):
                    ctx.ob('C10.R3', '%s|queue-take' % locks.site_name(prog, f), fn in ('front', 'pop_front'), 'full_buffers_ consumed with %s' % fn, where=f.loc(st['i']))
    roles_of = {}
    for f, e, r in ctxs:
        roles_of.setdefault(f.key, set()).add((r, e))
    inv_n = 0
    for f in scope_funcs(prog):
        for st in q.invokes(f, 'Impl::cb_'):
            inv_n += 1
            rs = {r for r, e in roles_of.get(f.key, ())}
            ctx.ob('C10.R3', '%s|cb-role' % locks.site_name(prog, f), rs == {'backend'}, 'sink callback invoked in role(s) %s' % sorted(rs), where=f.loc(st['i']))
            for r, e in roles_of.get(f.key, ()):
                ls = eng.analyze(f, e).get(q.pt(f, st))
                if ls is not None:
                    ctx.ob('C10.R3', '%s|cb-nolock' % locks.site_name(prog, f), not ls,
                           'locks held at the callback: {%s}' % ','.join(sorted(x.split('::')[-1] for x in ls)), where=f.loc(st['i']))
    if inv_n == 0:
        raise AnalysisBroken('no invocation of Impl::cb_ found')
    # reset after callback
    inv = q.invokes(backend, 'Impl::cb_')
    resets = [st for st in backend.stmts if st and q.is_call(st, fn='reset', cls=IMPL + '::Buffer')]
    if not resets:
        raise AnalysisBroken('threadFunc: Buffer::reset not found')
    for r in resets:
        rp = q.pt(backend, r)
        # every path from the take (front) to reset passes ... the callback when set: callback is guarded by `if (cb_)`;
        # require: no path from an invoke to ... simpler: reset is not reachable before the invoke within one take:
        takes = [st for st in backend.stmts if st and q.is_call(st, fn='front') and q.obj_field_is(backend, st, 'Impl::full_buffers_')]
        ok = bool(takes)
        for i in inv:
            ip = q.pt(backend, i)
            guards = [(c, k, b) for c, k, b in backend.cfg.controlling_branches(ip)
                      if any(x.endswith('Impl::cb_') for x in q.subtree_fields(backend, c))]
            if not guards:
                # unconditional invoke: it must simply dominate the reset
                ok = ok and backend.cfg.dominates(ip, rp)
                continue
            for c, k, b in guards:
                cp = backend.cfg.point_of(c)
                # the callback test dominates the reset, and from its "set" edge the reset is only reached through the invoke
                ok = ok and backend.cfg.dominates(cp, rp) and not backend.cfg.exists_path(
                    (b, len(backend.cfg.blocks[b].el)), rp, avoid=[ip], src_inclusive=True,
                    edge_filter=lambda bb, kk, b=b, k=k: not (bb == b and kk != k))
        ctx.ob('C10.R3', '%s|reset-after-cb' % backend.name, ok, 'between two callback invocations the buffer handed out is reset (and reset follows the callback)', where=backend.loc(r['i']))
        # callback argument is the buffer taken from the front
        for i in inv:
            args = [backend.path(a) for a in i.get('args', [])]
            tgt = backend.path(r['obj'])
            ctx.ob('C10.R3', '%s|cb-arg' % backend.name, all(a.startswith(tgt + '.') for a in args) and len(args) == 2,
                   'callback receives data()/size() of the buffer that is reset afterwards (%s)' % args, where=backend.loc(i['i']))


def r4(ctx, prog, eng):
    ctx.rule('C10.R4', 'A4: back-pressure — a producer allocates a new buffer only under buff_num_ < buff_max_num, otherwise it '
                       'waits on free_buffers_cv_ with a non-empty predicate; the backend takes curr_buffer_ only after a successful try_lock', floor=3)
    al = prog.fn1(IMPL + '::appendLockless')
    news = [st for st in al.stmts if st and st['k'] == 'CXXNewExpr' and st.get('cat', '').endswith('Buffer')]
    if not news:
        raise AnalysisBroken('appendLockless: no new Buffer')
    for n in news:
        p = q.pt(al, n)
        ok = False
        for cond, k, b in q.guards_incl_flags(al, p):
            c = al.s(al.strip_casts(cond))
            if c and c['k'] == 'BinaryOperator' and c.get('op') == '<' and k == 0:
                lf, rf = q.subtree_fields(al, c['ch'][0]), q.subtree_fields(al, c['ch'][1])
                if any(x.endswith('buff_num_') for x in lf) and any(x.endswith('buff_max_num') for x in rf):
                    ok = True
        ctx.ob('C10.R4', '%s|alloc-bounded' % al.name, ok, 'new Buffer is control dependent on buff_num_ < cfg_.buff_max_num', where=al.loc(n['i']))
        incs = [st for st in q.writes(al, 'Impl::buff_num_')]
        ctx.ob('C10.R4', '%s|alloc-counted' % al.name, q.dominated_incl_flags(al, q.pts(al, incs), p),
               'the counter is incremented before the allocation on that path', where=al.loc(n['i']))
    waits = [st for st in al.stmts if st and q.is_call(st, cls='std::condition_variable') and st.get('fn') in locks.CV_WAITS]
    okw = False
    for w in waits:
        if q.obj_field_is(al, w, 'Impl::free_buffers_cv_') and len(w.get('args', [])) >= 2:
            lam = al.s(al.strip_casts(w['args'][-1]))
            for x in al.walk(w['args'][-1]):
                if al.stmts[x]['k'] == 'LambdaExpr':
                    lf = prog.lambda_func(al, al.stmts[x])
                    if lf and any(st and q.is_call(st, fn='empty') and q.obj_field_is(lf, st, 'Impl::free_buffers_') for st in lf.stmts):
                        okw = True
    ctx.ob('C10.R4', '%s|wait-nonempty' % al.name, okw, 'when the limit is reached the producer waits on free_buffers_cv_ with predicate !free_buffers_.empty()', where=al.loc(al.body))
    # take from free list only when non-empty: back()/pop_back dominated by (empty test false) or push_back or the wait
    back = [st for st in al.stmts if st and q.is_call(st, fn='back') and q.obj_field_is(al, st, 'Impl::free_buffers_')]
    for bk in back:
        bp = q.pt(al, bk)
        empt = [st for st in al.stmts if st and q.is_call(st, fn='empty') and q.obj_field_is(al, st, 'Impl::free_buffers_')]
        ok = any(al.cfg.dominates(q.pt(al, e), bp) for e in empt)
        ctx.ob('C10.R4', '%s|take-free' % al.name, ok, 'free_buffers_.back() is dominated by the emptiness test (whose empty branch allocates or waits)', where=al.loc(bk['i']))
    # backend flush under try_lock: covered by R1 lockset at the curr_buffer_ accesses in threadFunc (must-hold via try_lock true edge)


def r5(ctx, prog, eng, backend):
    ctx.rule('C10.R5', 'A4: cleanup raises the stop flag, notifies, joins; the backend\'s quit path hands the partial buffer over '
                       'and drains the queue before leaving its loop', floor=4)
    cl = prog.fn1(IMPL + '::cleanup')
    ws = [st for st in q.writes(cl, 'Impl::stop_signal_')]
    true_w = [a for a, rhs in q.assigns(cl, 'Impl::stop_signal_') if cl.s(cl.strip_casts(rhs)).get('v') is True or cl.s(cl.strip_casts(rhs)).get('cv') == 1]
    notif = [st for st in cl.stmts if st and q.is_call(st, fn='notify_all') and q.obj_field_is(cl, st, 'Impl::full_buffers_cv_')]
    joins = [st for st in cl.stmts if st and q.is_call(st, fn='join', cls='std::thread')]
    if not true_w:
        raise AnalysisBroken('Impl::cleanup: no store of true to stop_signal_')
    ctx.ob('C10.R5', '%s|notifies' % cl.name, bool(notif), 'cleanup wakes the backend thread (full_buffers_cv_.notify_all)', where=cl.loc(cl.body))
    ctx.ob('C10.R5', '%s|joins' % cl.name, bool(joins), 'cleanup joins the backend thread', where=cl.loc(cl.body))
    for n in notif:
        ctx.ob('C10.R5', '%s|flag-before-notify' % cl.name, any(cl.cfg.dominates(q.pt(cl, w), q.pt(cl, n)) for w in true_w), 'stop flag stored before notify_all', where=cl.loc(n['i']))
    for j in joins:
        ctx.ob('C10.R5', '%s|notify-before-join' % cl.name, any(cl.cfg.dominates(q.pt(cl, n), q.pt(cl, j)) for n in notif), 'notify_all before join', where=cl.loc(j['i']))
    for w in true_w:
        ctx.ob('C10.R5', '%s|join-follows' % cl.name, q.must_follow(cl, q.pt(cl, w), q.pts(cl, joins)), 'every path after raising the flag joins the backend thread', where=cl.loc(w['i']))
    # backend: exit of the outer loop
    f = backend
    outer = [st for st in f.stmts if st and st['k'] in ('ForStmt', 'WhileStmt') and f.enclosing(st['i'], ('ForStmt', 'WhileStmt', 'DoStmt')) is None]
    if len(outer) != 1:
        raise AnalysisBroken('threadFunc: expected one outer loop, found %d' % len(outer))
    brks = [st for st in f.stmts if st and st['k'] == 'BreakStmt' and f.enclosing(st['i'], ('ForStmt', 'WhileStmt', 'DoStmt')) == outer[0]['i']]
    if not brks:
        raise AnalysisBroken('threadFunc: no break out of the outer loop')
    drains = [st for st in f.stmts if st and q.is_call(st, fn='empty') and q.obj_field_is(f, st, 'Impl::full_buffers_')
              and f.enclosing(st['i'], ('ForStmt', 'WhileStmt', 'DoStmt')) not in (None, outer[0]['i'])]
    trys = [st for st in f.stmts if st and q.is_call(st, fn='push_back') and q.obj_field_is(f, st, 'Impl::full_buffers_') and st.get('args') and
            (f.field_of(st['args'][0]) or '').endswith('Impl::curr_buffer_')]
    for b in brks:
        bp = q.pt(f, b) or f.cfg.point_of(b['i'])
        if bp is None:
            # break statements are terminators-less; use the controlling condition's point
            par = f.enclosing(b['i'], ('IfStmt',))
            bp = f.cfg.point_of(f.stmts[par]['cond']) if par is not None else None
        par = f.enclosing(b['i'], ('IfStmt',))
        if par is None or bp is None:
            raise AnalysisBroken('threadFunc: exit break is not under an if')
        qvars = {f.stmts[x].get('d') for x in f.walk(f.stmts[par]['cond']) if f.stmts[x]['k'] == 'DeclRefExpr'}
        cp = f.cfg.point_of(f.stmts[par]['cond'])
        ok_drain = any(f.cfg.dominates(q.pt(f, d), cp) for d in drains)
        ctx.ob('C10.R5', '%s|drain-before-exit' % f.name, ok_drain, 'the drain loop\'s emptiness test dominates the exit test', where=f.loc(b['i']))
        ok_flush = False
        for t in trys:
            for cond, k, blk in f.cfg.controlling_branches(q.pt(f, t)):
                vars_ = {f.stmts[x].get('d') for x in f.walk(cond) if f.stmts[x]['k'] == 'DeclRefExpr'}
                c = f.s(f.strip_casts(cond))
                if qvars & vars_ and k == 0:
                    ok_flush = True
                # `a || b` is lowered to two blocks: the try_lock is reached from the true edge of either
            # lowered short-circuit: accept when the quit variable appears in a condition on which try_lock is control dependent
            if f.cfg.dominates(q.pt(f, t), cp) is False:
                pass
        # short-circuit lowering makes control dependence per-disjunct; fall back to the enclosing if's full condition
        for t in trys:
            ifs = [a for a in f.ancestors(t['i']) if f.stmts[a]['k'] == 'IfStmt' and t['i'] not in set(f.walk(f.stmts[a]['cond']))]
            for a in ifs:
                c = f.s(f.strip_casts(f.stmts[a]['cond']))
                vars_ = {f.stmts[x].get('d') for x in f.walk(f.stmts[a]['cond']) if f.stmts[x]['k'] == 'DeclRefExpr'}
                only_or = all(f.stmts[x].get('op') == '||' for x in f.walk(f.stmts[a]['cond']) if f.stmts[x]['k'] == 'BinaryOperator')
                if qvars & vars_ and only_or and f.cfg.dominates(f.cfg.point_of(f.stmts[a]['cond']), cp):
                    ok_flush = True
        ctx.ob('C10.R5', '%s|flush-on-quit' % f.name, ok_flush,
               'the partial-buffer hand-over runs under a disjunction containing the quit flag, before the exit test', where=f.loc(b['i']))


def r6(ctx, prog, eng, ctxs):
    ctx.rule('C10.R6', 'A2: the lock-order graph over the four pipe mutexes is acyclic', floor=1)
    edges = locks.lock_order_edges(prog, eng, ctxs)
    cyc = locks.find_cycle(edges.keys())
    ctx.ob('C10.R6', '%s|lock-order' % IMPL, cyc is None,
           'edges: ' + '; '.join('%s->%s' % (a.split('::')[-1], b.split('::')[-1]) for a, b in sorted(edges)) +
           ('' if cyc is None else ' CYCLE ' + '->'.join(x.split('::')[-1] for x in cyc)))
    ctx.stats['lock_order_edges'] = ['%s->%s @ %s' % (a.split('::')[-1], b.split('::')[-1], w) for (a, b), w in sorted(edges.items())]
    if len(edges) < 3:
        raise AnalysisBroken('lock-order graph lost its edges (%d)' % len(edges))
    # wait-for edges: a role that waits on a condition variable while holding another mutex M depends on the notifier of that
    # variable; if a notifier role ever *blocks* on M the two wait for each other (try_lock does not block)
    waits = []      # (role, cv field, held set, where)
    notifiers = {}  # cv field -> roles
    blocking = {}   # role -> {mutex: where}
    for f, entry, role in ctxs:
        res = eng.analyze(f, entry)
        vl = eng._var_locks(f)
        ctor_to_var = {v[2]: v for d, v in vl.items()}
        for pt, st in f.cfg.stmt_points():
            ls = res.get(pt)
            if ls is None:
                continue
            if st['k'] == 'CXXMemberCallExpr' and st.get('cls', '').startswith('std::condition_variable'):
                cv = f.field_of(st.get('obj'))
                if st.get('fn') in locks.CV_WAITS and st.get('args'):
                    lk = f.s(f.strip_casts(st['args'][0]))
                    own = vl.get(lk.get('d'), (None,))[0] if lk else None
                    waits.append((role, cv, set(ls) - {own}, f.loc(st['i'])))
                elif st.get('fn') in ('notify_one', 'notify_all'):
                    notifiers.setdefault(cv, set()).add(role)
            acq = None
            if st['k'] == 'CXXConstructExpr' and st['i'] in ctor_to_var and ctor_to_var[st['i']][1]:
                acq = ctor_to_var[st['i']][0]
            elif st['k'] == 'CXXMemberCallExpr' and st.get('fn') == 'lock' and st.get('cls', '') in locks.MUTEX_CLASSES:
                acq = eng.mutex_id(f, st.get('obj'))
            if acq:
                blocking.setdefault(role, {}).setdefault(acq, f.loc(st['i']))
    bad = []
    for role, cv, held, where in waits:
        for nr in notifiers.get(cv, ()):
            if nr == role:
                continue
            for m in held:
                if m in blocking.get(nr, {}):
                    bad.append('%s waits on %s at %s holding %s, which the %s role blocks on at %s' % (role, (cv or '?').split('::')[-1], where, m.split('::')[-1], nr, blocking[nr][m]))
    ctx.ob('C10.R6', '%s|wait-for' % IMPL, not bad, 'no role blocks on a mutex that another role holds while waiting for it (%d waits, notifier roles %s)' %
           (len(waits), {(k or '?').split('::')[-1]: sorted(v) for k, v in notifiers.items()}) if not bad else 'wait-for cycle: ' + '; '.join(bad[:2]))


def r7(ctx, prog, eng):
    ctx.rule('C10.R7', 'A10 (linear forms per reaching definition): the chunk copy inside a pipe buffer stays inside the block and the source, copies as much as '
             'fits (min(request, free)), advances size_ by exactly what was copied and returns it; appendLockless advances its cursor by what the chunk accepted', floor=6)
    from tbxlint import lin
    from tbxlint.affine import Aff, Ptr, nonneg
    BUF = IMPL + '::Buffer'
    f = prog.fn1(BUF + '::append')
    CH = [('this.size_', 'this.capacity_')]        # class invariant size_ <= capacity_ (re-established below)
    mc = [st for st in f.stmts if st and st['k'] == 'CallExpr' and st.get('callee') in ('memcpy', 'memmove')]
    if len(mc) != 1:
        raise AnalysisBroken('Buffer::append: expected one memcpy, found %d' % len(mc))
    m = mc[0]
    mp = q.pt(f, m)
    dsz = Aff.sym(f.params[1]['n'])
    size0, cap = Aff.sym('this.size_'), Aff.sym('this.capacity_')
    dst = lin.lin(f, m['args'][0], mp)
    src = lin.lin(f, m['args'][1], mp)
    okd = isinstance(dst, Ptr) and dst == Ptr('this.data_', size0) and q.stable(f, 'size_', None, mp, content=True)
    ctx.ob('C10.R7', '%s|dst-is-tail' % f.name, okd, 'destination is data_ + size_ (the first free byte), size_ unchanged since entry' if okd else
           'destination %s is not data_ + size_: earlier bytes are overwritten or a gap is left' % (dst,), where=f.loc(m['i']))
    oks = isinstance(src, Ptr) and src == Ptr('param:' + f.params[0]['n'], Aff(0))
    ctx.ob('C10.R7', '%s|src-is-datum' % f.name, oks, 'source is the caller\'s pointer', where=f.loc(m['i']))
    classes = lin.value_classes(f, m['args'][2], mp)
    lens = []
    for L, facts in classes:
        if not isinstance(L, Aff):
            ctx.ob('C10.R7', '%s|len-resolved' % f.name, False, 'copy length is not a linear form of (data_size, size_, capacity_)', where=f.loc(m['i']))
            continue
        lens.append(L)
        a = nonneg(cap - size0 - L, CH, facts)
        b = nonneg(dsz - L, CH, facts)
        c = nonneg(L, CH, facts)
        mx = (L == dsz) or (L == cap - size0)
        ctx.ob('C10.R7', '%s|len=%r' % (f.name, L), a and b and c and mx,
               'length %r: fits the free space, does not exceed the request, is one of {request, free space}' % L if a and b and c and mx else
               'length %r: %s' % (L, '; '.join(w for w, ok_ in (('can exceed the free space capacity_ - size_ (writes past the block)', a), ('can exceed the request (reads past the datum)', b),
                                                                ('can be negative', c), ('is neither the request nor the free space (bytes withheld)', mx)) if not ok_)), where=f.loc(m['i']))
    # size_ advances by the copied length, and that is what is returned
    adv = [st for st in f.stmts if st and st['k'] == 'CompoundAssignOperator' and st.get('op') == '+=' and (f.field_of(st['ch'][0]) or '').endswith('Buffer::size_')]
    lenpath = f.path(m['args'][2])
    okadv = len(adv) == 1 and f.path(adv[0]['ch'][1]) == lenpath and f.cfg.dominates(mp, q.pt(f, adv[0])) and q.stable(f, lenpath, mp, q.pt(f, adv[0]), content=True) and \
        len(q.writes(f, 'Buffer::size_')) == 1
    ctx.ob('C10.R7', '%s|advance=copied' % f.name, okadv, 'size_ += (the copied length) once, after the copy', where=f.loc(adv[0]['i'] if adv else f.body))
    rets = q.returns(f)
    okret = bool(rets) and all(r.get('val') is not None and f.path(r['val']) == lenpath for r in rets)
    ctx.ob('C10.R7', '%s|returns-copied' % f.name, okret, 'returns the copied length', where=f.loc(rets[0]['i'] if rets else f.body))
    # caller: cursor and remainder move by what the chunk accepted
    al = prog.fn1(IMPL + '::appendLockless')
    calls = [st for st in al.calls() if st.get('usr') == f.usr]
    if len(calls) != 1:
        raise AnalysisBroken('appendLockless: expected one Buffer::append call, found %d' % len(calls))
    c = calls[0]
    acc = None
    for st in al.stmts:
        if st and st['k'] == 'DeclStmt':
            for d in st['decls']:
                if 'init' in d and c['i'] in set(al.walk(d['init'])):
                    acc = d
    a0, a1 = al.path(c['args'][0]), al.path(c['args'][1])
    ups = [st for st in al.stmts if st and st['k'] == 'CompoundAssignOperator' and st.get('op') in ('+=', '-=')]
    okc = acc is not None and any(st['op'] == '+=' and al.path(st['ch'][0]) == a0 and al.path(st['ch'][1]) == acc['n'] for st in ups) and \
        any(st['op'] == '-=' and al.path(st['ch'][0]) == a1 and al.path(st['ch'][1]) == acc['n'] for st in ups)
    ctx.ob('C10.R7', '%s|cursor-by-accepted' % al.name, okc, 'appendLockless: ptr += accepted and remain -= accepted for the value Buffer::append returned', where=al.loc(c['i']))
    # ... and the loop goes on exactly while something remains: it stops at 0 (terminates) and not before (the last byte is not dropped)
    loops = [st for st in al.stmts if st and st['k'] in ('WhileStmt', 'ForStmt', 'DoStmt') and st.get('cond') is not None and c['i'] in set(al.walk(st['i']))]
    if not loops:
        raise AnalysisBroken('appendLockless: the chunk loop was not found')
    lc = loops[-1]['cond']
    names = {al.stmts[x].get('n') for x in al.walk(lc) if al.stmts[x]['k'] == 'DeclRefExpr'}
    bad = [v for v in range(0, 5) if names != {a1} or bool(q.eval_expr(al, lc, lambda sx, v=v: v if sx['k'] == 'DeclRefExpr' and sx.get('n') == a1 else None)) != (v >= 1)]
    ctx.ob('C10.R7', '%s|loop-while-remaining' % al.name, not bad, 'the chunk loop runs exactly while %s > 0' % a1 if not bad else
           'the chunk loop %s with %s == %d: %s' % ('stops' if bad[0] >= 1 else 'continues', a1, bad[0], 'the tail of the datum is dropped' if bad[0] >= 1 else
                                                  'append() never returns (the remainder is unsigned, it is never below zero)'), where=al.loc(lc))


def r8(ctx, prog, eng, backend):
    ctx.rule('C10.R8', 'A4 no lost stop request + A5 re-initialisation: the backend never blocks on full_buffers_cv_ without having tested stop_signal_ under the same lock '
             '(predicate wait, or a dominating test in the critical section) — cleanup() raises the flag and notifies once, possibly while the backend is busy; and every '
             'counter initialize() builds up relative to its old value is reset by cleanup() (the same object is initialised again by the log sinks)', floor=2)
    waits = [st for st in backend.stmts if st and q.is_call(st, cls='std::condition_variable') and st.get('fn') in locks.CV_WAITS and q.obj_field_is(backend, st, 'Impl::full_buffers_cv_')]
    if not waits:
        raise AnalysisBroken('threadFunc: wait on full_buffers_cv_ not found')
    for w in waits:
        ok = False
        why = 'no test of stop_signal_'
        # predicate overload whose lambda reads stop_signal_
        for a in w.get('args', ())[1:]:
            for x in backend.walk(a):
                if backend.stmts[x]['k'] == 'LambdaExpr':
                    lf = prog.lambda_func(backend, backend.stmts[x])
                    if lf and any(st and st['k'] == 'MemberExpr' and st.get('q', '').endswith('Impl::stop_signal_') for st in lf.stmts):
                        ok, why = True, 'predicate wait whose predicate reads stop_signal_'
        if not ok:
            wp = q.pt(backend, w)
            for cond, k, b in backend.cfg.controlling_branches(wp):
                if any(x.endswith('Impl::stop_signal_') for x in q.subtree_fields(backend, cond)) and q.edge_holds(backend, cond, k, 'stop_signal_', '==', '0'):
                    okr, bad = q.region_atomic(eng, backend, frozenset(), backend.cfg.point_of(cond), wp, IMPL + '::full_buffers_mutex_')
                    if okr:
                        ok, why = True, 'stop_signal_ tested under full_buffers_mutex_ right before the wait'
        ctx.ob('C10.R8', '%s|stop-tested-before-wait@%s' % (backend.name, backend.loc(w['i']).split(':')[-1]), ok, why if ok else
               'the backend can block on full_buffers_cv_ for a whole flush interval although stop_signal_ is already set (the single notify_all of cleanup() was issued while '
               'it was not waiting): cleanup()/the destructor hang for up to cfg.interval', where=backend.loc(w['i']))
    ini, cl = prog.fn1(IMPL + '::initialize'), prog.fn1(IMPL + '::cleanup')
    for st in ini.stmts:
        if not st:
            continue
        tgt = st['ch'][0] if (st['k'] == 'CompoundAssignOperator' and st.get('op') in ('+=', '-=')) or (st['k'] == 'UnaryOperator' and st.get('op') in ('++', '--')) else None
        fq = ini.field_of(tgt) if tgt is not None else None
        if not fq or not fq.startswith(IMPL + '::'):
            continue
        short = fq.split('::')[-1]
        first = [a for a, rhs in q.assigns(ini, short) if a.get('op') == '=' and ini.cfg.dominates(q.pt(ini, a), q.pt(ini, st))]
        reset = [a for a, rhs in q.assigns(cl, short) if a.get('op') == '=' and not cl.cfg.exists_path(cl.cfg.entry_point(), 'exit', avoid=[q.pt(cl, a)] + [q.pt(cl, r) for r in q.returns(cl) if
                 any(x.endswith('inited_') for c_, br in q.lexical_guards(cl, r['i']) for x in q.subtree_fields(cl, c_))])]
        ctx.ob('C10.R8', '%s|%s-restarts' % (ini.name, short), bool(first) or bool(reset),
               '%s is %s' % (short, 'given an absolute value in initialize() first' if first else 'reset by cleanup()') if first or reset else
               'initialize() builds %s up relative to its previous value and cleanup() never resets it: the second initialize() of the same object starts from the old count '
               '(producers then wait for buffers that do not exist)' % short, where=ini.loc(st['i']))
    ctx.ob('C10.R8', '%s|relative-counters' % ini.name, True, 'relative updates in initialize() examined')


def r10(ctx, prog, eng):
    ctx.rule('C10.R10', 'A4 a full buffer is announced before the producer blocks: may-dataflow of "a buffer was queued on full_buffers_ and the backend has not been notified since" over '
             'the producer\'s append path; the fact must be false at every wait on free_buffers_cv_ (the backend, idle on full_buffers_cv_, is the only one who can free a buffer: a '
             'producer that has filled the whole pool within one append and waits without having notified stalls until the flush interval expires), and if it can be true at the exit '
             'every producer entry (append, appendUnlock) passes a notifying call before it releases the mutex', floor=2)
    al = prog.fn1(IMPL + '::appendLockless')

    def is_push(st):
        return st['k'] in q.CALL_KINDS and st.get('fn') in ('push_back', 'emplace_back', 'push_front', 'insert') and q.obj_field_is(al, st, 'Impl::full_buffers_')

    def notifies(g, depth=0):
        """does g contain (transitively, inside the pipe) a notify on full_buffers_cv_ ?"""
        for st in g.calls():
            if st.get('fn') in ('notify_all', 'notify_one') and q.obj_field_is(g, st, 'Impl::full_buffers_cv_'):
                return True
            h = eng.resolve_callee(st)
            if h is not None and depth < 3 and h is not g and notifies(h, depth + 1):
                return True
        return False

    def must_notify_call(g, st):
        """a call that notifies on every one of its paths (a direct notify, or a callee in which no path to the exit avoids a direct notify)"""
        if st.get('fn') in ('notify_all', 'notify_one') and q.obj_field_is(g, st, 'Impl::full_buffers_cv_'):
            return True
        h = eng.resolve_callee(st)
        if h is None:
            return False
        direct = [x for x in h.calls() if x.get('fn') in ('notify_all', 'notify_one') and q.obj_field_is(h, x, 'Impl::full_buffers_cv_')]
        if not direct:
            return False
        if not h.cfg.exists_path(h.cfg.entry_point(), 'exit', avoid=[q.pt(h, x) for x in direct]):
            return True
        # a flag-carried announcement: the callee notifies exactly when a member flag is set, and the append path sets that flag with every buffer it queues
        flags = set()
        for x in direct:
            gs = h.cfg.controlling_branches(q.pt(h, x))
            if len(gs) != 1:
                return False
            cond, k, b = gs[0]
            cs = h.s(h.strip_casts(cond))
            if cs is None or cs['k'] != 'MemberExpr' or k != 0:
                return False
            flags.add(cs.get('q'))
        if len(flags) != 1:
            return False
        fq = list(flags)[0].split('::')[-1]
        sets = [a for a, rhs in q.assigns(al, 'Impl::' + fq) if al.s(al.strip_casts(rhs)).get('v') is True or al.s(al.strip_casts(rhs)).get('cv') == 1]
        clears = [a for a, rhs in q.assigns(al, 'Impl::' + fq) if a not in sets]
        waits_ = [q.pt(al, w_) for w_ in al.calls() if w_.get('fn') in locks.CV_WAITS]
        return bool(sets) and not clears and all(not al.cfg.exists_path(q.pt(al, p_), 'exit', avoid=q.pts(al, sets)) and
                                                 not any(al.cfg.exists_path(q.pt(al, p_), w_, avoid=q.pts(al, sets)) for w_ in waits_)
                                                 for p_ in al.calls() if is_push(p_))

    def transfer(pt, e, state):
        if e[0] != 'S' or state is None:
            return state
        st = al.stmts[e[1]]
        if st['k'] in q.CALL_KINDS:
            if is_push(st):
                return True
            if must_notify_call(al, st):
                return False
        return state
    inn, before = al.cfg.forward(False, transfer, lambda a, b: a or b)
    pushes = [st for st in al.calls() if is_push(st)]
    waits = [st for st in al.calls() if st.get('fn') in locks.CV_WAITS and q.obj_field_is(al, st, 'Impl::free_buffers_cv_')]
    if not pushes or not waits:
        raise AnalysisBroken('appendLockless: hand-over to full_buffers_ / wait on free_buffers_cv_ not found (%d/%d)' % (len(pushes), len(waits)))
    for w in waits:
        u = before.get(q.pt(al, w))
        ctx.ob('C10.R10', '%s|announced-before-wait@%s' % (al.name, al.loc(w['i']).split(':')[-1]), not u, 'every buffer queued before this wait has been announced to the backend' if not u else
               'a path reaches this wait on free_buffers_cv_ with a buffer queued on full_buffers_ (%s) and no notify on full_buffers_cv_ in between: the producer blocks for a free buffer while '
               'the backend, never told about the full ones, sleeps out its flush interval' % al.loc(pushes[0]['i']), where=al.loc(w['i']))
    at_exit = any(before.get((b.id, len(b.el))) for b in al.cfg.blocks.values() if al.cfg.exit in [s_ for s_ in b.succ if s_ is not None])
    if not at_exit:
        ctx.ob('C10.R10', '%s|announced-at-exit' % al.name, True, 'nothing queued is left unannounced when appendLockless() returns')
    else:
        for name in (IMPL + '::append', IMPL + '::appendUnlock'):
            g = prog.fn1(name)
            ann = [st for st in g.calls() if (eng.resolve_callee(st) is not None and notifies(eng.resolve_callee(st))) or
                   (st.get('fn') in ('notify_all', 'notify_one') and q.obj_field_is(g, st, 'Impl::full_buffers_cv_'))]
            calls_al = [st for st in g.calls() if st.get('usr') == al.usr]
            ann = [a for a in ann if a.get('usr') != al.usr]
            start = q.pt(g, calls_al[0]) if calls_al else g.cfg.entry_point()
            ok = bool(ann) and not g.cfg.exists_path(start, 'exit', avoid=[q.pt(g, a) for a in ann])
            ctx.ob('C10.R10', '%s|announces-for-appendLockless' % g.name, ok, 'passes a notifying call before it returns' if ok else
                   'appendLockless() can return with a queued buffer unannounced, and a path through %s() ends without a notify on full_buffers_cv_' % g.short, where=g.loc(g.body))


def run(ctx):
    prog = extract('ALL' if ctx.tier == 'thorough' else SCOPE)
    eng, ctxs, backend = setup(prog)
    ctx.guard(r1, ctx, prog, eng, ctxs)
    ctx.guard(r2, ctx, prog, eng)
    ctx.guard(r3, ctx, prog, eng, ctxs, backend)
    ctx.guard(r4, ctx, prog, eng)
    ctx.guard(r5, ctx, prog, eng, backend)
    ctx.guard(r6, ctx, prog, eng, ctxs)
    ctx.guard(r7, ctx, prog, eng)
    ctx.guard(r8, ctx, prog, eng, backend)
    ctx.guard(r10, ctx, prog, eng)
    from rules import C10_replay
    ctx.guard(C10_replay.r11, ctx, prog)
    from tbxlint import shared
    ctx.guard(shared.rule, ctx, prog, 'C10.R12', 'A6 no state shared between pipes behind their back: AsyncPipe, its Impl and Buffer keep no mutable static data member, function-local static or '
              'file-scope variable (two pipes used at the same time would touch it each under its own mutexes)', ['tbox::util::AsyncPipe'], ['util/async_pipe.cpp'], {}, 8)
    return prog
