"""C17 — action trees replayed against the documented meaning of each composite (C17.R11).  Imported by rules/C17.py.

tbxlint/minterp.py interprets the syntax trees of flow::Action and the composites (virtual dispatch by the dynamic class of a record, constructors with their base
initialisers, std::function values as closures / bind expressions, std::vector and std::map fields as sequences and dictionaries).  The event loop is a model: runNext()
queues a callable and returns an id, cancel() removes it, timers are records the harness fires in deadline order.  Leaves are DummyAction (scripted by the harness: finish at once / later / never, block), FunctionAction (an immediate result) and
SleepAction (a result that arrives when its timer fires).  Trees are built through
the public API (constructors, addChild/setChild/setChildAs), run, and compared with a reference evaluator of the documented control flow.  Nothing of the repository is
compiled or run."""
import itertools
from tbxlint.facts import AnalysisBroken
from tbxlint import minterp
from tbxlint.minterp import P

NS = 'tbox::flow::'
STATE = {0: 'idle', 1: 'running', 2: 'paused', 3: 'finished', 4: 'stopped'}


class World:
    def __init__(self, prog):
        self.prog = prog
        self.queue = []
        self.next_id = 1
        self.timers = []
        self.now = 0
        self.log = []
        noop = lambda it, f, st, a: None
        hooks = dict(minterp.VECTOR_HOOKS)
        hooks.update({
            'Loop::runNext': self.h_run_next, 'Loop::runInLoop': self.h_run_next, 'Loop::run': self.h_run_next, 'Loop::cancel': self.h_cancel, 'Loop::newTimerEvent': self.h_new_timer,
            'bind': lambda it, f, st, a: ('bind', a[0], list(a[1:])), 'move': lambda it, f, st, a: a[0], 'forward': lambda it, f, st, a: a[0],
            'LogPrintfFunc': noop, 'ToString': noop, 'c_str': lambda it, f, st, a: it.cur_obj, 'abort': self.h_abort,
            'operator+': lambda it, f, st, a: (lambda ops: sum(ops) if ops and all(isinstance(x, int) for x in ops) else None)(([it.cur_obj] if 'obj' in st else []) + list(a)),
            'max': lambda it, f, st, a: max(a[0], a[1]) if len(a) == 2 and all(isinstance(x, int) for x in a) else None,
            'min': lambda it, f, st, a: min(a[0], a[1]) if len(a) == 2 and all(isinstance(x, int) for x in a) else None,
            'Variables::setParent': noop, 'now': lambda it, f, st, a: self.now,
            'IsStartWith': lambda it, f, st, a: int((it.to_text(a[0]) or '').startswith(it.to_text(a[1]) or '\0')),
        })
        for c in ('TimerEvent', 'Event'):
            hooks[c + '::setCallback'] = self.h_t_setcb
            hooks[c + '::initialize'] = self.h_t_init
            hooks[c + '::enable'] = self.h_t_enable
            hooks[c + '::disable'] = self.h_t_disable
            hooks[c + '::isEnabled'] = lambda it, f, st, a: int(bool(it.record_of(it.cur_obj).get('enabled')))
        self.it = minterp.Interp(prog, {'str:empty': [0]}, hooks=hooks, inline=('*',), max_steps=2000000)
        self.it.globals['tbox::flow::Action::_id_alloc_counter_'] = 0
        self.loop = {'__cls__': 'tbox::event::Loop', '__open__': True}
        self.it._keep.append(self.loop)

    # ---- loop model
    def h_run_next(self, it, f, st, a):
        rid = self.next_id
        self.next_id += 2
        self.queue.append((rid, a[0]))
        return rid

    def h_cancel(self, it, f, st, a):
        n = len(self.queue)
        self.queue = [(i, c) for i, c in self.queue if i != a[0]]
        return int(len(self.queue) != n)

    def h_abort(self, it, f, st, a):
        it.fault(f, st, 'an assertion of the library fails (abort)')
        raise minterp._Abort()

    def h_new_timer(self, it, f, st, a):
        t = {'__cls__': 'tbox::event::TimerEvent', '__open__': True, 'cb': 0, 'enabled': 0, 'interval': None, 'deadline': None,
             'owner': 'sleep' if 'SleepAction' in (f.name or '') else 'timeout'}
        it._keep.append(t)
        self.timers.append(t)
        return it.ref(t)

    def h_t_setcb(self, it, f, st, a):
        it.record_of(it.cur_obj)['cb'] = a[0]

    def h_t_init(self, it, f, st, a):
        t = it.record_of(it.cur_obj)
        t['interval'] = a[0] if isinstance(a[0], int) else 1
        return 1

    def h_t_enable(self, it, f, st, a):
        t = it.record_of(it.cur_obj)
        t['enabled'] = 1
        t['deadline'] = self.now + (t['interval'] or 0)
        return 1

    def h_t_disable(self, it, f, st, a):
        it.record_of(it.cur_obj)['enabled'] = 0
        return 1

    # ---- objects
    def new(self, cls, args, pick=None):
        cands = [g for g in self.prog.by_name.get(cls + '::' + cls.split('::')[-1], ()) if g.d.get('ctor') and len(g.params) == len(args) and (pick is None or pick(g))]
        if len(cands) != 1:
            raise AnalysisBroken('constructor of %s with %d parameter(s): found %d candidate(s)' % (cls, len(args), len(cands)))
        rec = self.it.new_record(cls)
        self.it._keep.append(rec)
        self.it.run_ctor(cands[0], cands[0].stmts[0], rec, cls, cands[0], args)
        return rec

    def call(self, rec, name, args=(), nparams=None):
        g = self.it.find_method(rec['__cls__'], name, len(args) if nparams is None else nparams)
        if g is None:
            raise AnalysisBroken('%s::%s with %d parameter(s) not found' % (rec['__cls__'], name, len(args)))
        return self.it.call(g, list(args), this=rec)

    def loop_ref(self):
        return self.it.ref(self.loop)

    def drain(self, limit=500):
        """run queued callables until the queue is empty"""
        n = 0
        while self.queue:
            n += 1
            if n > limit:
                self.it.faults.append('the loop never runs out of deferred tasks (a task keeps re-queueing itself)')
                return
            rid, fn = self.queue.pop(0)
            f0 = self.prog.fn1(NS + 'Action::finish')
            self.it.invoke(f0, f0.stmts[0], fn, [])
            if self.it.faults:
                return

    def fire_next_timer(self, owner='timeout'):
        live = [t for t in self.timers if t.get('enabled') and t.get('cb') not in (0, None) and t.get('owner') == owner]
        if not live:
            return False
        t = min(live, key=lambda x: x['deadline'])
        self.now = max(self.now, t['deadline'])
        t['enabled'] = 0        # one-shot
        f0 = self.prog.fn1(NS + 'Action::finish')
        self.it.invoke(f0, f0.stmts[0], t['cb'], [])
        return True


# ---- trees --------------------------------------------------------------------------------------------------------------------------
# spec: ('leaf', plan)            plan: list of per-run outcomes, each ('now', ok) | ('later', ok, delay) | ('never',)
#       ('seq', mode, [specs])    mode 0 all-finish, 1 any-fail, 2 any-succ
#       ('par', mode, [specs])
#       ('wrap', mode, spec)      0 normal, 1 invert, 2 always-succ, 3 always-fail
#       ('repeat', times, mode, spec)   0 no-break, 1 break-fail, 2 break-succ
#       ('loop', mode, spec)      1 until-fail, 2 until-succ
#       ('ifelse', if, then|None, else|None)
#       ('ifthen', [(if, then), ...])
#       ('loopif', if, exec)

class Built:
    def __init__(self, w, spec):
        self.w = w
        self.leaves = []        # (record, plan, runs started)
        self.nodes = []
        self.starts = []        # leaf indices in start order
        self.tick = 0
        self.pending = []       # (due, leaf index, ok)
        self.finals = {}
        self.sleepers = {}
        self.blocks = []
        self.root = self.build(spec)
        self.finished = []
        self.root['finish_cb_'] = lambda ok, why, trace: self.finished.append(int(bool(ok)))
        self.root['block_cb_'] = lambda why, trace: self.blocks.append(1)
        for i, nd in enumerate(self.nodes):
            if 'final_cb_' in nd:
                nd['final_cb_'] = lambda i=i: self.finals.__setitem__(i, self.finals.get(i, 0) + 1)

    def reason(self, message=None):
        r = self.w.it.new_record(NS + 'Action::Reason')
        r['code'] = 0
        if message is not None:
            nm = 'str:msg:' + message
            self.w.it.mem.setdefault(nm, [ord(c) for c in message] + [0])
            r['message'] = P(nm, 0)
        self.w.it._keep.append(r)
        return self.w.it.ref(r)

    def build(self, spec):
        w, L = self.w, self.w.loop_ref()
        kind = spec[0]
        if kind == 'leaf':
            rec = w.new(NS + 'DummyAction', [L])
            idx = len(self.leaves)
            self.leaves.append([rec, spec[1], 0])
            rec['start_cb_'] = lambda idx=idx: self.on_leaf_start(idx)
            self.nodes.append(rec)
            return rec
        if kind == 'func':
            idx = len(self.leaves)

            def fn(idx=idx, ok=spec[1]):
                self.starts.append(idx)
                self.leaves[idx][2] += 1
                return int(ok)
            form = ('Func &&', 'FuncWithReason &&', 'FuncWithVars &&', 'FuncWithReasonVars &&')[spec[2] if len(spec) > 2 else 0]
            nargs = (0, 1, 1, 2)[spec[2] if len(spec) > 2 else 0]

            def fn_any(*a, fn=fn, nargs=nargs):
                if len(a) != nargs:
                    w.it.faults.append('the function of a FunctionAction is called with %d argument(s) where its form takes %d' % (len(a), nargs))
                return fn()
            rec = w.new(NS + 'FunctionAction', [L, fn_any], pick=lambda g: g.params[1]['t'].replace('tbox::flow::FunctionAction::', '').strip() == form)
            self.leaves.append([rec, [('now', spec[1])], 0])
            self.nodes.append(rec)
            return rec
        if kind == 'sleep':
            idx = len(self.leaves)
            if len(spec) > 2:       # the span comes from a generator asked at every start
                rec = w.new(NS + 'SleepAction', [L, lambda n_=spec[1]: n_], pick=lambda g: 'Generator' in g.params[1]['t'])
            else:
                rec = w.new(NS + 'SleepAction', [L, spec[1]], pick=lambda g: 'milliseconds' in g.params[1]['t'])
            self.leaves.append([rec, [('sleep', spec[1])], 0])
            self.sleepers[id(rec)] = idx
            self.nodes.append(rec)
            return rec
        if kind == 'switch':
            rec = w.new(NS + 'SwitchAction', [L])
            self.set_child_as(rec, self.build(spec[1]), 'switch')
            for name, c in spec[2]:
                self.set_child_as(rec, self.build(c), 'case:' + name)
            if spec[3] is not None:
                self.set_child_as(rec, self.build(spec[3]), 'default')
            self.nodes.append(rec)
            return rec
        if kind in ('seq', 'par'):
            rec = w.new(NS + ('SequenceAction' if kind == 'seq' else 'ParallelAction'), [L, spec[1]])
            for c in spec[2]:
                ch = self.build(c)
                if w.call(rec, 'addChild', [w.it.ref(ch)]) in (-1, None):
                    raise AnalysisBroken('addChild refused a fresh child')
        elif kind == 'wrap':
            rec = w.new(NS + 'WrapperAction', [L, spec[1]])
            self.set_child(rec, self.build(spec[2]))
        elif kind == 'repeat':
            rec = w.new(NS + 'RepeatAction', [L, spec[1], spec[2]])
            self.set_child(rec, self.build(spec[3]))
        elif kind == 'loop':
            rec = w.new(NS + 'LoopAction', [L, spec[1]])
            self.set_child(rec, self.build(spec[2]))
        elif kind == 'ifelse':
            rec = w.new(NS + 'IfElseAction', [L])
            for role, c in (('if', spec[1]), ('succ', spec[2]), ('fail', spec[3])):
                if c is not None:
                    self.set_child_as(rec, self.build(c), role)
        elif kind == 'ifthen':
            rec = w.new(NS + 'IfThenAction', [L])
            for i_, t_ in spec[1]:
                self.set_child_as(rec, self.build(i_), 'if', add=True)
                self.set_child_as(rec, self.build(t_), 'then', add=True)
        elif kind == 'loopif':
            rec = w.new(NS + 'LoopIfAction', [L])
            self.set_child_as(rec, self.build(spec[1]), 'if')
            self.set_child_as(rec, self.build(spec[2]), 'exec')
        else:
            raise AnalysisBroken('unknown node kind %s' % kind)
        self.nodes.append(rec)
        return rec

    def set_child(self, rec, ch):
        if not self.w.call(rec, 'setChild', [self.w.it.ref(ch)]):
            raise AnalysisBroken('%s::setChild refused a fresh child' % rec['__cls__'])

    def set_child_as(self, rec, ch, role, add=False):
        name = self.w.it.mem.setdefault('role:' + role, [ord(c) for c in role] + [0])
        r = self.w.call(rec, 'addChildAs' if add else 'setChildAs', [self.w.it.ref(ch), P('role:' + role, 0)])
        if r in (0, -1, None) and not (add and r == 0):
            raise AnalysisBroken('%s::%s(%s) refused a fresh child (%s)' % (rec['__cls__'], 'addChildAs' if add else 'setChildAs', role, r))

    # ---- leaf behaviour
    def on_leaf_start(self, idx):
        rec, plan, runs = self.leaves[idx]
        self.starts.append(idx)
        step = plan[min(runs, len(plan) - 1)]
        self.leaves[idx][2] += 1
        if step[0] == 'now':
            self.w.call(rec, 'emitFinish', [int(step[1]), self.reason(step[2] if len(step) > 2 else None)])
        elif step[0] == 'later':
            self.pending.append((self.tick + step[2], idx, step[1], self.leaves[idx][2]))
        elif step[0] == 'block':
            # blocks after `delay`, and once resumed finishes after another `delay`
            self.pending.append((self.tick + step[2], idx, ('block', step[1], step[2]), self.leaves[idx][2]))

    def underway(self):
        return [i for i, n in enumerate(self.nodes) if n.get('state_') in (1, 2)]

    def next_event(self):
        live = [p for p in self.pending if p[1] != -1 and self.leaves[p[1]][0].get('state_') in (1, 2) and self.leaves[p[1]][2] == p[3]]
        self.pending = list(live)
        # armed timers of sleep leaves are events too (the root's time-out timer is fired by the time-out scenario only)
        for t in self.w.timers:
            if t.get('enabled') and t.get('cb') not in (0, None) and t.get('owner') == 'sleep':
                live.append((t['deadline'], -1, t, 0))
        if not live:
            return None
        return min(live, key=lambda p: (p[0], p[1]))

    def fire(self, nxt, drain=True):
        if nxt[1] != -1:
            self.pending.remove(nxt)
        self.tick = max(self.tick, nxt[0]) + 1
        self.w.now = self.tick
        if nxt[1] == -1:
            t = nxt[2]
            t['enabled'] = 0
            f0 = self.w.prog.fn1(NS + 'Action::finish')
            self.w.it.invoke(f0, f0.stmts[0], t['cb'], [])
        elif isinstance(nxt[2], tuple) and nxt[2][0] == 'block':
            lf = self.leaves[nxt[1]][0]
            if lf.get('state_') == 1:
                self.w.call(lf, 'emitBlock', [self.reason()])
                self.block_events = getattr(self, 'block_events', 0) + 1
                self.w.drain()
                if self.root.get('state_') == 2:
                    running = [nd for nd in self.nodes if nd.get('state_') == 1]
                    if running:
                        self.block_problem = '%d action(s) keep running after a leaf has blocked the tree' % len(running)
                    self.w.call(self.root, 'resume')
                    self.w.drain()
                elif self.root.get('state_') == 1:
                    self.block_problem = 'a leaf blocks and the root keeps running'
                if lf.get('state_') == 1:
                    self.pending.append((self.tick + nxt[2][2], nxt[1], nxt[2][1], nxt[3]))
                elif lf.get('state_') == 2:
                    self.block_problem = getattr(self, 'block_problem', None) or 'the blocked leaf is not resumed by resume() of the root'
        else:
            self.w.call(self.leaves[nxt[1]][0], 'emitFinish', [int(nxt[2]), self.reason()])
        if drain:
            self.w.drain()

    def step(self):
        """deliver the next due event (a scripted leaf result, a block, the timer of a sleep leaf); False when nothing is pending"""
        nxt = self.next_event()
        if nxt is None:
            return False
        self.fire(nxt)
        return True

    def run(self, max_events=60, hook=None):
        self.w.call(self.root, 'start')
        self.w.drain()
        n = 0
        while not self.w.it.faults and n < max_events:
            if hook is not None:
                hook(self, n)
            if not self.step():
                break
            n += 1
        return n


# ---- the reference: the documented control flow, with the same notion of time (a finish is delivered to the parent after the call chain that produced it) ------------

class Ref:
    def __init__(self, spec):
        self.q = []             # deferred notifications
        self.starts = []
        self.leaves = []
        self.pending = []
        self.tick = 0
        self.finished = []
        self.root = self.mk(spec, None)

    def mk(self, spec, parent):
        n = {'spec': spec, 'kind': spec[0], 'parent': parent, 'state': 'idle', 'kids': [], 'i': 0, 'done': {}, 'gen': 0}
        k = spec[0]
        if k in ('leaf', 'func', 'sleep'):
            n['idx'] = len(self.leaves)
            n['runs'] = 0
            self.leaves.append(n)
        elif k == 'switch':
            n['kids'] = [self.mk(spec[1], n)] + [self.mk(c, n) for _, c in spec[2]] + ([self.mk(spec[3], n)] if spec[3] is not None else [])
        elif k in ('seq', 'par'):
            n['kids'] = [self.mk(c, n) for c in spec[2]]
        elif k in ('wrap', 'loop'):
            n['kids'] = [self.mk(spec[2], n)]
        elif k == 'repeat':
            n['kids'] = [self.mk(spec[3], n)]
        elif k == 'ifelse':
            n['kids'] = [self.mk(c, n) if c is not None else None for c in spec[1:4]]
        elif k == 'ifthen':
            n['kids'] = [self.mk(c, n) for pair in spec[1] for c in pair]
        elif k == 'loopif':
            n['kids'] = [self.mk(spec[1], n), self.mk(spec[2], n)]
        return n

    # lifecycle
    def start(self, n):
        n['state'] = 'running'
        n['gen'] += 1
        k = n['kind']
        if k == 'func':
            self.starts.append(n['idx'])
            n['runs'] += 1
            self.finish(n, n['spec'][1])
        elif k == 'sleep':
            n['runs'] += 1
            self.pending.append((self.tick + n['spec'][1], n['idx'], 1, n['runs']))
        elif k == 'switch':
            self.start(n['kids'][0])
        elif k == 'leaf':
            self.starts.append(n['idx'])
            plan = n['spec'][1]
            step = plan[min(n['runs'], len(plan) - 1)]
            n['runs'] += 1
            if step[0] == 'now':
                n['msg'] = step[2] if len(step) > 2 else None
                self.finish(n, step[1])
            elif step[0] == 'later':
                self.pending.append((self.tick + step[2], n['idx'], step[1], n['runs']))
        elif k == 'seq':
            n['i'] = 0
            self.seq_next(n, 1)
        elif k == 'par':
            n['done'] = {}
            for c in n['kids']:
                self.start(c)
            if not n['kids']:
                self.finish(n, 1)
        elif k in ('wrap', 'loop', 'repeat'):
            if k == 'repeat':
                n['left'] = n['spec'][1] - 1
            self.start(n['kids'][0])
        elif k in ('ifelse', 'loopif'):
            self.start(n['kids'][0])
        elif k == 'ifthen':
            n['i'] = 0
            self.ifthen_next(n)

    def seq_next(self, n, last):
        if n['i'] < len(n['kids']):
            self.start(n['kids'][n['i']])
        else:
            self.finish(n, last)

    def ifthen_next(self, n):
        if 2 * n['i'] >= len(n['kids']):
            self.finish(n, 0)
        else:
            self.start(n['kids'][2 * n['i']])

    def reset(self, n):
        for c in n['kids']:
            if c is not None:
                self.reset(c)
        n['state'] = 'idle'

    def stop(self, n):
        if n['state'] not in ('running', 'paused'):
            return
        n['state'] = 'stopped'
        n['gen'] += 1
        for c in n['kids']:
            if c is not None:
                self.stop(c)

    def finish(self, n, ok):
        if n['state'] in ('finished', 'stopped'):
            return
        n['state'] = 'finished'
        gen = n['gen']
        self.q.append((n, int(bool(ok)), gen))

    def deliver(self, n, ok, gen):
        if gen != n['gen'] or n['state'] != 'finished':
            return              # the action was stopped / reset / restarted meanwhile: a stale notification is dropped
        p = n['parent']
        if p is None:
            self.finished.append(ok)
            return
        if p['state'] != 'running':
            return
        k = p['kind']
        if k == 'seq':
            m = p['spec'][1]
            if (m == 2 and ok) or (m == 1 and not ok):
                self.finish(p, ok)
            else:
                p['i'] += 1
                self.seq_next(p, ok)
        elif k == 'par':
            m = p['spec'][1]
            p['done'][id(n)] = ok
            if (m == 2 and ok) or (m == 1 and not ok):
                for c in p['kids']:
                    self.stop(c)
                self.finish(p, 1)
            elif len(p['done']) == len(p['kids']):
                self.finish(p, 1)
        elif k == 'wrap':
            m = p['spec'][1]
            self.finish(p, {0: ok, 1: 1 - ok, 2: 1, 3: 0}[m])
        elif k == 'loop':
            m = p['spec'][1]
            if (m == 2 and ok) or (m == 1 and not ok):
                self.finish(p, ok)
            else:
                self.reset(n)
                self.start(n)
        elif k == 'repeat':
            m = p['spec'][2]
            if (m == 2 and ok) or (m == 1 and not ok):
                self.finish(p, ok)
            elif p['left'] > 0:
                p['left'] -= 1
                self.reset(n)
                self.start(n)
            else:
                self.finish(p, 1)
        elif k == 'ifelse':
            if n is p['kids'][0]:
                br = p['kids'][1] if ok else p['kids'][2]
                if br is not None:
                    self.start(br)
                else:
                    self.finish(p, 1)
            else:
                self.finish(p, ok)
        elif k == 'ifthen':
            pos = p['kids'].index(n)
            if pos % 2 == 0:
                if ok:
                    self.start(p['kids'][pos + 1])
                else:
                    p['i'] += 1
                    self.ifthen_next(p)
            else:
                self.finish(p, ok)
        elif k == 'switch':
            if n is p['kids'][0]:
                if not ok:
                    self.finish(p, 0)
                else:
                    names = [nm for nm, _ in p['spec'][2]]
                    msg = n.get('msg')
                    tgt = None
                    if msg is not None and msg.startswith('case:') and msg[5:] in names:
                        tgt = p['kids'][1 + names.index(msg[5:])]
                    elif p['spec'][3] is not None:
                        tgt = p['kids'][-1]
                    if tgt is None:
                        self.finish(p, 0)
                    else:
                        self.start(tgt)
            else:
                self.finish(p, ok)
        elif k == 'loopif':
            if n is p['kids'][0]:
                if ok:
                    self.start(p['kids'][1])
                else:
                    self.finish(p, 1)
            else:
                self.reset(p['kids'][0])
                self.reset(p['kids'][1])
                self.start(p['kids'][0])

    def drain(self, limit=500):
        c = 0
        while self.q and c < limit:
            c += 1
            n, ok, gen = self.q.pop(0)
            self.deliver(n, ok, gen)

    def step(self):
        live = [p for p in self.pending if self.leaves[p[1]]['state'] in ('running', 'paused') and self.leaves[p[1]]['runs'] == p[3]]
        self.pending = live
        if not live:
            return False
        nxt = min(live, key=lambda p: (p[0], p[1]))
        self.pending.remove(nxt)
        self.tick = max(self.tick, nxt[0]) + 1
        self.finish(self.leaves[nxt[1]], nxt[2])
        self.drain()
        return True

    def run(self, max_events=60):
        self.start(self.root)
        self.drain()
        n = 0
        while n < max_events and self.step():
            n += 1
        return n

    def all_nodes(self, n=None):
        n = n or self.root
        out = [n]
        for c in n['kids']:
            if c is not None:
                out += self.all_nodes(c)
        return out


# ---- the grid of trees and scenarios ------------------------------------------------------------------------------------------------

A, B, C, D, E, N = ('now', 1), ('now', 0), ('later', 1, 1), ('later', 0, 1), ('later', 1, 2), ('never',)


def leaf(*plan):
    return ('leaf', list(plan))


def trees(full):
    out = []
    s4 = (A, B, C, D)
    for m in (0, 1, 2):
        for x in s4:
            for y in s4:
                out.append(('seq', m, [leaf(x), leaf(y)]))
        out.append(('seq', m, [leaf(A), leaf(D), leaf(C)]))
        out.append(('seq', m, [leaf(C), leaf(B), leaf(A)]))
        out.append(('seq', m, []))
        for x in (A, B, C, D, E, N):
            for y in (A, B, C, D, E, N):
                out.append(('par', m, [leaf(x), leaf(y)]))
        out.append(('par', m, [leaf(E), leaf(D), leaf(C)]))
        out.append(('par', m, [leaf(C), leaf(N), leaf(B)]))
    for m in range(4):
        for x in s4:
            out.append(('wrap', m, leaf(x)))
    for t in (1, 2, 3):
        for m in (0, 1, 2):
            for plan in ([A], [B], [A, B], [B, A], [C, D], [D, C, C]):
                out.append(('repeat', t, m, leaf(*plan)))
    for m in (1, 2):
        for plan in ([A, A, B], [B, B, A], [C, D], [D, C], [A], [B]):
            if (m == 1 and all(p[1] for p in plan)) or (m == 2 and not any(p[1] for p in plan)):
                continue        # would never end
            out.append(('loop', m, leaf(*plan)))
    for i_ in s4:
        for t_ in (None, A, B, C):
            for e_ in (None, A, B, D):
                out.append(('ifelse', leaf(i_), leaf(t_) if t_ else None, leaf(e_) if e_ else None))
    for i1 in (A, B, D):
        for t1 in (A, B, C):
            out.append(('ifthen', [(leaf(i1), leaf(t1))]))
            for i2 in (A, B, D):
                for t2 in (A, B, C):
                    out.append(('ifthen', [(leaf(i1), leaf(t1)), (leaf(i2), leaf(t2))]))
    for ip in ([A, A, B], [A, B], [B], [C, D]):
        for ep in ([A], [B], [C]):
            out.append(('loopif', leaf(*ip), leaf(*ep)))
    # the provided leaves and the switch
    for m in (0, 1, 2):
        out.append(('seq', m, [('func', 1), ('func', 0), ('func', 1)]))
        out.append(('seq', m, [('sleep', 2), ('func', 0), ('sleep', 1)]))
        out.append(('par', m, [('sleep', 2), ('sleep', 1), leaf(D)]))
        out.append(('par', m, [('func', 1), ('sleep', 1)]))
    out.append(('seq', 0, [('func', 1, 1), ('func', 0, 2), ('func', 1, 3)]))
    out.append(('seq', 1, [('func', 1, 3), ('func', 1, 2), ('func', 0, 1), ('func', 1, 0)]))
    out.append(('par', 1, [('sleep', 3, 'gen'), ('sleep', 1, 'gen'), ('sleep', 2)]))
    out.append(('seq', 0, [('sleep', 1, 'gen'), ('func', 0, 2)]))
    out.append(('wrap', 1, ('sleep', 1)))
    out.append(('repeat', 2, 0, ('sleep', 1)))
    out.append(('ifelse', ('func', 0), ('func', 1), ('sleep', 1)))
    for pick in ('case:a', 'case:b', 'case:zz', None):
        for ok in (1, 0):
            for dflt in (None, leaf(C)):
                out.append(('switch', leaf(('now', ok, pick) if pick else ('now', ok)), [('a', leaf(A)), ('b', leaf(D))], dflt))
    out.append(('seq', 1, [('switch', leaf(('now', 1, 'case:a')), [('a', leaf(C))], None), leaf(A)]))
    # two levels
    s3 = (A, D, C)
    for m in (0, 1, 2):
        for m2 in (0, 1, 2):
            for x in s3:
                for y in s3:
                    for z in (A, B):
                        out.append(('seq', m, [('par', m2, [leaf(x), leaf(y)]), leaf(z)]))
                        if full:
                            out.append(('par', m, [('seq', m2, [leaf(x), leaf(y)]), ('wrap', 1, leaf(z))]))
            out.append(('repeat', 2, m, ('seq', m2, [leaf(A, B), leaf(C, D)])))
            out.append(('seq', m, [('ifelse', leaf(D), leaf(A), ('seq', m2, [leaf(C), leaf(B)])), leaf(A)]))
        if m == 1:
            out.append(('loop', 1, ('seq', m, [leaf(A, A, B), leaf(C, C, A)])))
        out.append(('wrap', 1, ('par', m, [leaf(C), leaf(D)])))
    return out


def describe(spec):
    k = spec[0]
    if k == 'func':
        return 'Function%s(%s)' % (('', 'WithReason', 'WithVars', 'WithReasonVars')[spec[2] if len(spec) > 2 else 0], 'ok' if spec[1] else 'fail')
    if k == 'sleep':
        return 'Sleep(%s%d)' % ('generator: ' if len(spec) > 2 else '', spec[1])
    if k == 'switch':
        return 'Switch[%s; %s%s]' % (describe(spec[1]), ', '.join('case %s: %s' % (nm, describe(c)) for nm, c in spec[2]), '; default: ' + describe(spec[3]) if spec[3] is not None else '')
    if k == 'leaf':
        return '/'.join('%s%s' % ({'now': '', 'later': 'later-', 'never': 'never'}[p[0]], ('ok' if p[1] else 'fail') if p[0] != 'never' else '') for p in spec[1])
    names = {'seq': ('Sequence', ('AllFinish', 'AnyFail', 'AnySucc')), 'par': ('Parallel', ('AllFinish', 'AnyFail', 'AnySucc')), 'wrap': ('Wrapper', ('Normal', 'Invert', 'AlwaySucc', 'AlwayFail')),
             'loop': ('Loop', ('Forever', 'UntilFail', 'UntilSucc'))}
    if k in ('seq', 'par'):
        return '%s(%s)[%s]' % (names[k][0], names[k][1][spec[1]], ', '.join(describe(c) for c in spec[2]))
    if k in ('wrap', 'loop'):
        return '%s(%s)[%s]' % (names[k][0], names[k][1][spec[1]], describe(spec[2]))
    if k == 'repeat':
        return 'Repeat(%d, %s)[%s]' % (spec[1], ('NoBreak', 'BreakFail', 'BreakSucc')[spec[2]], describe(spec[3]))
    if k == 'ifelse':
        return 'IfElse[if %s, then %s, else %s]' % tuple(describe(c) if c else '-' for c in spec[1:4])
    if k == 'ifthen':
        return 'IfThen[%s]' % ', '.join('if %s then %s' % (describe(a), describe(b)) for a, b in spec[1])
    return 'LoopIf[if %s, exec %s]' % (describe(spec[1]), describe(spec[2]))


def check_tree(prog, spec, scenarios=True):
    """first disagreement with the reference as text, or None"""
    ref = Ref(spec)
    nref = ref.run()
    w = World(prog)
    b = Built(w, spec)
    n = b.run()
    if w.it.faults:
        return w.it.faults[0]
    if b.finished != ref.finished:
        return 'the root finishes %s where the documented control flow gives %s' % (fin(b.finished), fin(ref.finished))
    if b.starts != ref.starts:
        return 'the leaves are started in the order %s where the documented control flow starts %s' % (b.starts, ref.starts)
    if n != nref:
        return 'the tree comes to rest after %d leaf event(s) where the documented control flow takes %d (a composite finishes before / after the children it waits for)' % (n, nref)
    if b.finished and b.underway():
        return 'after the root has finished %d descendant(s) are still running or paused' % len(b.underway())
    if w.queue:
        return 'deferred notifications are left in the loop after the tree has come to rest'
    ri = b.nodes.index(b.root)
    if b.finished:
        if 'final_cb_' in b.root and b.finals.get(ri, 0) != 1:
            return 'the final hook of the root runs %d time(s) in a run that finished' % b.finals.get(ri, 0)
        if b.root.get('result_') != (1 if b.finished[0] else 2):
            return 'result() of the finished root does not say %s' % ('success' if b.finished[0] else 'failure')
    if not scenarios:
        return None
    # stop after k leaf events: nothing is delivered afterwards, nothing is left under way
    for k in range(0, n + 1):
        w2 = World(prog)
        b2 = Built(w2, spec)
        seen = {'at': None}

        def hook(bb, i, k=k, seen=seen):
            if i == k and seen['at'] is None:
                seen['at'] = len(bb.finished)
                bb.w.call(bb.root, 'stop')
                bb.w.drain()
        b2.run(hook=hook)
        if seen['at'] is None:      # the tree came to rest before event k
            seen['at'] = len(b2.finished)
            w2.call(b2.root, 'stop')
            w2.drain()
        if w2.it.faults:
            return 'stop() after %d leaf event(s): %s' % (k, w2.it.faults[0])
        if len(b2.finished) != seen['at']:
            return 'stop() after %d leaf event(s): the finish callback of the stopped root is still invoked' % k
        if b2.underway():
            return 'stop() after %d leaf event(s): %d descendant(s) are left running or paused' % (k, len(b2.underway()))
        if b2.step():
            return 'stop() after %d leaf event(s): a leaf of the stopped tree is still waiting to deliver its result' % k
        if 'final_cb_' in b2.root and b2.finals.get(b2.nodes.index(b2.root), 0) != 1:
            return 'stop() after %d leaf event(s): the final hook of the root has run %d time(s) where once per run is due' % (k, b2.finals.get(b2.nodes.index(b2.root), 0))
    # reset after the run, run again: like a freshly built tree
    if b.finished:
        first = (list(b.finished), list(b.starts))
        w.call(b.root, 'reset')
        w.drain()
        states = [nd.get('state_') for nd in b.nodes]
        if any(s_ != 0 for s_ in states):
            return 'after reset() %d action(s) of the tree are not idle' % sum(1 for s_ in states if s_ != 0)
        for lf in b.leaves:
            lf[2] = 0
        b.finished, b.starts, b.pending = [], [], []         # time goes on: the clock of the leaves and the clock of the timers stay the same one
        b.tick = max(b.tick, getattr(w, 'now', 0))
        n2 = b.run()
        if w.it.faults:
            return 'second run after reset(): %s' % w.it.faults[0]
        if n2 != n:
            return 'after reset() the second run comes to rest after %d leaf event(s) where the first took %d: state of the first run survives the reset' % (n2, n)
        if (b.finished, b.starts) != first:
            return 'after reset() the second run gives %s / starts %s where the first gave %s / %s' % (fin(b.finished), b.starts, fin(first[0]), first[1])
    return None


def fin(xs):
    if not xs:
        return 'never'
    return ' and '.join('with %s' % ('success' if x else 'failure') for x in xs) + (' (%d times)' % len(xs) if len(xs) > 1 else '')


def r11(ctx, prog):
    full = ctx.tier == 'thorough'
    ts = trees(full)
    ctx.rule('C17.R11', 'A10 action trees replayed against the documented control flow: %d trees (every composite and mode over leaves that succeed / fail at once or later or never, one and two '
             'levels deep; repeat / loop / loop-if with per-run outcomes) are built through the public API on the syntax trees of flow::Action and the composites and run on a model of '
             'the loop (deferred notifications, cancellation).  For each tree: the root finishes exactly as the reference evaluator says (once, with that result, or never), the leaves are '
             'started in the reference order, nothing is left running, paused or queued at rest; stop() after every number of leaf events silences the tree (no finish callback, no '
             'descendant under way, no leaf still waiting); reset() after the run makes every action idle and a second run repeats the first; pause() placed between a leaf\'s finish and the delivery of its notification, followed by resume(), does not change the outcome; a time-out on the root that fires while the tree is at work finishes it once, with failure, and leaves nothing below it running; pause() leaves nothing running and disarms the time-out, resume() re-arms it and the run ends as the undisturbed one; the final hook runs once per run and result() agrees with the callback; a leaf that blocks pauses the whole tree, is reported once, and after resume() the run ends as the undisturbed one; the tree comes to rest after as many leaf events as the reference (first and second run); stop(), reset() or pause() before the time-out is due leave no armed time-out timer that could finish the action afterwards; the timer of a SleepAction is armed for its span at start and for what is left of it after pause() / resume()' % len(ts), floor=1)
    if not any(g.name == NS + 'DummyAction::onStart' for g in prog.funcs.values()):
        from tbxlint.facts import extract
        prog = extract('ALL')
    bad = None
    n = 0
    for spec in ts:
        n += 1
        why = check_tree(prog, spec) or check_pause(prog, spec) or check_timeout(prog, spec) or check_plain_pause(prog, spec) or check_block(prog, spec)
        if why is not None:
            bad = (spec, why)
            break
    f = prog.fn1(NS + 'Action::finish')
    why = check_sleep(prog)
    g = prog.fn1(NS + 'SleepAction::onResume')
    ctx.ob('C17.R11', 'flow|sleep-timer', why is None, 'armed for the span at start, for what is left of it after pause() / resume()' if why is None else why, where=g.loc(g.body))
    ctx.ob('C17.R11', 'flow|trees', bad is None, '%d trees agree with the reference in all scenarios' % n if bad is None else
           '%s: %s' % (describe(bad[0]), bad[1]), where=f.loc(f.body))


def check_pause(prog, spec):
    """pause() placed between a leaf's finish and the delivery of its notification, resume() afterwards: the outcome of the run is unchanged"""
    ref = Ref(spec)
    ref.run()
    w0 = World(prog)
    b0 = Built(w0, spec)
    n = b0.run()
    for k in range(0, n):
        w = World(prog)
        b = Built(w, spec)
        w.call(b.root, 'start')
        w.drain()
        i = 0
        while not w.it.faults and i < 80:
            nxt = b.next_event()
            if nxt is None:
                break
            b.fire(nxt, drain=False)
            if i == k and b.root.get('state_') == 1:
                w.call(b.root, 'pause')         # the notification of that finish is still in the loop's queue
                w.drain()
                if b.root.get('state_') == 2:
                    w.call(b.root, 'resume')
            w.drain()
            i += 1
        if w.it.faults:
            return 'pause() between leaf event %d and its delivery, then resume(): %s' % (k + 1, w.it.faults[0])
        if b.finished != ref.finished:
            return 'pause() between leaf event %d and the delivery of its notification, then resume(): the root finishes %s where the undisturbed run finishes %s' % (k + 1, fin(b.finished), fin(ref.finished))
        if b.finished and b.underway():
            return 'pause()/resume() around leaf event %d: %d descendant(s) are left running or paused after the root finished' % (k + 1, len(b.underway()))
    return None


def check_plain_pause(prog, spec):
    """pause() after k leaf events: nothing stays running and the time-out timer is disarmed; resume() and the run ends as the undisturbed one"""
    ref = Ref(spec)
    ref.run()
    w0 = World(prog)
    b0 = Built(w0, spec)
    n = b0.run()
    for k in range(0, n + 1):
        w = World(prog)
        b = Built(w, spec)
        w.call(b.root, 'setTimeout', [1000])
        done = {'x': False}

        def hook(bb, i, k=k, done=done):
            if i == k and not done['x'] and bb.root.get('state_') == 1:
                done['x'] = True
                bb.w.call(bb.root, 'pause')
                bb.w.drain()
                running = [nd for nd in bb.nodes if nd.get('state_') == 1]
                armed = [t for t in bb.w.timers if t.get('enabled')]        # neither the time-out of the root nor the timer of a sleeping leaf may run on
                if running:
                    done['bad'] = 'after pause() %d action(s) of the tree are still running' % len(running)
                elif armed:
                    done['bad'] = 'after pause() the time-out timer of the root is still armed'
                bb.w.call(bb.root, 'resume')
                bb.w.drain()
                if bb.root.get('state_') == 1 and not [t for t in bb.w.timers if t.get('enabled') and t.get('owner') == 'timeout']:
                    done['bad'] = done.get('bad') or 'after resume() the time-out timer of the root is not armed again'
        b.run(hook=hook)
        if w.it.faults:
            return 'pause()/resume() after %d leaf event(s): %s' % (k, w.it.faults[0])
        if done.get('bad'):
            return 'pause() after %d leaf event(s): %s' % (k, done['bad'])
        if (b.finished, b.starts) != (ref.finished, ref.starts):
            return 'pause()/resume() after %d leaf event(s): the run ends %s / starts %s where the undisturbed run gives %s / %s' % (k, fin(b.finished), b.starts, fin(ref.finished), ref.starts)
    return None


def check_timeout(prog, spec):
    """a time-out on the root that fires while the tree is still at work: the root finishes once, with failure, and nothing below it is left running"""
    w = World(prog)
    b = Built(w, spec)
    w.call(b.root, 'setTimeout', [1])
    w.call(b.root, 'start')
    w.drain()
    if w.it.faults:
        return 'with a time-out set: %s' % w.it.faults[0]
    if b.finished:
        if [t for t in w.timers if t.get('enabled') and t.get('owner') == 'timeout']:
            return 'the root finished at once and its time-out timer is still armed'
        return None
    if not w.fire_next_timer():
        return 'the root is running with a time-out set and no timer is armed'
    w.drain()
    if w.it.faults:
        return 'when the time-out of the root fires: %s' % w.it.faults[0]
    if b.finished != [0]:
        return 'when the time-out of the root fires it finishes %s where one failure is due' % fin(b.finished)
    if b.underway():
        return 'the root has finished by its time-out and %d descendant(s) are still running or paused' % len(b.underway())
    if b.step():
        return 'the root has finished by its time-out and a leaf below it is still waiting to deliver its result'
    if len(b.finished) != 1:
        return 'after the time-out the finish callback is invoked again'
    # the run is left (stop, reset) or suspended (pause) before the time-out is due: the timer must not deliver anything to it afterwards
    for op in ('stop', 'reset', 'pause'):
        w = World(prog)
        b = Built(w, spec)
        w.call(b.root, 'setTimeout', [1])
        w.call(b.root, 'start')
        w.drain()
        if b.finished or w.it.faults:
            break
        w.call(b.root, op)
        w.drain()
        before = (list(b.finished), [nd.get('state_') for nd in b.nodes])
        fired = w.fire_next_timer()
        w.drain()
        if w.it.faults:
            return '%s() before the time-out is due, then the timer fires: %s' % (op, w.it.faults[0])
        if fired and (list(b.finished), [nd.get('state_') for nd in b.nodes]) != before:
            return '%s() before the time-out is due: the timer of the root is left armed and, when it fires, %s' % (
                op, 'the finish callback of the %s root is invoked' % {'stop': 'stopped', 'reset': 'reset (idle)', 'pause': 'paused'}[op] if b.finished != before[0] else 'the states of the tree change')
    return None


def with_block(spec):
    """the same tree with its first 'later' leaf turned into a leaf that blocks first and finishes after being resumed; None when there is no such leaf"""
    done = [False]

    def tr(sp):
        if sp is None:
            return None
        k = sp[0]
        if k == 'leaf':
            if not done[0] and sp[1] and sp[1][0][0] == 'later' and len(sp[1]) == 1:
                done[0] = True
                return ('leaf', [('block', sp[1][0][1], sp[1][0][2])])
            return sp
        if k in ('func', 'sleep'):
            return sp
        if k in ('seq', 'par'):
            return (k, sp[1], [tr(c) for c in sp[2]])
        if k in ('wrap', 'loop'):
            return (k, sp[1], tr(sp[2]))
        if k == 'repeat':
            return (k, sp[1], sp[2], tr(sp[3]))
        if k == 'ifelse':
            return (k, tr(sp[1]), tr(sp[2]), tr(sp[3]))
        if k == 'ifthen':
            return (k, [(tr(a), tr(b)) for a, b in sp[1]])
        if k == 'loopif':
            return (k, tr(sp[1]), tr(sp[2]))
        if k == 'switch':
            return (k, tr(sp[1]), [(nm, tr(c)) for nm, c in sp[2]], tr(sp[3]))
        return sp
    out = tr(spec)
    return out if done[0] else None


def check_block(prog, spec):
    """a leaf that blocks: the whole tree pauses and the root's block callback runs; resume() of the root continues the run, which ends as the undisturbed one"""
    bs = with_block(spec)
    if bs is None:
        return None
    ref = Ref(spec)
    ref.run()
    w = World(prog)
    b = Built(w, bs)
    b.run()
    if w.it.faults:
        return 'with a leaf that blocks before it finishes: %s' % w.it.faults[0]
    if getattr(b, 'block_problem', None):
        return b.block_problem
    if b.finished != ref.finished:
        return 'with a leaf that blocks and is resumed, the root finishes %s where the undisturbed run finishes %s' % (fin(b.finished), fin(ref.finished))
    if b.finished and b.underway():
        return 'after a block/resume the root has finished and %d descendant(s) are still running or paused' % len(b.underway())
    if len(b.blocks) != getattr(b, 'block_events', 0):
        return '%d block(s) of a leaf are reported %d time(s) by the root' % (getattr(b, 'block_events', 0), len(b.blocks))
    return None


def check_sleep(prog):
    """the timer of a SleepAction: armed for its span at start; pause() keeps what is left of the span and resume() arms the timer for exactly that"""
    for span, t_pause, t_resume in ((5, 2, 10), (5, 0, 3), (4, 3, 3), (7, 6, 20)):
        for wrapped in (False, True):
            w = World(prog)
            spec = ('seq', 0, [('sleep', span)]) if wrapped else ('sleep', span)
            b = Built(w, spec)
            w.now = 100
            w.call(b.root, 'start')
            w.drain()
            tm = [t for t in w.timers if t.get('owner') == 'sleep']
            if w.it.faults:
                return w.it.faults[0]
            if len(tm) != 1 or not tm[0].get('enabled') or tm[0].get('deadline') != 100 + span:
                return '%s started at 100: its timer is %s where armed for 100 + %d is due' % (describe(spec), 'armed for %s' % tm[0].get('deadline') if tm and tm[0].get('enabled') else 'not armed', span)
            w.now = 100 + t_pause
            w.call(b.root, 'pause')
            w.drain()
            if tm[0].get('enabled'):
                return '%s paused: its timer stays armed' % describe(spec)
            w.now = 100 + t_resume
            w.call(b.root, 'resume')
            w.drain()
            if w.it.faults:
                return w.it.faults[0]
            want = 100 + t_resume + (span - t_pause)
            if not tm[0].get('enabled') or tm[0].get('deadline') != want:
                return '%s started at 100, paused at %d, resumed at %d: its timer is %s where armed for %d (what was left of the span) is due' % (
                    describe(spec), 100 + t_pause, 100 + t_resume, 'armed for %s' % tm[0].get('deadline') if tm[0].get('enabled') else 'not armed', want)
            if not w.fire_next_timer('sleep'):
                return '%s: the timer does not fire' % describe(spec)
            w.drain()
            if b.finished != [1]:
                return '%s: when its timer fires the root finishes %s where one success is due' % (describe(spec), fin(b.finished))
    return None
