"""C05 — thread pool / work thread (DESIGN §4 C05)."""
from tbxlint.facts import extract, AnalysisBroken
from tbxlint import locks

SCOPE = ['eventx/thread_pool.cpp', 'eventx/work_thread.cpp']
SYNC_HOF = ('tbox::cabinet::Cabinet<', 'std::find', 'std::for_each', 'tbox::CatchThrow')
DEFERRED = {'tbox::event::Loop::runInLoop': 'loop', 'tbox::event::Loop::runNext': 'loop', 'tbox::event::Loop::run': 'loop'}

CLASSES = {
    'tbox::eventx::ThreadPool': dict(worker='threadProc', multi=True, flag='all_threads_stop_flag', thread_field=None),
    'tbox::eventx::WorkThread': dict(worker='threadProc', multi=False, flag='stop_flag', thread_field='work_thread'),
}


def scope_funcs(prog, cls):
    fs = []
    for f in prog.funcs.values():
        o = prog.outermost(f)
        if o.cls == cls or (o.cls or '').startswith(cls + '::'):
            fs.append(f)
    return fs


def r1_races(ctx, prog):
    ctx.rule('C05.R1', 'A1: every conflicting concurrent access pair to pool/worker state shares Data::lock '
                       '(roles: loop API vs worker threads; wait predicates entered with the lock)', floor=30)
    for cls, info in CLASSES.items():
        fs = scope_funcs(prog, cls)
        eng = locks.LockEngine(prog, fs, sync_hof=SYNC_HOF, deferred=DEFERRED)
        c = prog.cls(cls)
        api = [f for f in prog.methods_of(cls) if f.d.get('access') == 'public']
        worker = prog.fn1(cls + '::' + info['worker'])
        roles = {'loop': api, 'worker': [worker]}
        ctxs = eng.contexts(roles, thread_entries={worker.usr: 'worker'})
        fields = locks.class_fields(prog, cls + '::Data') | locks.class_fields(prog, cls)
        stf = {cls + '::Data::' + info['thread_field']: 'worker'} if info['thread_field'] else {}
        accs = locks.race_rule(ctx, 'C05.R1', prog, eng, ctxs, fields,
                               multi_roles=('worker',) if info['multi'] else (),
                               phase=locks.thread_phase(prog, eng, stf))
        # the stop flag must be among the analysed accesses in both roles
        flag = cls + '::Data::' + info['flag']
        roles_seen = {a['role'] for a in accs if a['field'] == flag}
        if not {'loop', 'worker'} <= roles_seen:
            raise AnalysisBroken('stop flag %s not seen in both roles (%s)' % (flag, roles_seen))


def run(ctx):
    prog = extract(SCOPE)
    r1_races(ctx, prog)
    return prog
