"""C05 — thread pool / work thread (DESIGN §4 C05)."""
from tbxlint.facts import extract, AnalysisBroken
from tbxlint import locks, q

SCOPE = ['eventx/thread_pool.cpp', 'eventx/work_thread.cpp']
SYNC_HOF = ('tbox::cabinet::Cabinet<', 'std::find', 'std::for_each', 'tbox::CatchThrow')
DEFERRED = {'tbox::event::Loop::runInLoop': 'loop', 'tbox::event::Loop::runNext': 'loop', 'tbox::event::Loop::run': 'loop'}

CLASSES = {
    'tbox::eventx::ThreadPool': dict(worker='threadProc', multi=True, flag='all_threads_stop_flag', thread_field=None),
    'tbox::eventx::WorkThread': dict(worker='threadProc', multi=False, flag='stop_flag', thread_field='work_thread'),
}


def scope_funcs(prog, cls):
    fs = []
    for f in prog.funcs.values():
        o = prog.outermost(f)
        if o.cls == cls or (o.cls or '').startswith(cls + '::'):
            fs.append(f)
    return fs


def r1_races(ctx, prog):
    ctx.rule('C05.R1', 'A1: every conflicting concurrent access pair to pool/worker state shares Data::lock '
                       '(roles: loop API vs worker threads; wait predicates entered with the lock)', floor=30)
    for cls, info in CLASSES.items():
        fs = scope_funcs(prog, cls)
        eng = locks.LockEngine(prog, fs, sync_hof=SYNC_HOF, deferred=DEFERRED)
        c = prog.cls(cls)
        api = [f for f in prog.methods_of(cls) if f.d.get('access') == 'public']
        worker = prog.fn1(cls + '::' + info['worker'])
        roles = {'loop': api, 'worker': [worker]}
        ctxs = eng.contexts(roles, thread_entries={worker.usr: 'worker'})
        fields = locks.class_fields(prog, cls + '::Data') | locks.class_fields(prog, cls)
        stf = {cls + '::Data::' + info['thread_field']: 'worker'} if info['thread_field'] else {}
        accs = locks.race_rule(ctx, 'C05.R1', prog, eng, ctxs, fields,
                               multi_roles=('worker',) if info['multi'] else (),
                               phase=locks.thread_phase(prog, eng, stf))
        # the stop flag must be among the analysed accesses in both roles
        flag = cls + '::Data::' + info['flag']
        roles_seen = {a['role'] for a in accs if a['field'] == flag}
        if not {'loop', 'worker'} <= roles_seen:
            raise AnalysisBroken('stop flag %s not seen in both roles (%s)' % (flag, roles_seen))


def _worker_ctx(prog, cls):
    fs = scope_funcs(prog, cls)
    eng = locks.LockEngine(prog, fs, sync_hof=SYNC_HOF, deferred=DEFERRED)
    worker = prog.fn1(cls + '::' + CLASSES[cls]['worker'])
    return eng, worker


def _is_take(cls):
    def pred(f, st):
        return q.is_call(st, fn='free', cls='tbox::cabinet::Cabinet<') and q.obj_field_is(f, st, 'Data::undo_tasks_cabinet')
    return pred


def _is_backend_invoke(f, st):
    if st['k'] == 'CXXOperatorCallExpr' and st.get('op') == '()' and q.obj_field_is(f, st, 'Task::backend_task'):
        return True
    if q.is_call(st, callee='tbox::CatchThrow') and st.get('args'):
        fq = f.field_of(st['args'][0])
        return bool(fq and fq.endswith('Task::backend_task'))
    return False


def r2_handover(ctx, prog):
    ctx.rule('C05.R2', 'A3: in the worker, removal from the waiting set and insertion into the running set '
                       'happen in one Data::lock critical section, and the insertion precedes the task body', floor=2)
    for cls in CLASSES:
        eng, w = _worker_ctx(prog, cls)
        mutex = cls + '::Data::lock'
        takes = q.event_stmts(prog, eng, w, _is_take(cls))
        marks = [st for st in w.stmts if st and q.is_call(st, fn='insert') and q.obj_field_is(w, st, 'Data::doing_tasks_token')]
        runs = q.event_stmts(prog, eng, w, _is_backend_invoke)
        if not takes or not marks or not runs:
            raise AnalysisBroken('%s::threadProc: take/mark/run events not found (%d/%d/%d)' % (cls, len(takes), len(marks), len(runs)))
        for t in takes:
            tp = q.pt(w, t)
            for m in marks:
                mp = q.pt(w, m)
                if not q.reaches(w, tp, mp):
                    continue
                ok, bad = q.region_atomic(eng, w, frozenset(), tp, mp, mutex)
                ctx.ob('C05.R2', '%s|take->mark' % w.name, ok,
                       'take at %s and mark-running at %s are in one critical section' % (w.loc(t['i']), w.loc(m['i'])) if ok else
                       'Data::lock is released between taking the task from the waiting set (%s) and marking it running (%s): '
                       'in that window getTaskStatus() answers not-found and cancel() answers 1 for a task that will run'
                       % (w.loc(t['i']), w.loc(m['i'])), where=w.loc(m['i']))
            for r in runs:
                rp = q.pt(w, r)
                if not q.reaches(w, tp, rp):
                    continue
                ok = not w.cfg.exists_path(tp, rp, avoid=q.pts(w, marks) + [tp], edge_filter=q.correlated_filter(w, rp))
                ctx.ob('C05.R2', '%s|mark-before-run' % w.name, ok,
                       'every path from the take to the task body passes the mark-running insert' if ok else
                       'a path from the take (%s) reaches the task body (%s) without doing_tasks_token.insert' % (w.loc(t['i']), w.loc(r['i'])),
                       where=w.loc(r['i']))


def r3_completion(ctx, prog):
    ctx.rule('C05.R3', 'A4+A6: task bodies are invoked only on the worker role; main_cb is never invoked directly, it only '
                       'flows into Loop::runInLoop after the body returned and before the task leaves the running set; '
                       'the Task block is recycled after both', floor=6)
    for cls in CLASSES:
        eng, w = _worker_ctx(prog, cls)
        api = [f for f in prog.methods_of(cls) if f.d.get('access') == 'public']
        ctxs = eng.contexts({'loop': api, 'worker': [w]}, thread_entries={w.usr: 'worker'})
        roles_of = {}
        for f, e, r in ctxs:
            roles_of.setdefault(f.key, set()).add(r)
        n_inv = 0
        for f in scope_funcs(prog, cls):
            for st in f.stmts:
                if st and _is_backend_invoke(f, st):
                    n_inv += 1
                    rs = roles_of.get(f.key, set())
                    ctx.ob('C05.R3', '%s|backend_task-invoke' % locks.site_name(prog, f), rs == {'worker'},
                           'task body invoked in role(s) %s' % sorted(rs), where=f.loc(st['i']))
                # direct invocation of main_cb anywhere is forbidden
                if st and st['k'] == 'CXXOperatorCallExpr' and st.get('op') == '()' and q.obj_field_is(f, st, 'Task::main_cb'):
                    ctx.ob('C05.R3', '%s|main_cb-direct' % locks.site_name(prog, f), False,
                           'completion callback invoked directly instead of being posted to the loop', where=f.loc(st['i']))
        if n_inv == 0:
            raise AnalysisBroken('%s: no invocation of Task::backend_task found' % cls)
        # loop-thread-only entry points are never called in the worker role
        for f, e, r in ctxs:
            if r != 'worker':
                continue
            for st in f.calls():
                if st.get('cls') == 'tbox::event::Loop' and st.get('fn') in ('run', 'runNext'):
                    ctx.ob('C05.R3', '%s|loop-entry-in-worker' % locks.site_name(prog, f), False,
                           'Loop::%s() is called on a worker thread: it is only safe on the loop thread (use runInLoop())' % st['fn'], where=f.loc(st['i']))
        # posting of main_cb
        posts = [st for st in w.stmts if st and q.is_call(st, fn='runInLoop', cls='tbox::event::Loop') and st.get('args')
                 and (w.field_of(st['args'][0]) or '').endswith('Task::main_cb')]
        # every other call in the worker that receives main_cb is a wrong hand-over: Loop::run()/runNext() are loop-thread-only
        # (run() falls back to the unlocked runNext() when the loop is not running), anything else bypasses the loop
        for st in w.stmts:
            if st and st['k'] in q.CALL_KINDS and st not in posts and any((w.field_of(a) or '').endswith('Task::main_cb') for a in st.get('args', ())):
                if st.get('cls', '').startswith('std::function') or st.get('fn') in ('operator bool', 'operator=') or st.get('op') in ('=',):
                    continue
                ctx.ob('C05.R3', '%s|main_cb-sink' % w.name, False,
                       'the worker hands main_cb to %s(): only Loop::runInLoop() may be called from a worker thread (run()/runNext() touch the loop\'s unlocked '
                       'queue when the loop is not running — a data race, and the callback can be lost)' % (st.get('callee') or st.get('fn')), where=w.loc(st['i']))
        if not posts:
            ctx.ob('C05.R3', '%s|main_cb-posted' % w.name, False, 'the completion callback is never posted to the loop through Loop::runInLoop()', where=w.loc(w.body))
            continue
        runs = [st for st in w.stmts if st and _is_backend_invoke(w, st)]
        erases = [st for st in w.stmts if st and q.is_call(st, fn='erase') and q.obj_field_is(w, st, 'Data::doing_tasks_token')]
        frees = [st for st in w.stmts if st and q.is_call(st, fn='free', cls='tbox::ObjectPool<') and q.obj_field_is(w, st, 'Data::task_pool')]
        if not erases or not frees:
            raise AnalysisBroken('%s::threadProc: doing_tasks_token.erase / task_pool.free not found' % cls)
        for p in posts:
            pp = q.pt(w, p)
            ok = all(w.cfg.dominates(q.pt(w, r), pp) for r in runs) and bool(runs)
            ctx.ob('C05.R3', '%s|post-after-body' % w.name, ok,
                   'runInLoop(main_cb) is dominated by the return of the task body', where=w.loc(p['i']))
            ok2 = q.must_follow(w, pp, q.pts(w, erases))
            ctx.ob('C05.R3', '%s|post-before-erase' % w.name, ok2,
                   'after posting main_cb every path passes doing_tasks_token.erase (task still reported executing until its completion is queued)',
                   where=w.loc(p['i']))
        for r in runs:
            rp = q.pt(w, r)
            ok = q.must_follow(w, rp, q.pts(w, erases)) and q.must_follow(w, rp, q.pts(w, frees))
            ctx.ob('C05.R3', '%s|body-then-release' % w.name, ok,
                   'after the task body every path erases the running mark and recycles the Task block exactly on that path',
                   where=w.loc(r['i']))
            for fr in frees:
                ctx.ob('C05.R3', '%s|free-after-body' % w.name, w.cfg.dominates(rp, q.pt(w, fr)),
                       'Task block returned to the pool only after the body ran', where=w.loc(fr['i']))
            # the posted callback belongs to the same task as the body
            for p in posts:
                same = w.path(r['args'][0] if r['k'] == 'CallExpr' else r['obj']).rsplit('.', 1)[0] == w.path(p['args'][0]).rsplit('.', 1)[0]
                ctx.ob('C05.R3', '%s|same-task' % w.name, same, 'body and posted callback belong to the same Task object', where=w.loc(p['i']))


def r4_cancel(ctx, prog):
    ctx.rule('C05.R4', 'A4: cancel() answers "executing" first; its success return is dominated by removing the token from the '
                       'waiting deque and freeing it from the cabinet under the lock; cleanup() frees every waiting task '
                       'under the lock before raising the stop flag', floor=8)
    for cls, info in CLASSES.items():
        fs = scope_funcs(prog, cls)
        eng = locks.LockEngine(prog, fs, sync_hof=SYNC_HOF, deferred=DEFERRED)
        mutex = cls + '::Data::lock'
        c = prog.fn1(cls + '::cancel')
        res = eng.analyze(c, frozenset())
        finds = [st for st in c.stmts if st and q.is_call(st, fn='find') and q.obj_field_is(c, st, 'Data::doing_tasks_token')]
        takes = [st for st in c.stmts if st and _is_take(cls)(c, st)]
        erases = [st for st in c.stmts if st and q.is_call(st, fn='erase') and st.get('cls', '').startswith('std::deque<')]
        pool_frees = [st for st in c.stmts if st and q.is_call(st, fn='free', cls='tbox::ObjectPool<')]
        if not takes:
            raise AnalysisBroken('%s::cancel: cabinet free event missing' % cls)
        if not erases:
            ctx.ob('C05.R4', '%s|dequeue-by-erase' % c.name, False, 'cancel() does not remove the token from the waiting deque with erase(): order of the remaining tasks is not preserved', where=c.loc(c.body))
        if not finds:
            ctx.ob('C05.R4', '%s|executing-first' % c.name, False, 'cancel() never consults the running set: a task that is executing is reported as not found / cancelled', where=c.loc(c.body))
        rets = {}
        for r in q.returns(c):
            rets.setdefault(q.return_const(c, r), []).append(r)
        if 0 not in rets or 1 not in rets:
            raise AnalysisBroken('%s::cancel: return codes 0/1 not present' % cls)
        rets.setdefault(2, [])
        for r in rets[0]:
            rp = q.pt(c, r)
            ok = any(c.cfg.dominates(q.pt(c, t), rp) for t in takes) and any(c.cfg.dominates(q.pt(c, e), rp) for e in erases) \
                and any(c.cfg.dominates(q.pt(c, e), rp) for e in pool_frees)
            ctx.ob('C05.R4', '%s|return0' % c.name, ok, 'success return dominated by deque erase + cabinet free + pool free', where=c.loc(r['i']))
            ls = res.get(rp) or frozenset()
            ctx.ob('C05.R4', '%s|return0-locked' % c.name, mutex in ls, 'success return inside the Data::lock region', where=c.loc(r['i']))
        for t in takes + erases:
            tp = q.pt(c, t)
            ok = any(c.cfg.dominates(q.pt(c, f_), tp) for f_ in finds)
            ctx.ob('C05.R4', '%s|executing-first' % c.name, ok, 'the running-set test dominates every removal from the waiting set', where=c.loc(t['i']))
            ctx.ob('C05.R4', '%s|take-locked' % c.name, mutex in (res.get(tp) or ()), 'removal under Data::lock', where=c.loc(t['i']))
        for r in rets[2]:
            # return 2 is control dependent on the find != end test
            cb = c.cfg.controlling_branches(q.pt(c, r))
            ok = any(any(x['i'] == f_['i'] for x in q.subtree_calls(c, cond)) for cond, k, b in cb for f_ in finds)
            ctx.ob('C05.R4', '%s|return2' % c.name, ok, '"executing" answer is control dependent on the running-set lookup', where=c.loc(r['i']))
        # cleanup
        cl = prog.fn1(cls + '::cleanup')
        resc = eng.analyze(cl, frozenset())
        flag_w = q.writes(cl, 'Data::' + info['flag'])
        ctakes = [st for st in cl.stmts if st and _is_take(cls)(cl, st)]
        if not flag_w or not ctakes:
            raise AnalysisBroken('%s::cleanup: stop-flag store or waiting-task free not found' % cls)
        for t in ctakes:
            tp = q.pt(cl, t)
            ctx.ob('C05.R4', '%s|drop-locked' % cl.name, mutex in (resc.get(tp) or ()), 'waiting tasks dropped under Data::lock', where=cl.loc(t['i']))
        # every path on which cleanup() stops the workers has passed the drain loop: the condition of the outermost loop around the
        # cabinet free dominates the wake-up/join that follows (the order relative to the flag store inside the critical section is immaterial)
        after = [st for st in cl.stmts if st and (q.is_call(st, fn='notify_all', cls='std::condition_variable') or q.is_call(st, fn='join', cls='std::thread'))]
        if not after:
            raise AnalysisBroken('%s::cleanup: neither notify_all nor join found' % cls)
        first = sorted(after, key=lambda st: (st['l'], st['i']))[0]
        ok = False
        for t in ctakes:
            loops = [a for a in cl.ancestors(t['i']) if cl.stmts[a]['k'] in ('ForStmt', 'WhileStmt', 'DoStmt', 'CXXForRangeStmt')]
            if loops:
                outer = cl.stmts[loops[-1]]
                cp = cl.cfg.point_of(outer.get('cond')) if outer.get('cond') is not None else None
                if cp is not None and cl.cfg.dominates(cp, q.pt(cl, first)):
                    ok = True
        ctx.ob('C05.R4', '%s|drop-before-stop' % cl.name, ok, 'the drain loop over the waiting deque(s) dominates the wake-up and join of the workers', where=cl.loc(first['i']))


def _loop_collection(f, loop):
    """the container an index loop runs over: X in a condition `i < X.size()`"""
    for c in q.subtree_calls(f, loop.get('cond')) if loop.get('cond') is not None else ():
        if c.get('fn') == 'size' and 'obj' in c:
            return f.path(c['obj'])
    return '?'


def r5_join(ctx, prog):
    ctx.rule('C05.R5', 'A4+A6: cleanup() raises the flag, then notify_all, then joins every worker thread; self-retiring workers '
                       'hand their std::thread (taken out of threads_cabinet) to the loop for join+delete', floor=5)
    for cls, info in CLASSES.items():
        cl = prog.fn1(cls + '::cleanup')
        flag_w = q.writes(cl, 'Data::' + info['flag'])
        notif = [st for st in cl.stmts if st and q.is_call(st, fn='notify_all', cls='std::condition_variable')]
        joins = [st for st in cl.stmts if st and q.is_call(st, fn='join', cls='std::thread')]
        if not flag_w:
            raise AnalysisBroken('%s::cleanup: stop-flag store not found' % cls)
        ctx.ob('C05.R5', '%s|notifies' % cl.name, bool(notif), 'cleanup wakes all waiting workers (notify_all)', where=cl.loc(cl.body))
        ctx.ob('C05.R5', '%s|joins' % cl.name, bool(joins), 'cleanup joins worker threads', where=cl.loc(cl.body))
        for n in notif:
            np_ = q.pt(cl, n)
            ctx.ob('C05.R5', '%s|flag-before-notify' % cl.name, any(cl.cfg.dominates(q.pt(cl, w_), np_) for w_ in flag_w),
                   'stop-flag store dominates notify_all', where=cl.loc(n['i']))
        for j in joins:
            jp = q.pt(cl, j)
            ctx.ob('C05.R5', '%s|notify-before-join' % cl.name, any(cl.cfg.dominates(q.pt(cl, n), jp) for n in notif),
                   'notify_all dominates join', where=cl.loc(j['i']))
        for w_ in flag_w:
            wp = q.pt(cl, w_)
            if info['thread_field']:
                ok = q.must_follow(cl, wp, q.pts(cl, joins))
                ctx.ob('C05.R5', '%s|join-follows' % cl.name, ok, 'every path after the flag store joins the worker', where=cl.loc(w_['i']))
            else:
                # pool: threads are moved to a local vector under the lock (foreach + clear), each element joined and deleted
                fe = [st for st in cl.stmts if st and q.is_call(st, fn='foreach', cls='tbox::cabinet::Cabinet<std::thread>')]
                clr = [st for st in cl.stmts if st and q.is_call(st, fn='clear', cls='tbox::cabinet::Cabinet<std::thread>')]
                dels = [st for st in cl.stmts if st and st['k'] == 'CXXDeleteExpr' and 'thread' in st.get('cdt', '')]
                loops = [st for st in cl.stmts if st and st['k'] in ('CXXForRangeStmt', 'ForStmt', 'WhileStmt') and st.get('body') is not None and
                         any(j['i'] in set(cl.walk(st['body'])) for j in joins) and any(d_['i'] in set(cl.walk(st['body'])) for d_ in dels)]
                # collected under the lock, in the critical section that also raises the flag (no release in between), before the workers are woken
                ok = bool(fe and clr and dels and loops) and all(cl.cfg.dominates(q.pt(cl, x), q.pt(cl, n)) for x in fe + clr for n in notif)
                ctx.ob('C05.R5', '%s|collect-then-join' % cl.name, ok,
                       'workers are collected (foreach+clear) before they are woken, and joined+deleted in a loop over that collection',
                       where=cl.loc(w_['i']))
                if loops:
                    rng = cl.path(loops[0]['range']) if loops[0]['k'] == 'CXXForRangeStmt' else _loop_collection(cl, loops[0])
                    lam_pushes = []
                    for l in prog.lambdas_of.get(cl.key, []):
                        lam_pushes += [st for st in l.stmts if st and q.is_call(st, fn='push_back') and l.path(st['obj']) == rng]
                    ctx.ob('C05.R5', '%s|same-collection' % cl.name, bool(lam_pushes),
                           'the joined collection is the one filled by the foreach callback', where=cl.loc(loops[0]['i']))
        # a pool that raised its stop flag is left "not ready": execute() must refuse until initialize() lowered the flag again
        gate_users = [g for g in prog.methods_of(cls) if g.short in ('execute', 'initialize') and q.field_refs(g, 'Data::is_ready')]
        if gate_users:
            rdy = [a for a, rhs in q.assigns(cl, 'Data::is_ready') if (cl.s(rhs) or {}).get('cv') == 0 or (cl.s(cl.strip_casts(rhs)) or {}).get('v') in (False, 0)]
            for w_ in flag_w:
                ok = bool(rdy) and q.must_follow(cl, q.pt(cl, w_), q.pts(cl, rdy))
                ctx.ob('C05.R5', '%s|not-ready-after-stop' % cl.name, ok, 'every path after the stop flag was raised clears is_ready' if ok else
                       'a path leaves cleanup() with the stop flag raised and is_ready still true: execute() keeps accepting tasks, every worker it spawns exits at once '
                       'on the stale flag, the tasks stay waiting for ever and initialize() is refused', where=cl.loc(w_['i']))
        # self retiring worker (pool only)
        if not info['thread_field']:
            w = prog.fn1(cls + '::threadProc')
            tf = [st for st in w.stmts if st and q.is_call(st, fn='free', cls='tbox::cabinet::Cabinet<std::thread>')]
            if not tf:
                raise AnalysisBroken('%s::threadProc: threads_cabinet.free not found' % cls)
            lams = prog.lambdas_of.get(w.key, [])
            okl = False
            for l in lams:
                js = [st for st in l.stmts if st and q.is_call(st, fn='join', cls='std::thread')]
                ds = [st for st in l.stmts if st and st['k'] == 'CXXDeleteExpr']
                if js and ds:
                    okl = True
            ctx.ob('C05.R5', '%s|self-retire' % w.name, okl, 'retiring worker posts a join+delete of its own std::thread to the loop', where=w.loc(tf[0]['i']))
            # cleanup() may have taken the thread first: the free() result is tested before it is handed to the loop
            from rules.C14 import null_guarded
            tv = None
            for st in w.stmts:
                if st and st['k'] == 'DeclStmt':
                    for d in st['decls']:
                        if 'init' in d and tf[0]['i'] in set(w.walk(d['init'])):
                            tv = d
            lam_sites = [x for x in w.stmts if x and x['k'] == 'LambdaExpr' and any(c.get('d') == (tv or {}).get('d') for c in x.get('caps', ()))]
            okn = tv is not None and bool(lam_sites) and all(null_guarded(w, w.cfg.point_of(x['i']), tv['d']) for x in lam_sites)
            ctx.ob('C05.R5', '%s|self-retire-null' % w.name, okn,
                   'the thread taken out of threads_cabinet is null-tested before it is posted (cleanup() may have taken it first)' if okn else
                   'threads_cabinet.free() may return nullptr when cleanup() collected the thread between the worker\'s two critical sections; the posted task dereferences it',
                   where=w.loc(tf[0]['i']))


def r6_priority(ctx, prog):
    ctx.rule('C05.R6', 'A4: waiting tasks are appended at the back and taken from the front; the pool scans priority levels '
                       'with an index ascending from 0; execute clamps prio into the table', floor=4)
    for cls, info in CLASSES.items():
        pop = prog.fn1(cls + '::popOneTask')
        fr = [st for st in pop.stmts if st and q.is_call(st, fn='front') and st.get('cls', '').startswith('std::deque<')]
        pf = [st for st in pop.stmts if st and q.is_call(st, fn='pop_front') and st.get('cls', '').startswith('std::deque<')]
        bad = [st for st in pop.stmts if st and st['k'] in q.CALL_KINDS and st.get('fn') in ('back', 'pop_back') and st.get('cls', '').startswith('std::deque<')]
        ctx.ob('C05.R6', '%s|fifo-take' % pop.name, bool(fr and pf and not bad), 'tasks are taken with front()/pop_front() only', where=pop.loc(pop.body))
        tk = [st for st in pop.stmts if st and _is_take(cls)(pop, st)]
        ctx.ob('C05.R6', '%s|take-is-front' % pop.name, bool(tk) and all(pop.cfg.dominates(q.pt(pop, f_), q.pt(pop, t)) for f_ in fr for t in tk),
               'the token freed from the cabinet is the one read by front()', where=pop.loc(pop.body))
        ex = [f for f in prog.fn(cls + '::execute')]
        pushes = []
        for f in ex:
            for st in f.stmts:
                if st and st['k'] in q.CALL_KINDS and st.get('cls', '').startswith('std::deque<') and st.get('fn') in ('push_back', 'push_front', 'emplace_back', 'emplace_front', 'insert'):
                    pushes.append((f, st))
        if not pushes:
            raise AnalysisBroken('%s::execute: no enqueue found' % cls)
        for f, st in pushes:
            ctx.ob('C05.R6', '%s|fifo-put' % f.name, st['fn'] in ('push_back', 'emplace_back'), 'enqueue at the back (%s)' % st['fn'], where=f.loc(st['i']))
        # queue discipline over every function of the class: the waiting deques are only appended at the back, read/popped at the
        # front, erased by iterator (cancel) or inspected; nothing writes through an iterator / reference into them
        allowed = {'push_back', 'emplace_back', 'front', 'pop_front', 'erase', 'empty', 'size', 'begin', 'end', 'cbegin', 'cend', 'clear', 'shrink_to_fit', 'max_size'}       # (the last three do not reorder anything)
        for f in scope_funcs(prog, cls):
            for st in f.calls():
                if st.get('cls', '').startswith('std::deque<tbox::cabinet::Token') and st.get('fn') not in allowed and not (st.get('fn') or '').startswith('~') and not st.get('fn', '').startswith('deque'):
                    ctx.ob('C05.R6', '%s|deque.%s' % (locks.site_name(prog, f), st['fn']), False, 'waiting deque used with %s(): breaks first-in-first-out within a priority' % st['fn'], where=f.loc(st['i']))
            for st in f.stmts:
                # *iter = ...  with iter an iterator of the token deque
                if st and st['k'] in ('CXXOperatorCallExpr', 'BinaryOperator') and st.get('op') == '=':
                    lhs = st.get('obj') if st['k'] == 'CXXOperatorCallExpr' else st['ch'][0]
                    l = f.s(f.strip_casts(lhs)) if lhs is not None else None
                    if l and l['k'] == 'CXXOperatorCallExpr' and l.get('op') == '*' and l.get('cls', '').startswith('std::_Deque_iterator<tbox::cabinet::Token'):
                        ctx.ob('C05.R6', '%s|deque-overwrite' % locks.site_name(prog, f), False, 'an element of the waiting deque is overwritten in place: queue order is not preserved', where=f.loc(st['i']))
        if cls.endswith('ThreadPool'):
            # ascending scan from 0
            loops = [st for st in pop.stmts if st and st['k'] == 'ForStmt']
            ok = False
            for lp in loops:
                init = pop.s(lp.get('init'))
                inc = pop.s(pop.strip(lp.get('inc')))
                if init and init['k'] == 'DeclStmt' and init['decls'] and 'init' in init['decls'][0]:
                    iv = pop.s(pop.strip_casts(init['decls'][0]['init']))
                    zero = iv is not None and (iv.get('cv') == 0)
                    up = inc is not None and inc['k'] == 'UnaryOperator' and inc.get('op') == '++'
                    idx_used = any(pop.stmts[x]['k'] == 'DeclRefExpr' and pop.stmts[x].get('d') == init['decls'][0]['d'] for x in pop.walk(lp['body']))
                    ok = ok or (zero and up and idx_used)
            ctx.ob('C05.R6', '%s|prio-scan' % pop.name, ok, 'priority levels scanned with an index ascending from 0 (level 0 = highest priority)', where=pop.loc(pop.body))
            # every walk over the priority levels (take, wake-up predicate, cancel, cleanup) covers exactly levels 0..size-1: folded trip counts
            nwalk = 0
            for g in scope_funcs(prog, cls):
                for lp in [st for st in g.stmts if st and st['k'] == 'ForStmt' and st.get('cond') is not None]:
                    is_sz = lambda sx, g=g: sx['k'] in q.CALL_KINDS and sx.get('fn') == 'size' and sx.get('obj') is not None and (g.field_of(sx['obj']) or '').endswith('undo_tasks_token')
                    if not any(is_sz(g.stmts[x]) for x in g.walk(lp['cond'])):
                        continue
                    nwalk += 1
                    tr = q.loop_trips(g, lp, is_sz)
                    okw = tr is not None and all(tr[N] == (N, 0) for N in tr)
                    wit = next(((N, tr[N]) for N in tr if tr[N] != (N, 0)), None) if tr else None
                    ctx.ob('C05.R6', '%s|levels-walk@%s' % (locks.site_name(prog, g), g.loc(lp['i']).split(':')[-1]), okw, 'the walk visits levels 0..size-1, each once' if okw else
                           'the walk over the priority levels does not visit exactly 0..size-1%s: %s' % ((' (for %d levels it runs %d time(s) from index %d)' % (wit[0], wit[1][0], wit[1][1])) if wit else '',
                           'tasks of the highest priority are never seen' if wit and wit[1][1] > 0 else 'it indexes one level past the table (at() throws in the worker)'), where=g.loc(lp['i']))
            if nwalk < 3:
                raise AnalysisBroken('expected >= 3 walks over undo_tasks_token, found %d' % nwalk)
            # walks bounded by the level count as a constant (snapshot) and the start-up loop that creates the resident workers
            import re as _re
            _m = _re.search(r', (\d+)>$', prog.field(cls + '::Data', 'undo_tasks_token')['ct'])
            n_levels = int(_m.group(1)) if _m else None
            for g in scope_funcs(prog, cls):
                for lp in [st for st in g.stmts if st and st['k'] == 'ForStmt' and st.get('cond') is not None]:
                    body_idx = any(g.stmts[x]['k'] in ('CXXOperatorCallExpr', 'ArraySubscriptExpr', 'CXXMemberCallExpr') and 'undo_tasks_token' in g.path(x) for x in g.walk(lp['body'])) if lp.get('body') is not None else False
                    consts = [g.stmts[x] for x in g.walk(lp['cond']) if g.stmts[x].get('cv') is not None and g.stmts[x]['cv'] == n_levels and g.stmts[x]['k'] != 'BinaryOperator']
                    if body_idx and consts and n_levels:
                        cid = consts[0]['i']
                        tr = q.loop_trips(g, lp, lambda sx, cid=cid: sx['i'] == cid, counts=[n_levels])      # the bound is a constant: one fold
                        okw = tr is not None and tr.get(n_levels) == (n_levels, 0)
                        ctx.ob('C05.R6', '%s|levels-walk-const@%s' % (locks.site_name(prog, g), g.loc(lp['i']).split(':')[-1]), okw,
                               'the walk visits levels 0..%d, each once' % (n_levels - 1) if okw else 'the walk bounded by the level count does not visit exactly 0..%d: it indexes past the level table '
                               'or skips the highest priority' % (n_levels - 1), where=g.loc(lp['i']))
            ini = prog.fn1(cls + '::initialize')
            for lp in [st for st in ini.stmts if st and st['k'] == 'ForStmt' and st.get('cond') is not None and 'min_thread_num' in {ini.stmts[x].get('n') for x in ini.walk(st['cond'])}]:
                tr = q.loop_trips(ini, lp, 'min_thread_num')
                okw = tr is not None and all(tr[N] == (N, 0) for N in tr)
                ctx.ob('C05.R6', '%s|resident-workers' % ini.name, okw, 'initialize() creates exactly min_thread_num resident workers' if okw else
                       'initialize() does not create exactly min_thread_num workers: with min == max the pool starts above its bound (or below its resident number)', where=ini.loc(lp['i']))
            # execute: level = prio + MAX with prio clamped
            f = [f for f in ex if any(st and st['k'] in q.CALL_KINDS and st.get('fn') == 'push_back' for st in f.stmts)][0]
            prio = next((p for p in f.params if p['n'] == 'prio'), None)
            if prio is None:
                raise AnalysisBroken('execute(): parameter prio not found')
            clamps = [st for st in f.stmts if st and st['k'] == 'BinaryOperator' and st.get('op') == '=' and
                      f.s(f.strip(st['ch'][0])).get('d') == prio['d'] and 'cv' in f.s(f.strip_casts(st['ch'][1]))]
            vals = sorted(f.s(f.strip_casts(st['ch'][1]))['cv'] for st in clamps)
            n_levels = None
            fld = prog.field(cls + '::Data', 'undo_tasks_token')
            import re
            m = re.search(r', (\d+)>$', fld['ct'])
            if m:
                n_levels = int(m.group(1))
            ok = len(vals) == 2 and n_levels is not None and vals[0] == -vals[1] and (vals[1] - vals[0] + 1) == n_levels
            ctx.ob('C05.R6', '%s|prio-clamp' % f.name, ok, 'prio clamped to [%s] and the level table has %s entries' % (vals, n_levels), where=f.loc(f.body))


def r7_bound(ctx, prog):
    ctx.rule('C05.R7', 'A4: a worker is created in execute() only under threads_cabinet.size() < max_thread_num, with the lock held', floor=1)
    cls = 'tbox::eventx::ThreadPool'
    fs = scope_funcs(prog, cls)
    eng = locks.LockEngine(prog, fs, sync_hof=SYNC_HOF, deferred=DEFERRED)
    n = 0
    for f in prog.fn(cls + '::execute'):
        res = eng.analyze(f, frozenset())
        for st in q.calls(f, callee=cls + '::createWorker'):
            n += 1
            p = q.pt(f, st)
            cbs = f.cfg.controlling_branches(p)
            ok = False
            for cond, k, b in cbs:
                c = f.s(f.strip_casts(cond))
                if c and c['k'] == 'BinaryOperator' and c.get('op') in ('<', '>'):
                    flds = q.subtree_fields(f, cond)
                    l, r_ = c['ch']
                    lf, rf = q.subtree_fields(f, l), q.subtree_fields(f, r_)
                    if c['op'] == '<' and k == 0 and any(x.endswith('threads_cabinet') for x in lf) and any(x.endswith('max_thread_num') for x in rf):
                        ok = True
                    if c['op'] == '>' and k == 0 and any(x.endswith('threads_cabinet') for x in rf) and any(x.endswith('max_thread_num') for x in lf):
                        ok = True
            ctx.ob('C05.R7', '%s|createWorker' % f.name, ok and (cls + '::Data::lock') in (res.get(p) or ()),
                   'createWorker() is control dependent on threads_cabinet.size() < max_thread_num and runs under Data::lock', where=f.loc(st['i']))
    if n == 0:
        raise AnalysisBroken('no createWorker() call in execute()')


def r10_idle_counter(ctx, prog):
    ctx.rule('C05.R10', 'A4 pairing: idle_thread_num counts the workers inside the condition-variable wait: it is incremented right before and decremented '
                        'right after that wait and written nowhere else while workers may exist (a reset is only sound after every worker was joined)', floor=2)
    cls = 'tbox::eventx::ThreadPool'
    fld = cls + '::Data::idle_thread_num'
    w = prog.fn1(cls + '::threadProc')
    waits = [st for st in w.calls() if st.get('fn') in locks.CV_WAITS and st.get('cls', '').startswith('std::condition_variable')]
    if len(waits) != 1:
        raise AnalysisBroken('ThreadPool::threadProc: expected one condition-variable wait, found %d' % len(waits))
    wp = q.pt(w, waits[0])
    inc_pts, dec_pts = [], []
    for st in w.stmts:
        if st and st['k'] == 'MemberExpr' and st.get('q') == fld and locks.classify_access(w, st['i']) == 'w':
            ps_ = w.s(w.up(st['i'])[0])
            if ps_ and ps_['k'] == 'UnaryOperator' and ps_.get('op') in ('++', '--'):
                (inc_pts if ps_['op'] == '++' else dec_pts).append(q.pt(w, ps_))
    for f in scope_funcs(prog, cls):
        for st in f.stmts:
            if not st or st['k'] != 'MemberExpr' or st.get('q') != fld or locks.classify_access(f, st['i']) != 'w':
                continue
            p_, _ = f.up(st['i'])
            ps = f.s(p_)
            ok, why = False, 'write outside the wait bracket'
            if f is w and ps['k'] == 'UnaryOperator' and ps.get('op') == '++':
                # the bracket ++ ... [wait] ... --: the wait lies inside it and every way on from the increment passes a decrement (the wait itself may be skipped when
                # its condition already holds: `if (!ready) wait(lk);` is the same bracket)
                pp = q.pt(w, ps)
                ok = w.cfg.dominates(pp, wp) and bool(dec_pts) and not w.cfg.exists_path(pp, 'exit', avoid=dec_pts) and not w.cfg.exists_path(pp, pp, avoid=dec_pts)
                why = 'increment before the wait, undone on every way on'
            elif f is w and ps['k'] == 'UnaryOperator' and ps.get('op') == '--':
                pp = q.pt(w, ps)
                ok = bool(inc_pts) and any(w.cfg.dominates(ip, pp) for ip in inc_pts) and q.must_follow(w, wp, [pp])
                why = 'decrement on every path after the wait'
            elif ps['k'] == 'BinaryOperator' and ps.get('op') == '=' and f.s(f.strip_casts(ps['ch'][1])).get('cv') == 0:
                joins = [x for x in f.calls() if x.get('fn') == 'join' and x.get('cls') == 'std::thread']
                loops = [f.enclosing(j['i'], ('CXXForRangeStmt', 'ForStmt', 'WhileStmt')) for j in joins]
                ok = bool(joins) and all(l is not None and f.cfg.dominates(f.cfg.point_of(f.stmts[l].get('cond') if f.stmts[l].get('cond') is not None else f.stmts[l]['range']), q.pt(f, ps)) and
                                         not f.cfg.exists_path(q.pt(f, ps), q.pt(f, j)) for l, j in zip(loops, joins))
                why = 'reset to 0 after all workers were joined' if ok else 'reset to 0 while workers can still be inside the wait: their pending decrement wraps the counter and the pool never grows again'
            ctx.ob('C05.R10', '%s|idle_thread_num:%s' % (locks.site_name(prog, f), ps.get('op', ps['k'])), ok, why, where=f.loc(st['i']))


def r9_nolock_user(ctx, prog):
    ctx.rule('C05.R9', 'A2: Data::lock is not held while a task body runs nor while cleanup joins (no lock->USER edge, '
                       'so cleanup cannot deadlock against a task)', floor=4)
    for cls, info in CLASSES.items():
        fs = scope_funcs(prog, cls)
        eng = locks.LockEngine(prog, fs, sync_hof=SYNC_HOF, deferred=DEFERRED)
        mutex = cls + '::Data::lock'
        api = [f for f in prog.methods_of(cls) if f.d.get('access') == 'public']
        w = prog.fn1(cls + '::threadProc')
        for f, entry, role in eng.contexts({'loop': api, 'worker': [w]}, thread_entries={w.usr: 'worker'}):
            res = eng.analyze(f, entry)
            for st in f.stmts:
                if not st:
                    continue
                if _is_backend_invoke(f, st) or q.is_call(st, fn='join', cls='std::thread'):
                    ls = res.get(q.pt(f, st))
                    if ls is None:
                        continue
                    ctx.ob('C05.R9', '%s|%s' % (locks.site_name(prog, f), 'join' if st.get('fn') == 'join' else 'task-body'),
                           mutex not in ls, 'locks held here: {%s}' % ','.join(sorted(x.split('::')[-1] for x in ls)), where=f.loc(st['i']))


def r11_retire_atomic(ctx, prog):
    ctx.rule('C05.R11', 'A3: the live-worker count that execute() consults is exact: a pool worker that decides to retire (it will take no more tasks) leaves threads_cabinet in '
             'the critical section in which it took that decision — otherwise an execute() in between still counts it, creates no worker and wakes nobody, and the '
             'accepted task has no thread to run it', floor=1)
    cls = [c for c, info in CLASSES.items() if not info['thread_field']]
    if not cls:
        raise AnalysisBroken('pool class not found')
    cls = cls[0]
    eng, w = _worker_ctx(prog, cls)
    mutex = cls + '::Data::lock'
    frees = [st for st in w.stmts if st and q.is_call(st, fn='free', cls='tbox::cabinet::Cabinet<std::thread>')]
    if not frees:
        raise AnalysisBroken('%s::threadProc: threads_cabinet.free not found' % cls)
    # the retire decision: the branch whose condition compares threads_cabinet.size() with min_thread_num
    decs = []
    for b in w.cfg.blocks.values():
        if b.cond is not None and any(x.endswith('min_thread_num') for x in q.subtree_fields(w, b.cond)):
            decs.append(w.cfg.point_of(b.cond))
    if not decs:
        raise AnalysisBroken('%s::threadProc: retire decision (threads_cabinet.size() > min_thread_num) not found' % cls)
    res = eng.analyze(w, frozenset())
    mname = [m for m in (res.get(decs[0]) or ())]
    mtx = next((m for m in mname if m.endswith('::lock')), None)
    for fr in frees:
        ok = False
        why = 'the decision is not taken under Data::lock'
        if mtx:
            for d in decs:
                if not w.cfg.exists_path(d, q.pt(w, fr)):
                    continue
                ok, bad = q.region_atomic(eng, w, frozenset(), d, q.pt(w, fr), mtx)
                why = None if ok else 'Data::lock is released at %s between the retire decision and the removal from threads_cabinet' % (
                    w.loc(w.cfg.blocks[bad[0]].el[min(bad[1], len(w.cfg.blocks[bad[0]].el) - 1)][1]) if bad and w.cfg.blocks[bad[0]].el else '?')
        ctx.ob('C05.R11', '%s|retire-atomic' % w.name, ok,
               'retire decision and threads_cabinet.free() are one critical section' if ok else
               '%s: an execute() in that window sees threads_cabinet.size() == max, creates no worker and notifies nobody; the task waits until some later execute()' % why,
               where=w.loc(fr['i']))


def r12_submission(ctx, prog):
    ctx.rule('C05.R12', 'A4 a submission is complete: in the execute() overload that files the task (pool and single work thread), on every path that returns the task\'s token the item '
             'got its body from the body parameter and its completion callback from the callback parameter, was filed in the waiting cabinet, its token — the one returned — was '
             'queued at the back of a waiting list, and a worker was notified after the queueing (an idle worker sleeps on the condition variable: without the notification the task '
             'waits until some other submission arrives)', floor=2)
    for cls in CLASSES:
        fs = [g for g in prog.fn(cls + '::execute') if any(c.get('fn') == 'alloc' and 'task_pool' in (g.path(c['obj']) if 'obj' in c else '') for c in g.calls())]
        if len(fs) != 1:
            raise AnalysisBroken('%s::execute: the overload that allocates the task item was not found (%d)' % (cls, len(fs)))
        f = fs[0]
        item = [d['d'] for st in f.stmts if st and st['k'] == 'DeclStmt' for d in st['decls'] if 'init' in d and any(c.get('fn') == 'alloc' and 'task_pool' in (f.path(c['obj']) if 'obj' in c else '')
                                                                                                                  for c in q.subtree_calls(f, d['init']))]
        pushes = [c for c in f.calls() if c.get('fn') in ('push_back', 'emplace_back') and 'obj' in c and 'undo_tasks_token' in f.path(c['obj'])]
        notes = [c for c in f.calls() if c.get('fn') in ('notify_one', 'notify_all') and 'obj' in c and (f.field_of(c['obj']) or f.path(c['obj']) or '').endswith('cond_var')]
        files = [c for c in f.calls() if c.get('fn') == 'alloc' and 'obj' in c and 'undo_tasks_cabinet' in f.path(c['obj']) and c.get('args') and (f.s(f.strip_casts(c['args'][0])) or {}).get('d') in item]
        tokvars = set()
        for c in files:
            # token = cabinet.alloc(item), possibly chained: item->token = token = alloc(item)
            cur = c['i']
            while True:
                par, _ = f.up(cur)
                ps = f.s(par) if par is not None else None
                if ps is None or not (ps['k'] in ('BinaryOperator', 'CXXOperatorCallExpr') and ps.get('op') == '=') and ps['k'] not in ('ImplicitCastExpr', 'MaterializeTemporaryExpr', 'CXXBindTemporaryExpr', 'ExprWithCleanups', 'CXXConstructExpr'):
                    break
                if ps.get('op') == '=':
                    lhs = f.s(f.strip_casts(ps['obj'] if 'obj' in ps else ps['ch'][0]))
                    if lhs is not None and lhs['k'] == 'DeclRefExpr':
                        tokvars.add(lhs['d'])
                cur = par
        good_rets = [r for r in q.returns(f) if r.get('val') is not None and any(f.stmts[x]['k'] == 'DeclRefExpr' and f.stmts[x].get('d') in tokvars for x in f.walk(r['val'])) and
                     any(f.cfg.exists_path(q.pt(f, c), q.pt(f, r)) for c in files)]

        def stored(field, param_idx):
            ws = [(a, rhs) for a, rhs in q.assigns(f, field) if rhs is not None and any(f.stmts[x]['k'] == 'DeclRefExpr' and f.stmts[x].get('d') == f.params[param_idx]['d'] for x in f.walk(rhs))]
            return ws
        body_w, cb_w = stored('backend_task', 0), stored('main_cb', 1)
        why = None
        if not item or not files or not pushes or not good_rets:
            why = 'the task item is not allocated, filed in undo_tasks_cabinet, queued and its token returned'
        else:
            ent = f.cfg.entry_point()
            for r in good_rets:
                rp = q.pt(f, r)
                for c in files:
                    fpt = q.pt(f, c)
                    if not f.cfg.exists_path(fpt, rp):
                        continue

                    def skipped(pts_):
                        """some path through the filing call to this return passes none of pts_"""
                        return f.cfg.exists_path(ent, fpt, avoid=pts_) and f.cfg.exists_path(fpt, rp, avoid=pts_)
                    if not body_w or skipped([q.pt(f, a) for a, _ in body_w]):
                        why = why or 'a path files and returns the task without storing the body parameter in the item: the worker runs an empty function'
                    if not cb_w or skipped([q.pt(f, a) for a, _ in cb_w]):
                        why = why or 'a path files and returns the task without storing the completion callback parameter in the item: the caller is never told the task finished'
                    pp = q.pts(f, pushes)
                    if skipped(pp):
                        why = why or 'a path returns the token of a task that was never queued for the workers'
                    if not all(len(c2.get('args', [])) == 1 and (f.s(f.strip_casts(c2['args'][0])) or {}).get('d') in tokvars for c2 in pushes):
                        why = why or 'the token queued for the workers is not the token returned to the caller'
                    np_ = q.pts(f, notes)
                    if not notes or any(f.cfg.exists_path(p_, rp, avoid=np_) for p_ in pp if f.cfg.exists_path(p_, rp)):
                        why = why or 'a path queues the task and returns without notifying the condition variable: an idle worker keeps sleeping and the task waits for an unrelated submission'
        ctx.ob('C05.R12', '%s|complete' % f.name, why is None, 'body and callback stored, item filed, its token queued and returned, a worker notified' if why is None else
               'execute(): ' + why, where=f.loc(f.body))


def r13_progress(ctx, prog):
    ctx.rule('C05.R13', 'A4 cleanup terminates and sees every worker: each loop of cleanup() that runs while a waiting list is non-empty removes an element of that list on every way round '
             '(otherwise cleanup spins for ever under the lock); every thread object the pool creates is recorded in threads_cabinet on the path that created it (cleanup joins what it '
             'finds there — a worker that was never recorded is never joined)', floor=2)
    n = 0
    for cls in CLASSES:
        f = prog.fn1(cls + '::cleanup')
        for lp in [st for st in f.stmts if st and st['k'] in ('WhileStmt', 'ForStmt', 'DoStmt') and st.get('cond') is not None]:
            empt = [c for c in q.subtree_calls(f, lp['cond']) if c.get('fn') == 'empty' and 'obj' in c]
            if not empt:
                continue        # an index loop (i < x.size()) is bounded by its counter, not by draining
            cont = f.path(empt[0]['obj'])
            if 'undo_tasks' not in cont and 'tasks_token' not in cont:
                continue
            n += 1
            body = set(f.walk(lp['body'])) if lp.get('body') is not None else set()
            removers = [c for c in f.calls() if c['i'] in body and c.get('fn') in ('pop_front', 'pop_back', 'erase', 'clear') and 'obj' in c and f.path(c['obj']) == cont]
            hp = f.cfg.point_of(lp['cond'])
            # a way round: from the condition through its continue-edge back to the condition (leaving the loop and entering it again from an outer loop does not count)
            ok = bool(removers) and hp is not None and not f.cfg.exists_path(hp, hp, avoid=q.pts(f, removers), edge_filter=lambda bb, kk, hb=hp[0]: not (bb == hb and kk == 1))
            ctx.ob('C05.R13', '%s|drain-loop@%s' % (f.name, f.loc(lp['i']).split(':')[-1]), ok, 'every way round the loop removes an element of %s' % cont if ok else
                   'the loop runs while %s is non-empty but a way round it removes nothing from %s: cleanup() never returns (and holds the lock while it spins)' % (cont, cont), where=f.loc(lp['i']))
    cw = prog.fn1('tbox::eventx::ThreadPool::createWorker')
    news = [st for st in cw.stmts if st and st['k'] == 'CXXNewExpr' and 'thread' in (st.get('cat') or st.get('at') or '')]
    if not news:
        raise AnalysisBroken('createWorker: creation of the std::thread not found')
    tvar = [d['d'] for st in cw.stmts if st and st['k'] == 'DeclStmt' for d in st['decls'] if 'init' in d and any(x in set(cw.walk(d['init'])) for x in [nw['i'] for nw in news])]
    recs = [c for c in cw.calls() if c.get('fn') in ('update', 'alloc') and 'obj' in c and 'threads_cabinet' in cw.path(c['obj']) and
            any(cw.stmts[x]['k'] == 'DeclRefExpr' and cw.stmts[x].get('d') in tvar for a in c.get('args', []) for x in cw.walk(a))]
    trues = [r for r in q.returns(cw) if q.return_const(cw, r) in (1, True)]
    n += 1
    ok = bool(recs) and bool(trues) and all(not cw.cfg.exists_path(q.pt(cw, nw), q.pt(cw, r), avoid=q.pts(cw, recs)) for nw in news for r in trues)
    ctx.ob('C05.R13', '%s|thread-recorded' % cw.name, ok, 'the new std::thread is stored in threads_cabinet before createWorker() reports success' if ok else
           'createWorker() can report success without storing the new std::thread in threads_cabinet: cleanup() never joins that worker', where=cw.loc(cw.body))
    if n < 2:
        raise AnalysisBroken('expected drain loops of cleanup() and createWorker(), found %d sites' % n)


def run(ctx):
    prog = extract('ALL' if ctx.tier == 'thorough' else SCOPE)
    ctx.guard(r1_races, ctx, prog)
    ctx.guard(r2_handover, ctx, prog)
    ctx.guard(r3_completion, ctx, prog)
    ctx.guard(r4_cancel, ctx, prog)
    ctx.guard(r5_join, ctx, prog)
    ctx.guard(r6_priority, ctx, prog)
    ctx.guard(r7_bound, ctx, prog)
    ctx.guard(r9_nolock_user, ctx, prog)
    ctx.guard(r10_idle_counter, ctx, prog)
    ctx.guard(r11_retire_atomic, ctx, prog)
    ctx.guard(r12_submission, ctx, prog)
    ctx.guard(r13_progress, ctx, prog)
    from tbxlint import progress
    ctx.guard(progress.run_files, ctx, prog, 'C05.R14', ['eventx/thread_pool.cpp', 'eventx/work_thread.cpp', 'base/cabinet.hpp', 'base/object_pool.hpp'], 'thread pool / work thread', floor=1)
    from rules import C05_replay
    ctx.guard(C05_replay.r15, ctx, prog)
    from tbxlint import shared
    ctx.guard(shared.rule, ctx, prog, 'C05.R16', 'A6 no state shared between pools behind their back: ThreadPool, WorkThread and their Data / Task keep no mutable static data member, '
              'function-local static or file-scope variable — two pools (or work threads) used at the same time would touch it each under its own mutex', ['tbox::eventx::ThreadPool', 'tbox::eventx::WorkThread'],
              ['eventx/thread_pool.cpp', 'eventx/work_thread.cpp'], {}, 20)
    return prog
