"""C04 — signal events (DESIGN §4 C04)."""
from tbxlint.facts import extract, AnalysisBroken, MODULES
from tbxlint import locks, q, reent

SCOPE = ['event/common_loop_signal.cpp', 'event/signal_event_impl.cpp', 'event/common_loop.cpp', 'event/common_loop_run.cpp']
CL = 'tbox::event::CommonLoop'
SE = 'tbox::event::SignalEventImpl'
ANON = 'tbox::event::(anonymous namespace)::'
CTXS = ANON + '_signal_ctxs_'
SLOCK = ANON + '_signal_lock_'

HANDLER_ALLOW = ('write', 'std::map<', 'std::set<', 'std::_Rb_tree', 'std::operator!=', 'std::operator==')


def handler(prog):
    return prog.fn1(ANON + 'SignalHandlerFunc')


def r1(ctx, prog):
    ctx.rule('C04.R1', 'A6 callee allow-list: the async signal handler only calls write(), the saved previous handler and read-only '
                       'std::map/std::set traversal — no logging, locking, allocation or other library call', floor=3)
    h = handler(prog)
    n = 0
    for st in h.stmts:
        if not st:
            continue
        if st['k'] in q.CALL_KINDS:
            n += 1
            callee = st.get('callee')
            if not callee:
                src = q.subtree_fields(h, st.get('calleeexpr'))
                ok = any(x.endswith(('sa_sigaction', 'sa_handler', '__sigaction_handler')) or 'old_handler' in x for x in src) or 'old_handler' in ' '.join(q.subtree_paths(h, st['calleeexpr']))
                ctx.ob('C04.R1', '%s|indirect' % h.name, ok, 'indirect call through the saved disposition', where=h.loc(st['i']))
            else:
                ok = callee == 'write' or callee.startswith(HANDLER_ALLOW[1:])
                ctx.ob('C04.R1', '%s|%s' % (h.name, callee.split('<')[0]), ok,
                       'allowed in a signal handler' if ok else '%s is not async-signal-safe / not on the allow-list' % callee, where=h.loc(st['i']))
        elif st['k'] in ('CXXNewExpr', 'CXXDeleteExpr', 'CXXThrowExpr', 'LambdaExpr'):
            ctx.ob('C04.R1', '%s|%s' % (h.name, st['k']), False, '%s in a signal handler' % st['k'], where=h.loc(st['i']))
        elif st['k'] == 'CXXConstructExpr' and not st['ctor'].startswith(('std::_Rb_tree', 'std::set<', 'std::map<')):
            ctx.ob('C04.R1', '%s|ctor:%s' % (h.name, st['ctor'].split('<')[0]), False, 'constructs %s in a signal handler' % st['ctor'], where=h.loc(st['i']))
    if n < 3:
        raise AnalysisBroken('signal handler: expected >=3 calls, found %d' % n)


def r2(ctx, prog):
    ctx.rule('C04.R2', 'A4: the handler chains to the previous disposition (sa_sigaction under SA_SIGINFO, else sa_handler unless DFL/IGN/ERR) '
                       'and writes the signal number to every subscribed loop\'s pipe', floor=3)
    h = handler(prog)
    ind = [st for st in h.stmts if st and st['k'] == 'CallExpr' and not st.get('callee')]
    wr = [st for st in h.stmts if st and st['k'] == 'CallExpr' and st.get('callee') == 'write']
    ctx.ob('C04.R2', '%s|chains' % h.name, len(ind) >= 1, 'previous handler is invoked (%d indirect call sites)' % len(ind), where=h.loc(h.body))
    ctx.ob('C04.R2', '%s|fanout' % h.name, len(wr) == 1 and h.enclosing(wr[0]['i'], ('CXXForRangeStmt', 'ForStmt', 'WhileStmt')) is not None if wr else False,
           'write() sits in a loop over the subscribed pipes', where=h.loc(h.body))
    for w in wr:
        lp = h.enclosing(w['i'], ('CXXForRangeStmt',))
        rng = h.stmts[lp]['range'] if lp is not None else None
        ctx.ob('C04.R2', '%s|fanout-all' % h.name, rng is not None and 'write_fds' in ' '.join(q.subtree_paths(h, rng)), 'the loop ranges over write_fds', where=h.loc(w['i']))
        a = [h.path(x) for x in w['args']]
        ctx.ob('C04.R2', '%s|payload' % h.name, 'signo' in a[1] and h.s(h.strip_casts(w['args'][2])).get('cv') == 4, 'writes sizeof(int) bytes of signo (%s)' % a, where=h.loc(w['i']))
    for i in ind:
        # (the order "earlier handler, then the pipes" is how the code is written; the property asks that the earlier handler is still invoked, not when — the
        #  obligation on the order was dropped after the variant notify_then_old; C04.R12 replays the invocation itself)
        src = ' '.join(q.subtree_paths(h, i['calleeexpr']))
        if 'sa_handler' in src or '__sigaction_handler' in src and 'sa_sigaction' not in src:
            tests = [c for c, br in q.lexical_guards(h, i['i'])]
            consts = set()
            for c in tests:
                for x in h.walk(c):
                    sx = h.stmts[x]
                    if sx['k'] == 'BinaryOperator' and sx.get('op') == '!=':
                        for y in sx['ch']:
                            v = h.s(h.strip_casts(y))
                            # SIG_ERR=-1, SIG_DFL=0, SIG_IGN=1 as pointer constants
                            for z in h.walk(y):
                                if 'cv' in h.stmts[z]:
                                    consts.add(h.stmts[z]['cv'])
            ctx.ob('C04.R2', '%s|guard-special' % h.name, {-1, 0, 1} <= consts, 'sa_handler is compared against SIG_ERR/SIG_DFL/SIG_IGN before the call (%s)' % sorted(consts), where=h.loc(i['i']))
        elif 'sa_sigaction' in src:
            ok = any(any(h.stmts[x]['k'] == 'BinaryOperator' and h.stmts[x].get('op') == '&' and h.s(h.strip_casts(h.stmts[x]['ch'][1])).get('cv') == 4 for x in h.walk(c)) and br == 'then'
                     for c, br in q.lexical_guards(h, i['i']))
            ctx.ob('C04.R2', '%s|guard-siginfo' % h.name, ok, 'sa_sigaction is called only under sa_flags & SA_SIGINFO', where=h.loc(i['i']))


def sigaction_calls(f):
    """calls that change a disposition: signal(), and sigaction() with a non-null new action (a pure query passes nullptr)"""
    out = []
    for st in f.stmts:
        if st and st['k'] == 'CallExpr' and st.get('callee') in ('sigaction', 'signal'):
            if st['callee'] == 'sigaction' and len(st.get('args', [])) >= 2:
                a = f.s(f.strip_casts(st['args'][1]))
                if a is not None and (a['k'] in ('CXXNullPtrLiteralExpr', 'GNUNullExpr') or a.get('cv') == 0):
                    continue
            out.append(st)
    return out


def r3(ctx, prog):
    ctx.rule('C04.R3', 'A4 pairing: the first subscriber installs the handler and saves the previous disposition in the per-signal record; '
                       'the last unsubscriber restores exactly that record before erasing it; a failed install rolls back', floor=5)
    s = prog.fn1(CL + '::subscribeSignal')
    u = prog.fn1(CL + '::unsubscribeSignal')
    inst = sigaction_calls(s)
    if len(inst) != 1:
        raise AnalysisBroken('subscribeSignal: expected one sigaction/signal call, found %d' % len(inst))
    i = inst[0]
    if i['callee'] == 'sigaction':
        saved = any(x.endswith('SignalCtx::old_handler') for x in q.subtree_fields(s, i['args'][2]))
        newh = ' '.join(q.subtree_paths(s, i['args'][1]))
    else:
        p_, _ = s.up(i['i'])
        saved = s.s(p_) is not None and any(x.endswith('old_handler') for x in q.subtree_fields(s, p_))
        newh = ''
    ctx.ob('C04.R3', '%s|save-old' % s.name, saved, 'the previous disposition is stored into SignalCtx::old_handler', where=s.loc(i['i']))
    g = [c for c, br in q.lexical_guards(s, i['i']) if br == 'then' and any(x.endswith('write_fds') for x in q.subtree_fields(s, c)) and any(cc.get('fn') == 'empty' for cc in q.subtree_calls(s, c))]
    ctx.ob('C04.R3', '%s|install-once' % s.name, bool(g), 'the handler is installed only when the signal had no subscribed loop (write_fds.empty())', where=s.loc(i['i']))
    ins = [st for st in s.calls() if st.get('fn') == 'insert' and 'write_fds' in s.path(st['obj'])]
    ctx.ob('C04.R3', '%s|register-after-install' % s.name, bool(ins) and all(not s.cfg.exists_path(q.pt(s, x), q.pt(s, i)) for x in ins) and
           all(s.cfg.exists_path(q.pt(s, i), q.pt(s, x)) for x in ins), 'this loop\'s pipe is registered after a successful install', where=s.loc(i['i']))
    # failure path
    fails = [r for r in q.returns(s) if q.return_const(s, r) == 0 and s.cfg.exists_path(q.pt(s, i), q.pt(s, r))]
    okf = bool(fails) and all(any(st.get('fn') == 'erase' and (s.field_of(st['obj']) or '').endswith('all_signals_subscribers_') and s.cfg.dominates(q.pt(s, st), q.pt(s, r)) for st in s.calls()) for r in fails)
    ctx.ob('C04.R3', '%s|rollback' % s.name, okf, 'a failed install removes the subscriber slot it created and returns false without registering', where=s.loc(i['i']))
    for r in fails:
        ctx.ob('C04.R3', '%s|fail-skips-register' % s.name, all(not s.cfg.dominates(q.pt(s, x), q.pt(s, r)) for x in ins), 'the failure return is not preceded by the pipe registration', where=s.loc(r['i']))
    rest = sigaction_calls(u)
    if len(rest) != 1:
        ctx.ob('C04.R3', '%s|restore' % u.name, False, 'expected exactly one restoring sigaction/signal call, found %d' % len(rest), where=u.loc(u.body))
        return
    r_ = rest[0]
    src = q.subtree_fields(u, r_['args'][1])
    ctx.ob('C04.R3', '%s|restore-saved' % u.name, any(x.endswith('SignalCtx::old_handler') for x in src), 'the restored disposition is the saved SignalCtx::old_handler', where=u.loc(r_['i']))
    ctx.ob('C04.R3', '%s|restore-same-signal' % u.name, u.path(r_['args'][0]) == 'signo' and s.path(i['args'][0]) == 'signo', 'install and restore address the subscribed signal number', where=u.loc(r_['i']))
    er = [st for st in u.calls() if st.get('fn') == 'erase' and 'obj' in st and u.s(u.strip_casts(st['obj'])).get('q') == CTXS]
    ctx.ob('C04.R3', '%s|restore-before-erase' % u.name, bool(er) and all(u.cfg.dominates(q.pt(u, r_), q.pt(u, e)) for e in er), 'the record is erased only after the disposition was restored from it', where=u.loc(r_['i']))
    g = [c for c, br in q.lexical_guards(u, r_['i']) if br == 'then' and any(x.endswith('write_fds') for x in q.subtree_fields(u, c)) and any(cc.get('fn') == 'empty' for cc in q.subtree_calls(u, c))]
    we = [st for st in u.calls() if st.get('fn') == 'erase' and 'write_fds' in u.path(st['obj'])]
    ctx.ob('C04.R3', '%s|restore-on-last' % u.name, bool(g) and bool(we) and all(u.cfg.dominates(q.pt(u, w), q.pt(u, r_)) for w in we),
           'restore happens exactly when removing this loop\'s pipe left write_fds empty', where=u.loc(r_['i']))


def r4(ctx, prog):
    ctx.rule('C04.R4', 'A1+A4: outside the handler, the process-wide signal table is only touched with _signal_lock_ held and all signals '
                       'blocked (sigprocmask(SIG_BLOCK) with a scope-exit restore)', floor=2)
    fs = [f for f in prog.funcs.values() if f.file.endswith('event/common_loop_signal.cpp')]
    eng = locks.LockEngine(prog, fs, sync_hof=('tbox::SetScopeExitAction',))
    n = 0
    for f in fs:
        if f.name == ANON + 'SignalHandlerFunc' or f.parent_func is not None:
            continue
        res = eng.analyze(f, frozenset())
        for st, qn, rw in locks.global_accesses(f, {CTXS}):
            n += 1
            p = q.pt(f, st)
            ls = res.get(p) or frozenset()
            blocks = [c for c in f.stmts if c and c['k'] == 'CallExpr' and c.get('callee') == 'sigprocmask' and f.s(f.strip_casts(c['args'][0])).get('cv') == 0]
            restores = [c for c in f.stmts if c and c['k'] in q.CALL_KINDS and c.get('callee', '').startswith('tbox::SetScopeExitAction') or (c and c['k'] == 'CXXConstructExpr' and 'ScopeExitAction' in c.get('ctor', ''))]
            masked = any(f.cfg.dominates(q.pt(f, b), p) for b in blocks)
            restored = any(q.pt(f, r) is not None and f.cfg.dominates(q.pt(f, r), p) for r in restores)
            ctx.ob('C04.R4', '%s|_signal_ctxs_@%d' % (f.name, n), SLOCK in ls and masked and restored,
                   'lock held: %s, signals blocked: %s, scope-exit restore armed: %s' % (SLOCK in ls, masked, restored), where=f.loc(st['i']))
    if n < 2:
        raise AnalysisBroken('expected >=2 accesses to _signal_ctxs_ outside the handler, found %d' % n)


def r5(ctx, prog):
    ctx.rule('C04.R5', 'A4: a one-shot signal event disables itself before its callback', floor=1)
    f = prog.fn1(SE + '::onSignal')
    inv = q.invokes(f, 'cb_')
    dis = q.calls(f, callee=SE + '::disable')
    if not inv:
        raise AnalysisBroken('SignalEventImpl::onSignal: callback invoke not found')
    for i in inv:
        ip = q.pt(f, i)
        ok = False
        for d in dis:
            dg = [c for c, k, b in f.cfg.controlling_branches(q.pt(f, d)) if any(x.endswith('mode_') for x in q.subtree_fields(f, c)) and k == 0]
            if dg and f.cfg.dominates(f.cfg.point_of(dg[0]), ip) and not f.cfg.exists_path(ip, q.pt(f, d)):
                ok = True
        ctx.ob('C04.R5', '%s|oneshot-first' % f.name, ok, 'mode_ == kOneshot test and disable() precede the callback', where=f.loc(i['i']))


def r6(ctx, prog):
    ctx.rule('C04.R6', 'A7 snapshot dispatch: CommonLoop::onSignal calls subscribers from a copy of the subscriber set and re-validates each '
                       'against the live set first (a callback may disable or destroy another subscriber)', floor=1)
    f = prog.fn1(CL + '::onSignal')
    res = reent.snapshot_dispatch(prog, f, 'all_signals_subscribers_')
    if not res:
        live = [l for l in reent.range_loops(f) if any(x.endswith('all_signals_subscribers_') for x in q.subtree_fields(f, l['range']))]
        ctx.ob('C04.R6', '%s|snapshot' % f.name, False, 'dispatch loop over a snapshot of the subscribers not found' + (' (iterates the live set)' if live else ''), where=f.loc(f.body))
    for r in res:
        ctx.ob('C04.R6', '%s|revalidate' % f.name, r['ok'],
               'each subscriber is looked up in the live set before onSignal()' if r['ok'] else
               'subscribers are called from a stale copy of the set without re-validation: a callback that destroys another subscriber gets it called after free', where=f.loc(r['call']['i']))


def r7(ctx, prog):
    ctx.rule('C04.R7', 'A5: SignalEventImpl keeps is_enabled_ in step with its subscriptions: a partial failure in enable() rolls back what it subscribed', floor=2)
    f = prog.fn1(SE + '::enable')
    subs = q.calls(f, callee=CL + '::subscribeSignal')
    if not subs:
        raise AnalysisBroken('SignalEventImpl::enable: subscribeSignal call missing')
    for r in q.returns(f):
        if q.return_const(f, r) == 0 and f.enclosing(r['i'], ('CXXForRangeStmt', 'ForStmt', 'WhileStmt')) is not None:
            # inside the subscription loop: earlier signals may already be subscribed
            blk = f.enclosing(r['i'], ('CompoundStmt',))
            uns = [st for st in q.calls(f, callee=CL + '::unsubscribeSignal') if blk is not None and st['i'] in set(f.walk(blk))]
            ctx.ob('C04.R7', '%s|rollback' % f.name, bool(uns),
                   'the failure branch unsubscribes what was subscribed' if uns else
                   'enable() returns false from inside the subscription loop leaving earlier signals subscribed while is_enabled_ stays false: disable() will never '
                   'unsubscribe them and the old disposition is never restored', where=f.loc(r['i']))
    d = prog.fn1(SE + '::disable')
    w = [a for a, rhs in q.assigns(d, 'is_enabled_')]
    ctx.ob('C04.R7', '%s|flag' % d.name, bool(w) and bool(q.calls(d, callee=CL + '::unsubscribeSignal')), 'disable() unsubscribes under is_enabled_ and clears the flag', where=d.loc(d.body))
    e_w = [a for a, rhs in q.assigns(f, 'is_enabled_')]
    ctx.ob('C04.R7', '%s|flag' % f.name, bool(e_w) and all(not f.cfg.exists_path(q.pt(f, a), q.pt(f, s_)) for a in e_w for s_ in subs), 'is_enabled_ is set only after all subscriptions succeeded', where=f.loc(f.body))


def r8(ctx, prog):
    ctx.rule('C04.R8', 'A5 idempotent subscription ("exactly one callback per enabled event"): a subscriber is recorded in a unique-key container, '
             'or enable() refuses to subscribe an already enabled event', floor=1)
    s = prog.fn1(CL + '::subscribeSignal')
    f = prog.fn1(SE + '::enable')
    stores = [st for st in s.stmts if st and st['k'] == 'CXXMemberCallExpr' and st.get('fn') in ('insert', 'push_back', 'emplace', 'emplace_back', 'push_front', 'emplace_front')
              and any(s.path(a) == 'who' for a in st.get('args', ()))]
    if not stores:
        raise AnalysisBroken('subscribeSignal: the statement recording the subscriber was not found')
    subs = q.calls(f, callee=CL + '::subscribeSignal')
    guarded = bool(subs) and all(any(x.endswith('is_enabled_') for g in f.cfg.controlling_branches(q.pt(f, c)) for x in q.subtree_paths(f, g[0])) for c in subs)
    for st in stores:
        uniq = st.get('cls', '').startswith(('std::set<', 'std::unordered_set<'))
        ctx.ob('C04.R8', '%s|unique' % s.name, uniq or guarded,
               'subscriber recorded with %s::%s%s' % (st.get('cls', '?').split('<')[0], st.get('fn'), '' if uniq else ' and enable() is guarded by is_enabled_') if uniq or guarded else
               'subscriber recorded with %s::%s, which keeps duplicates, and enable() does not test is_enabled_: enabling an event twice gives two callbacks per delivery and '
               'one disable() leaves a live subscription behind' % (st.get('cls', '?').split('<')[0], st.get('fn')), where=s.loc(st['i']))


def r9(ctx, prog):
    ctx.rule('C04.R9', 'A4 depends-on: the action the framework installs is its own — every store into the flags and the mask of the sigaction it installs is a constant '
             '(SA_SIGINFO, an emptied mask): nothing is taken over from the handler that was installed before, whose SA_RESETHAND / SA_NODEFER / mask would change how '
             'many deliveries reach the subscribers', floor=1)
    f = prog.fn1(CL + '::subscribeSignal')
    inst = [c for c in sigaction_calls(f) if c['callee'] == 'sigaction']
    if not inst:
        ctx.ob('C04.R9', '%s|own-flags' % f.name, True, 'installed through signal(): no flags to inherit')
        return
    newh = f.s(f.strip_casts(inst[0]['args'][1]))
    roots = {f.stmts[x].get('d') for x in f.walk(inst[0]['args'][1]) if f.stmts[x]['k'] == 'DeclRefExpr' and f.stmts[x].get('dk') == 'Var'}
    bad, n = [], 0
    for st in f.stmts:
        if st and st['k'] in ('BinaryOperator', 'CompoundAssignOperator') and st.get('op', '').endswith('=') and st['op'] not in ('==', '!=', '<=', '>='):
            lhs = f.s(f.strip_casts(st['ch'][0]))
            if lhs and lhs['k'] == 'MemberExpr' and lhs.get('n') in ('sa_flags', 'sa_mask') and \
                    any(f.stmts[x]['k'] == 'DeclRefExpr' and f.stmts[x].get('d') in roots for x in f.walk(lhs['i'])):
                n += 1
                if (f.s(st['ch'][1]) or {}).get('cv') is None:
                    bad.append(st)
    if n < 1:
        raise AnalysisBroken('subscribeSignal: no store into the installed action\'s sa_flags found')
    ctx.ob('C04.R9', '%s|own-flags' % f.name, not bad, 'sa_flags of the installed action is a constant; the mask is emptied' if not bad else
           'the installed action takes %s from another sigaction (%s): with SA_RESETHAND in the inherited flags the kernel resets the disposition after the first delivery — '
           'later deliveries reach no subscriber and take the default action' % (f.path(bad[0]['ch'][0]), f.loc(bad[0]['i'])), where=f.loc(bad[0]['i']) if bad else f.loc(inst[0]['i']))


def r10(ctx, prog):
    ctx.rule('C04.R10', 'A6 deferred destruction names the object, not the slot: a task posted to the loop that destroys the signal pipe\'s FdEvent deletes a pointer it captured by '
             'value after it was taken out of the member (swap / copy-then-null) — a task that reads the member when it runs destroys whatever a re-subscription has put '
             'there in the meantime', floor=2)
    n = 0
    for name in ('subscribeSignal', 'unsubscribeSignal'):
        f = prog.fn1(CL + '::' + name)
        for l in prog.lambdas_of.get(f.key, []):
            for st in l.stmts:
                if st and st['k'] == 'CXXDeleteExpr':
                    n += 1
                    op = l.s(l.strip_casts(st['ch'][0])) if st.get('ch') else None
                    fld = l.field_of(st['ch'][0]) if st.get('ch') else None
                    ok = op is not None and op['k'] == 'DeclRefExpr' and not fld
                    ctx.ob('C04.R10', '%s|deferred-delete' % locks.site_name(prog, l), ok, 'the deferred task deletes the captured pointer %s' % (op.get('n') if op else '?') if ok else
                           'the deferred task deletes the member %s as it is when the task runs: if the loop subscribes again before then (a one-shot event re-armed from its '
                           'callback, disable(); enable();) the freshly created, enabled event is destroyed and no subscriber of this loop is ever called again' % (fld or l.path(st['ch'][0])),
                           where=l.loc(st['i']))
    if n < 2:
        raise AnalysisBroken('expected 2 deferred deletes of the signal read event, found %d' % n)


def r11(ctx, prog):
    ctx.rule('C04.R11', 'A10 delivery is total over the signal numbers: in CommonLoop::onSignal every branch between reading a signal number from the pipe and looking up its '
             'subscribers that tests that number is folded over 1..64 (SIGRTMIN = 34, SIGRTMAX = 64): each of these numbers reaches the look-up — a "sanity" filter may '
             'drop what no subscription can name, never a signal a subscriber can be enabled for', floor=1)
    f = prog.fn1(CL + '::onSignal')
    finds = [c for c in f.calls() if c.get('fn') in ('find', 'at', 'count', 'operator[]', 'equal_range') and 'obj' in c and (f.field_of(c['obj']) or '').endswith('all_signals_subscribers_') and c.get('args')]
    if not finds:
        raise AnalysisBroken('onSignal: look-up in all_signals_subscribers_ not found')
    n = 0
    for c in finds:
        key = f.s(f.strip_casts(c['args'][0]))
        if key is None or key['k'] != 'DeclRefExpr':
            raise AnalysisBroken('onSignal: the look-up key is not a local variable (%s)' % f.loc(c['i']))
        kd = key['d']
        lost = []
        for cond, k, b in f.cfg.controlling_branches(q.pt(f, c)):
            if not any(f.stmts[x]['k'] == 'DeclRefExpr' and f.stmts[x].get('d') == kd for x in f.walk(cond)):
                continue
            n += 1
            for v in range(1, 65):
                def leaf(sx, v=v):
                    if sx['k'] == 'DeclRefExpr' and sx.get('d') == kd:
                        return v
                    if sx['k'] in q.CALL_KINDS and (sx.get('callee') or sx.get('fn') or '').endswith('__libc_current_sigrtmax'):
                        return 64
                    if sx['k'] in q.CALL_KINDS and (sx.get('callee') or sx.get('fn') or '').endswith('__libc_current_sigrtmin'):
                        return 34
                    return None
                r = q.eval_expr(f, cond, leaf, signed=True)
                if r is None:
                    raise AnalysisBroken('onSignal: the test of the signal number at %s cannot be folded' % f.loc(cond))
                if bool(r) != (k == 0):
                    lost.append((v, cond))
        ctx.ob('C04.R11', '%s|all-signals-looked-up' % f.name, not lost, 'every signal number 1..64 read from the pipe reaches the subscriber look-up (%d test(s) folded)' % n if not lost else
               'signal number(s) %s read from the pipe are discarded by the test at %s before the subscriber look-up: an event enabled for that signal installs the handler, '
               'the handler writes the pipe, and no callback ever runs' % (sorted({v for v, _ in lost})[:6], f.loc(lost[0][1])), where=f.loc(lost[0][1]) if lost else f.loc(c['i']))


def run(ctx):
    prog = extract('ALL' if ctx.tier == 'thorough' else SCOPE)
    ctx.guard(r1, ctx, prog)
    ctx.guard(r2, ctx, prog)
    ctx.guard(r3, ctx, prog)
    ctx.guard(r4, ctx, prog)
    ctx.guard(r5, ctx, prog)
    ctx.guard(r6, ctx, prog)
    ctx.guard(r7, ctx, prog)
    ctx.guard(r8, ctx, prog)
    ctx.guard(r9, ctx, prog)
    ctx.guard(r10, ctx, prog)
    ctx.guard(r11, ctx, prog)
    from rules import C04_replay
    ctx.guard(C04_replay.r12, ctx, prog)
    return prog
