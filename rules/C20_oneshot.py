"""C20 — the life of a one-shot alarm under two clocks (C20.R17).  Imported by rules/C20.py.

The bench of C20.R15 (rules/C20_life.py) with the record of a OneshotAlarm (00:00, time zone offset 0) and its own expiry handler, reached the way the timer reaches it (the
override of onTimeExpired).  Scripts: enable, disable, refresh, the timer firing on time or 5 ms early on the wall clock, the wall clock stepped back or forth, waiting; the
callback of the alarm does nothing, enables the alarm again (the documented way to repeat a one-shot alarm), or calls refresh().

What the property says about a one-shot alarm: it fires once — one callback per successful enable(), after which it is not running and its timer is not armed unless the
callback enabled it again; while it runs it aims at the earliest matching instant after the current time (after the instant that has just fired, when that fired a moment
early and the callback enables again), the timer waits at least the wall-clock distance, and a disabled alarm never fires."""
import itertools
from tbxlint.facts import AnalysisBroken
from rules import C20_life
from rules.C20_life import Bench, A, PERIOD

O = 'tbox::alarm::OneshotAlarm'


class OneBench(Bench):
    def __init__(self, prog, cb_mode):
        Bench.__init__(self, prog, False)
        it = self.it
        old = self.rec
        self.rec = it.new_record(O)
        it._keep.append(self.rec)
        for k in ('sp_timer_ev_', 'using_independ_timezone_', 'timezone_offset_seconds_', 'cb_level_', 'target_utc_sec_', 'fired_utc_sec_', 'state_'):
            self.rec[k] = old[k]
        self.rec['seconds_of_day_'] = 0
        self.cb_mode = cb_mode
        self.rec['cb_'] = self.on_alarm
        self.enabled_ok = 0         # successful enable() calls
        self.cb_runs = 0
        self.handler = [g for g in prog.by_name.get(O + '::onTimeExpired', ()) if g.body is not None]
        if len(self.handler) != 1:
            raise AnalysisBroken('OneshotAlarm::onTimeExpired: %d definition(s)' % len(self.handler))

    def on_alarm(self):
        self.cb_runs += 1
        inst = self.cur_inst         # the instant the timer that has just expired stood for
        self.fires.append((inst, self.wall_us))
        if self.timer['enabled']:
            self.note('the callback of a one-shot alarm runs with its timer armed again')
        prev = [x for x in self.fires[:-1] if x[0] == inst and isinstance(inst, int) and x[1] >= inst * 1000000 - 1000000]
        if prev and not self.stepped_since_fire and not self.tainted:
            self.note('the alarm fires twice for the instant %s (wall clock %d.%06d and %d.%06d)' % (inst, prev[-1][1] // 1000000, prev[-1][1] % 1000000, self.wall_us // 1000000, self.wall_us % 1000000))
        self.stepped_since_fire = False
        if self.cb_runs > self.enabled_ok:
            self.note('the callback ran %d time(s) for %d successful enable()' % (self.cb_runs, self.enabled_ok))
        if self.cb_mode == 'enable':
            arms0 = getattr(self, 'arms', 0)
            r = self.call('enable')
            if r:
                self.enabled_ok += 1
            if getattr(self, 'arms', 0) != arms0:
                self.tainted = False
                self.check_armed('enable() from the callback')
        elif self.cb_mode == 'refresh':
            self.call('refresh')
            if self.rec.get('state_') == 2 or self.timer['enabled']:
                self.note('refresh() from the callback re-arms a one-shot alarm that has fired')

    def fire(self, early_us):
        t = self.timer
        if not t['enabled'] or not isinstance(t['span_ms'], int):
            return
        dt = t['armed_mono'] + t['span_ms'] * 1000 - self.mono_us
        if dt < 0:
            dt = 0
        self.mono_us += dt
        self.wall_us += max(0, dt - early_us)
        t['enabled'] = 0
        if self.stepped_since_arm:
            self.tainted = True
        self.cur_inst = self.rec.get('target_utc_sec_')
        self.it.call(self.handler[0], [], this=self.rec)


def run_script(prog, script, cb_mode):
    b = OneBench(prog, cb_mode)
    for n, a in enumerate(script):
        when = 'step %d (%s)' % (n + 1, ' '.join(str(x) for x in a))
        k = a[0]
        arms0 = getattr(b, 'arms', 0)
        runs0 = b.cb_runs
        was_running = b.rec.get('state_') == 2
        if k == 'enable':
            if b.call('enable'):
                if not was_running:
                    b.enabled_ok += 1
            if not was_running and b.rec.get('state_') != 2:
                b.note('%s: enable() of an initialised alarm does not start it' % when)
        elif k == 'disable':
            b.call('disable')
            if b.rec.get('state_') == 2 or b.timer['enabled']:
                b.note('%s: the alarm is still running (or its timer armed) after disable()' % when)
        elif k == 'refresh':
            b.tainted = False
            b.call('refresh')
            if not was_running and (b.rec.get('state_') == 2 or b.timer['enabled']):
                b.note('%s: refresh() starts an alarm that was not running' % when)
        elif k == 'fire':
            b.fire(a[1])
            if was_running and b.cb_runs == runs0:
                b.note('%s: the timer of a running alarm expired and the callback did not run' % when)
            if not was_running and b.cb_runs != runs0:
                b.note('%s: an alarm that is not running fires' % when)
            if b.cb_mode != 'enable' and (b.rec.get('state_') == 2 or b.timer['enabled']):
                b.note('%s: a one-shot alarm is running again after it fired' % when)
        elif k == 'step':
            b.wall_us += a[1] * 1000000
            b.stepped_since_fire = True
            if b.timer['enabled']:
                b.stepped_since_arm = True
        elif k == 'wait':
            b.wall_us += a[1] * 1000000
            b.mono_us += a[1] * 1000000
        if b.it.faults:
            return '%s: %s' % (when, b.it.faults[0])
        running = b.rec.get('state_') == 2
        if running and k in ('enable', 'refresh') and getattr(b, 'arms', 0) != arms0:
            b.check_armed(when)
        if running and not b.timer['enabled']:
            b.note('%s: the alarm is running and its timer is not armed' % when)
        if not running and b.timer['enabled']:
            b.note('%s: the alarm is not running and its timer is armed' % when)
        if b.problem:
            return '%s: %s' % (when, b.problem)
    return None


def r17(ctx, prog):
    depth = 6 if ctx.tier == 'thorough' else 5
    alpha = [('enable',), ('disable',), ('refresh',), ('fire', 0), ('fire', 5000), ('step', -700), ('step', 900), ('wait', 50)]
    scripts = []
    for n in range(1, depth + 1):
        for s_ in itertools.product(alpha, repeat=n):
            if s_[0] != ('enable',) or not any(a[0] == 'fire' for a in s_):
                continue
            scripts.append(s_)
    modes = ('none', 'enable', 'refresh')
    ctx.rule('C20.R17', 'A10 the life of a one-shot alarm under two clocks by abstract replay: %d scripts of up to %d steps (enable, disable, refresh, the timer firing on time or 5 ms early on '
             'the wall clock, the wall clock stepped back 700 s or forth 900 s, waiting; the callback does nothing, enables the alarm again, or calls refresh()) run on the syntax trees of '
             'Alarm::enable / disable / refresh / activeTimer and OneshotAlarm::onTimeExpired for a OneshotAlarm set to 00:00: one callback per successful enable(), run with '
             'the timer not armed again; afterwards the alarm stays stopped unless the callback enabled it; enable() from the callback arms it for the earliest matching '
             'instant after the current time — after the instant that has just fired when that fired a moment early, so the instant is not served twice — with a wait of at least the '
             'wall-clock distance; a disabled alarm never fires and running <=> armed after every step' % (len(modes) * len(scripts), depth), floor=1)
    if not any(g.name == A + '::activeTimer' for g in prog.funcs.values()) or not any(g.name == O + '::onTimeExpired' for g in prog.funcs.values()):
        from tbxlint.facts import extract
        prog = extract(['alarm/alarm.cpp', 'alarm/oneshot_alarm.cpp', 'alarm/weekly_alarm.cpp'])
    bad = None
    for mode in modes:
        for s_ in scripts:
            why = run_script(prog, s_, mode)
            if why is not None:
                bad = (s_, mode, why)
                break
        if bad:
            break
    f = prog.fn1(O + '::onTimeExpired')
    ctx.ob('C20.R17', 'OneshotAlarm|life', bad is None, '%d runs' % (len(modes) * len(scripts)) if bad is None else
           'script %s%s: %s' % (' '.join('%s%s' % (a[0], '(%s)' % a[1] if len(a) > 1 else '') for a in bad[0]),
                                {'none': '', 'enable': ', the callback enables the alarm again', 'refresh': ', the callback calls refresh()'}[bad[1]], bad[2]), where=f.loc(f.body))
