"""C09 — the producer side of a log call replayed over message lengths (C09.R12).  Imported by rules/C09.py.

"Text longer than the configured maximum is cut to exactly that maximum and marked as truncated", "for every message length (0 up to beyond the maximum, around the
2 KiB stack-buffer boundary)": LogPrintfFunc formats into a stack buffer that it re-sizes in a loop.  tbxlint/minterp.py interprets its syntax tree; vsnprintf is an
event that writes min(L, size - 1) text markers and a terminator into the buffer it is given and returns L (its C contract), strlen counts markers, Dispatch records
the record it is handed.  The grid is (message length L) x (configured maximum M) x (formatted or plain).  Nothing of the repository is compiled or run."""
from tbxlint.facts import AnalysisBroken
from tbxlint import minterp
from tbxlint.minterp import P


def one(prog, f, L, M, with_args, fmt_null=False):
    got = []
    mem = {'fmt': [('t', i) for i in range(L)] + [0], 'names': [65, 0]}
    calls = {'vsnprintf': 0}

    def h_vsnprintf(it, g, st, a):
        buf, size = a[0], a[1]
        calls['vsnprintf'] += 1
        if calls['vsnprintf'] > 8:
            it.fault(g, st, 'the formatting loop has called vsnprintf 8 times without dispatching the record: it does not terminate')
            raise minterp._Abort()
        if not isinstance(size, int):
            raise AnalysisBroken('LogPrintfFunc: vsnprintf with a size the replay keeps abstract')
        n = min(L, size - 1) if size > 0 else 0
        sp = it.span(g, st, buf, n + (1 if size > 0 else 0), 'vsnprintf into a buffer declared with %s byte(s), told %d' % (len(it.mem.get(buf.r, ())) if isinstance(buf, P) else '?', size))
        if sp is not None:
            sp[0][sp[1]:sp[1] + n] = [('t', i) for i in range(n)]
            if size > 0:
                sp[0][sp[1] + n] = 0
        return L

    def h_strlen(it, g, st, a):
        p = a[0]
        reg = it.mem[p.r]
        n = 0
        while reg[p.o + n] != 0:
            n += 1
        return n

    def h_dispatch(it, g, st, a):
        rec = it.record_of(a[0])
        if rec is None:
            raise AnalysisBroken('LogPrintfFunc: Dispatch() is not handed the record')
        tl, tp = rec.get('text_len'), rec.get('text_ptr')
        cells = None
        if isinstance(tp, P) and isinstance(tl, int):
            sp = it.span(g, st, tp, tl, 'the text the record points at')
            cells = list(sp[0][sp[1]:sp[1] + tl]) if sp is not None else None
        got.append((tl, bool(rec.get('text_trunc')), tp, cells))
    noop = lambda it, g, st, a: 0
    hooks = {'vsnprintf': h_vsnprintf, 'strlen': h_strlen, 'Dispatch': h_dispatch, 'CantDispatch': noop, 'gettimeofday': noop, 'syscall': lambda it, g, st, a: 4242,
             'Basename': lambda it, g, st, a: a[0], 'LogGetMaxLength': lambda it, g, st, a: M, 'min': lambda it, g, st, a: min(a[0], a[1]), 'max': lambda it, g, st, a: max(a[0], a[1]),
             '__builtin_va_start': noop, '__builtin_va_end': noop}
    it = minterp.Interp(prog, mem, hooks=hooks, inline=('*',))
    args = [P('names', 0), P('names', 0), P('names', 0), 10, 3, int(with_args), 0 if fmt_null else P('fmt', 0)]
    it.call(f, args)
    return got, it.faults


def r12(ctx, prog):
    ctx.rule('C09.R12', 'A10 truncation by abstract replay: LogPrintfFunc is interpreted for every message length L in {0, 1, M-1, M, M+1, 2046..2050, 2*M, 5000} and configured maximum M in '
             '{1, 7, 100, 2047, 2048, 2049, 3000}, formatted (vsnprintf as an event honouring its C contract) and plain: exactly one record is dispatched, its text is the first min(L, M) '
             'characters of the message, text_len = min(L, M), it is marked truncated exactly when L > M, and no formatting call is told a size larger than the buffer it is given', floor=1)
    fs = [g for g in prog.funcs.values() if g.short == 'LogPrintfFunc' and g.body is not None]
    if len(fs) != 1:
        raise AnalysisBroken('LogPrintfFunc not found')
    f = fs[0]
    bad = None
    runs = 0
    for M in (1, 7, 100, 2047, 2048, 2049, 3000):
        for L in sorted({0, 1, max(M - 1, 0), M, M + 1, 2046, 2047, 2048, 2049, 2050, 2 * M, 5000}):
            for with_args in (1, 0):
                runs += 1
                got, faults = one(prog, f, L, M, with_args)
                want_len, want_trunc = min(L, M), L > M
                why = None
                if faults:
                    why = faults[0]
                elif len(got) != 1:
                    why = '%d records are dispatched' % len(got)
                else:
                    tl, tr, tp, cells = got[0]
                    if tl != want_len:
                        why = 'the record has text_len %s where %d is due' % (tl, want_len)
                    elif tr != want_trunc:
                        why = 'the record is %smarked truncated' % ('' if tr else 'not ')
                    elif cells != [('t', i) for i in range(want_len)]:
                        why = 'the text of the record is not the first %d characters of the message' % want_len
                if why and bad is None:
                    bad = (L, M, with_args, why)
    got, faults = one(prog, f, 0, 100, 1, fmt_null=True)
    if bad is None and (faults or len(got) != 1 or got[0][0] != 0):
        bad = (0, 100, 1, 'a call without a format string does not dispatch exactly one empty record')
    ctx.ob('C09.R12', '%s|truncation' % f.name, bad is None, '%d replays: one record, text = first min(L, M) characters, truncation mark iff L > M' % runs if bad is None else
           'a %s message of %d character(s) with the maximum set to %d: %s' % ('formatted' if bad[2] else 'plain', bad[0], bad[1], bad[3]), where=f.loc(f.body))


# ---- the asynchronous back end: frames out of an arbitrarily segmented stream ------------------------------------------------------------

ASINK = 'tbox::log::AsyncSink'


def backend(prog, f, H, frames, chunks):
    """frames: [text_len]; chunks: list of (start, end) over the stream.  Returns (delivered, unflushed at the end, left in buffer, faults)"""
    stream = []
    for j, tl in enumerate(frames):
        stream += [('hdr', {'text_len': tl, 'line': j, 'level': 3, 'text_trunc': 0})] + [('pad', j)] * (H - 1) + [('x', j, i) for i in range(tl)]
    delivered = []
    state = {'unflushed': 0, 'flushes': 0}

    def h_memcpy(it, g, st, a):
        rec = it.record_of(a[0])
        if rec is not None and rec.get('__cls__') == 'LogContent':
            sp = it.span(g, st, a[1], a[2], 'memcpy of a record header')
            if sp is None:
                return a[0]
            c0 = sp[0][sp[1]] if a[2] > 0 else None
            if a[2] != H or not (isinstance(c0, tuple) and c0[0] == 'hdr'):
                it.fault(g, st, 'a record header is read at a position of the stream that is not the start of a frame')
                raise minterp._Abort()
            for k_, v in c0[1].items():
                rec[k_] = v
            rec['__hdr__'] = c0[1]['line']
            return a[0]
        return minterp.h_memcpy(it, g, st, a)

    def h_backend(it, g, st, a):
        rec = it.record_of(a[0])
        tl, tp = rec.get('text_len'), rec.get('text_ptr')
        cells = None
        if isinstance(tl, int) and tl == 0:
            cells = []
        elif isinstance(tp, P) and isinstance(tl, int):
            sp = it.span(g, st, tp, tl, 'the text of the record handed to the formatter')
            cells = list(sp[0][sp[1]:sp[1] + tl]) if sp is not None else None
        delivered.append((rec.get('__hdr__'), tl, cells))
        state['unflushed'] += 1

    def h_flush(it, g, st, a):
        state['unflushed'] = 0
        state['flushes'] += 1
    zero = lambda it, g, st, a: 0
    it = minterp.Interp(prog, {'stream': stream}, hooks={'memcpy': h_memcpy, 'memmove': minterp.h_memcpy, 'onLogBackEnd': h_backend, 'flush': h_flush, 'now': zero, 'operator-': zero, 'operator>': zero,
                                                        'operator<<': zero, 'count': zero}, inline=('*',))
    this = it.new_record(ASINK)
    it._keep.append(this)
    for a, b in chunks:
        it.call(f, [P('stream', a), b - a], this=this)
        if it.faults:
            break
    buf = [v for k_, v in this.items() if isinstance(v, dict) and v.get('__cls__', '').endswith('util::Buffer')]
    left = None
    if len(buf) == 1:
        left = buf[0].get('write_index_', 0) - buf[0].get('read_index_', 0) if isinstance(buf[0].get('write_index_'), int) else None
    return delivered, state, left, it.faults


def r13(ctx, prog):
    ctx.rule('C09.R13', 'A10 the asynchronous back end by abstract replay: streams of one to three records (text lengths 0, 1, 5) are fed to AsyncSink::onLogBackEndReadPipe in every '
             'segmentation into two chunks and in every three-chunk segmentation around the frame boundaries; the receive buffer is the interpreted util::Buffer.  Each record is handed '
             'to the formatter exactly once, in order, with its own header and exactly its own text; a header is only ever read at the start of a frame; whatever was handed over in a pipe '
             'read has been flushed when that read returns; nothing is left in the buffer after the last chunk', floor=1)
    if not any(g.name == 'tbox::util::Buffer::append' for g in prog.funcs.values()):
        from tbxlint.facts import extract
        from rules import C09
        prog = extract(C09.scope_units() + ['util/buffer.cpp'])
    f = prog.fn1(ASINK + '::onLogBackEndReadPipe')
    sz = [st.get('cv') for st in f.stmts if st and st['k'] == 'UnaryExprOrTypeTraitExpr' and st.get('cv')]
    if not sz:
        raise AnalysisBroken('onLogBackEndReadPipe: sizeof(LogContent) not found')
    H = max(sz)
    bad = None
    runs = 0
    for frames in ([0], [1], [5], [0, 1], [5, 0], [1, 5], [5, 1, 0], [0, 0, 5]):
        n = sum(H + t for t in frames)
        marks = {0, n}
        pos = 0
        for t in frames:
            for d in (-1, 0, 1):
                marks.update({pos + d, pos + H + d, pos + H + t + d})
            pos += H + t
        marks = sorted(m for m in marks if 0 <= m <= n)
        plans = [[(0, n)]] + [[(0, c), (c, n)] for c in range(0, n + 1)] + [[(0, c1), (c1, c2), (c2, n)] for c1 in marks for c2 in marks if c1 <= c2]
        for chunks in plans:
            runs += 1
            delivered, state, left, faults = backend(prog, f, H, frames, chunks)
            want = [(j, t, [('x', j, i) for i in range(t)]) for j, t in enumerate(frames)]
            why = None
            if faults:
                why = faults[0]
            elif delivered != want:
                if len(delivered) != len(want):
                    why = '%d record(s) reach the formatter where %d were written' % (len(delivered), len(want))
                else:
                    k = next(i for i in range(len(want)) if delivered[i] != want[i])
                    why = 'record %d reaches the formatter as (record %s, %s character(s), %s)' % (k, delivered[k][0], delivered[k][1], 'its own text' if delivered[k][2] == want[k][2] else 'other bytes than its text')
            elif state['unflushed']:
                why = '%d record(s) handed to the formatter are not flushed when the pipe read returns' % state['unflushed']
            elif left not in (0, None):
                why = '%s byte(s) stay in the receive buffer after the last chunk' % left
            if why and bad is None:
                bad = (frames, chunks, why)
    ctx.ob('C09.R13', '%s|frames' % f.name, bad is None, '%d replays: every record once, in order, with its own text, flushed' % runs if bad is None else
           'records with text lengths %s delivered in chunks %s: %s' % (bad[0], [b - a for a, b in bad[1]], bad[2]), where=f.loc(f.body))
