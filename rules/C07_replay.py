"""C07 — the byte buffer replayed against a reference queue over short histories (C07.R8).  Imported by rules/C07.py.

tbxlint/minterp.py interprets the syntax trees of util::Buffer (constructors, append, the reserve-write-commit triple, fetch, hasRead, hasReadAll, shrink, copy,
move, swap, reset, assignment) on a record built from the default member initialisers; new[]/delete[] are heap regions (an access after delete[], a second
delete[] or an access outside a block is a fault), memcpy/memmove move cells, and every byte appended is a marker of its own.  A history is a sequence of
operations with sizes from a small grid; after each operation the readable window is compared cell by cell with a reference queue.  Histories are explored up to
equal abstract states (capacity, read offset, write offset, storage present).  Nothing of the repository is compiled or run."""
import copy
from tbxlint.facts import AnalysisBroken
from tbxlint import minterp
from tbxlint.minterp import P

B = 'tbox::util::Buffer'
HOOKS = {'memcpy': minterp.h_memcpy, 'memmove': minterp.h_memcpy, 'memset': minterp.h_memset}
SIZES = (0, 1, 2, 3, 4, 5, 8, 9)


class World:
    """one interpreter (one heap) per history step; the buffer record and the heap regions it points into are deep-copied together"""
    def __init__(self, prog):
        self.prog = prog
        self.it = minterp.Interp(prog, {}, hooks=dict(HOOKS), inline=('*',))
        self.fn = {}
        for g in prog.methods_of(B):
            self.fn.setdefault(g.short, []).append(g)
        self.serial = 0

    def method(self, name, nparams=None, ptype=None):
        c = [g for g in self.fn.get(name, ()) if (nparams is None or len(g.params) == nparams) and (ptype is None or (g.params and ptype in (g.params[0].get('t') or '')))]
        if len(c) != 1:
            raise AnalysisBroken('Buffer::%s: expected one overload%s, found %d' % (name, ' taking ' + ptype if ptype else '', len(c)))
        return c[0]

    def new_buffer(self, cap):
        rec = self.it.new_record(B)
        self.it._keep.append(rec)
        ctor = [g for g in self.fn.get('Buffer', ()) if g.d.get('ctor') and len(g.params) == 1 and 'size_t' in (g.params[0].get('t') or '')]
        if len(ctor) != 1:
            raise AnalysisBroken('Buffer(size_t) not found')
        self.it.call(ctor[0], [cap], this=rec)
        return rec

    def call(self, rec, name, args, **kw):
        return self.it.call(self.method(name, **kw), args, this=rec)

    def fresh(self, n):
        self.serial += 1
        name = 'src#%d' % self.serial
        cells = [('b', self.serial, i) for i in range(n)]
        self.it.mem[name] = list(cells)
        return P(name, 0), cells

    def window(self, rec):
        """(cells of the readable window, problem or None) read through the accessors"""
        n = self.call(rec, 'readableSize', [])
        p = self.call(rec, 'readableBegin', [])
        if not isinstance(n, int):
            return None, 'readableSize() is not a number'
        if n == 0:
            return [], None
        if not isinstance(p, P) or p.r not in self.it.mem:
            return None, 'readableBegin() is null with %d readable byte(s)' % n
        if p.r in self.it.freed:
            return None, 'the readable window lies in storage that was deleted'
        reg = self.it.mem[p.r]
        if p.o < 0 or p.o + n > len(reg):
            return None, 'the readable window [%d, %d) leaves the %d-byte block' % (p.o, p.o + n, len(reg))
        return reg[p.o:p.o + n], None


def state_key(w, rec, extra=()):
    v = {k_: rec[k_] for k_ in rec if k_ != '__cls__'}
    out = []
    for k_ in sorted(v):
        x = v[k_]
        out.append((k_, ('ptr', x.o, len(w.it.mem.get(x.r, ())), x.r in w.it.freed) if isinstance(x, P) else x))
    return tuple(out) + tuple(extra)


def check(w, rec, model, what):
    if w.it.faults:
        return w.it.faults[0]
    cells, bad = w.window(rec)
    if w.it.faults:
        return w.it.faults[0]
    if bad:
        return bad
    if cells != model:
        if len(cells) != len(model):
            return 'readableSize() is %d where %d byte(s) were written and not yet consumed' % (len(cells), len(model))
        i = next(j for j in range(len(model)) if cells[j] != model[j])
        return 'readable byte %d is %s where the queue holds %s' % (i, describe(cells[i]), describe(model[i]))
    return None


def describe(c):
    if isinstance(c, tuple) and c[0] == 'b':
        return 'byte %d of write #%d' % (c[2], c[1])
    return 'uninitialised storage' if c == 'uninit' else str(c)


def ops_for(model):
    out = [('append', k) for k in SIZES] + [('reserve-commit', k) for k in (1, 2, 5, 9)] + [('fetch', k) for k in (0, 1, 2, 5, 99)] + [('hasRead', k) for k in (0, 1, 2, 5, 99)]
    out += [('hasReadAll',), ('shrink',), ('copy',), ('move',), ('swap',), ('reset',), ('assign',), ('self-assign',), ('move-assign',)]
    return out


def apply(w, rec, model, op):
    """returns (rec', model', problem)"""
    it = w.it
    name = op[0]
    if name == 'append':
        src, cells = w.fresh(op[1])
        r = w.call(rec, 'append', [src, op[1]])
        if not it.faults and r != op[1]:
            return rec, model, 'append(%d) returns %s' % (op[1], r)
        return rec, model + cells, None
    if name == 'reserve-commit':
        k = op[1]
        ok = w.call(rec, 'ensureWritableSize', [k])
        if it.faults:
            return rec, model, None
        if not ok:
            return rec, model, 'ensureWritableSize(%d) refuses' % k
        room = w.call(rec, 'writableSize', [])
        p = w.call(rec, 'writableBegin', [])
        if not isinstance(room, int) or room < k:
            return rec, model, 'ensureWritableSize(%d) succeeded but writableSize() is %s' % (k, room)
        _, cells = w.fresh(k)
        sp = it.span(it.prog.fn1(B + '::ensureWritableSize'), it.prog.fn1(B + '::ensureWritableSize').stmts[0], p, k, 'the caller\'s write of %d byte(s) at writableBegin()' % k)
        if sp is None:
            return rec, model, None
        sp[0][sp[1]:sp[1] + k] = cells
        w.call(rec, 'hasWritten', [k])
        return rec, model + cells, None
    if name == 'fetch':
        k = op[1]
        it.serial = getattr(it, 'serial', 0) + 1
        out = 'out#%d' % it.serial
        it.mem[out] = ['uninit'] * max(k, 1)
        r = w.call(rec, 'fetch', [P(out, 0), k])
        if it.faults:
            return rec, model, None
        want = min(k, len(model))
        if r != want:
            return rec, model, 'fetch(%d) returns %s with %d byte(s) readable' % (k, r, len(model))
        if it.mem[out][:want] != model[:want]:
            return rec, model, 'fetch(%d) delivers other bytes than the first %d written and not yet consumed' % (k, want)
        return rec, model[want:], None
    if name == 'hasRead':
        w.call(rec, 'hasRead', [op[1]])
        return rec, model[min(op[1], len(model)):], None
    if name == 'hasReadAll':
        w.call(rec, 'hasReadAll', [])
        return rec, [], None
    if name == 'shrink':
        w.call(rec, 'shrink', [])
        return rec, model, None
    if name == 'reset':
        w.call(rec, 'reset', [])
        return rec, [], None
    ctors = [g for g in w.fn.get('Buffer', ()) if g.d.get('ctor')]
    if name in ('copy', 'move'):
        want = '&&' if name == 'move' else 'const'
        cc = [g for g in ctors if len(g.params) == 1 and B in (g.params[0].get('t') or '') and (('&&' in g.params[0]['t']) == (name == 'move'))]
        if len(cc) != 1:
            raise AnalysisBroken('Buffer %s constructor not found' % name)
        other = it.new_record(B)
        it._keep.append(other)
        it.call(cc[0], [it.ref(rec)], this=other)
        if it.faults:
            return rec, model, None
        if name == 'copy':
            # the copy holds the same bytes and is independent: writing to the original must not show in it
            bad = check(w, other, model, 'copy')
            if bad:
                return rec, model, 'the copy: ' + bad
            src, cells = w.fresh(3)
            w.call(rec, 'append', [src, 3])
            bad = check(w, other, model, 'copy') if not it.faults else None
            if bad:
                return rec, model + cells, 'after writing to the original, the copy: ' + bad
            return rec, model + cells, None
        # move: the new object carries the queue on, the moved-from one is empty and reusable
        bad = check(w, rec, [], 'moved-from')
        if bad:
            return other, model, 'the moved-from buffer: ' + bad
        return other, model, None
    if name == 'swap':
        other = w.new_buffer(4)
        src, cells = w.fresh(2)
        w.call(other, 'append', [src, 2])
        w.call(rec, 'swap', [it.ref(other)])
        if it.faults:
            return rec, model, None
        bad = check(w, other, model, 'swap')
        if bad:
            return rec, cells, 'the other buffer after swap(): ' + bad
        return rec, cells, None
    if name in ('assign', 'self-assign', 'move-assign'):
        asg = [g for g in w.fn.get('operator=', ()) if len(g.params) == 1 and (('&&' in g.params[0]['t']) == (name == 'move-assign'))]
        if len(asg) != 1:
            raise AnalysisBroken('Buffer::operator= overload not found')
        if name == 'self-assign':
            it.call(asg[0], [it.ref(rec)], this=rec)
            return rec, model, None
        other = w.new_buffer(2)
        src, cells = w.fresh(3)
        w.call(other, 'append', [src, 3])
        it.call(asg[0], [it.ref(other)], this=rec)
        if it.faults:
            return rec, model, None
        if name == 'assign':
            bad = check(w, other, cells, 'source')
            if bad:
                return rec, cells, 'the source of the assignment: ' + bad
        return rec, cells, None
    raise AnalysisBroken('unknown operation %s' % name)


def walk(prog, depth):
    seen = {}
    count = [0]

    def run_from(cap):
        w = World(prog)
        rec = w.new_buffer(cap)
        bad = check(w, rec, [], 'construction')
        if bad:
            return [('Buffer', cap)], bad
        return rec_tree(w, rec, [], [('Buffer', cap)])

    def rec_tree(w, rec, model, hist):
        if len(hist) - 1 == depth:
            count[0] += 1
            return None
        key = state_key(w, rec, (len(model),))
        left = depth - (len(hist) - 1)
        if seen.get(key, -1) >= left:
            return None
        seen[key] = left
        for op in ops_for(model):
            pair = copy.deepcopy((w.it.mem, w.it.freed, w.it._keep, rec, w.serial, w.it.heap))
            w2 = World.__new__(World)
            w2.prog, w2.fn, w2.serial = w.prog, w.fn, pair[4]
            w2.it = minterp.Interp(prog, pair[0], hooks=dict(HOOKS), inline=('*',))
            w2.it.freed, w2.it._keep, w2.it.heap = pair[1], pair[2], pair[5]
            # 'rec@id' region names are keyed by object identity: re-register the copied records under their new identity
            remap = {}
            for name in list(w2.it.mem):
                if name.startswith('rec@') and isinstance(w2.it.mem[name], dict):
                    d_ = w2.it.mem.pop(name)
                    remap[name] = 'rec@%d' % id(d_)
                    w2.it.mem[remap[name]] = d_
            if remap:
                for reg in w2.it.mem.values():
                    for d_ in ([reg] if isinstance(reg, dict) else []):
                        for k_, v in d_.items():
                            if isinstance(v, P) and v.r in remap:
                                d_[k_] = P(remap[v.r], v.o)
            r3, m3, bad = apply(w2, pair[3], list(model), op)
            if bad is None:
                bad = check(w2, r3, m3, op)
            if bad is not None:
                return hist + [op], bad
            out = rec_tree(w2, r3, m3, hist + [op])
            if out:
                return out
        return None
    for cap in (0, 1, 4, 8):
        out = run_from(cap)
        if out:
            return count[0], out
    return count[0], None


def fmt(hist):
    return ', '.join('%s(%s)' % (o[0], ', '.join(str(x) for x in o[1:])) for o in hist)


def r8(ctx, prog):
    depth = 6 if ctx.tier == 'thorough' else 4
    ctx.rule('C07.R8', 'A10 the buffer replayed against a reference queue: every history of up to %d operations after Buffer(0|1|4|8) — append, reserve-write-commit, fetch, hasRead (sizes '
             '0..9 and 99), hasReadAll, shrink, copy (with a write to the original afterwards), move, swap, reset, assignment, self-assignment, move assignment — explored up to equal '
             'abstract states, is interpreted on the syntax trees of util::Buffer with every written byte a marker of its own: after each operation the readable window holds exactly the '
             'bytes written and not yet consumed, in order; fetch() delivers exactly the first of them; copies are independent and moved-from buffers empty; no access leaves a block or '
             'touches deleted storage and nothing is deleted twice' % depth, floor=1)
    n, bad = walk(prog, depth)
    f = prog.fn1(B + '::append')
    if bad is None and n < 50:
        raise AnalysisBroken('only %d histories replayed' % n)
    ctx.ob('C07.R8', 'Buffer|histories', bad is None, '%d complete histories of %d operations agree with the reference queue' % (n, depth) if bad is None else
           'after %s: %s' % (fmt(bad[0]), bad[1]), where=f.loc(f.body))
