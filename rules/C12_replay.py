"""C12 — the HTTP receive path replayed over every segmentation of short request streams (C12.R14).  Imported by rules/C12.py.

tbxlint/minterp.py interprets the syntax trees of Server::Impl::onTcpReceived (the loop that feeds the parser from the connection's receive buffer), RequestParser::parse /
getRequest, util::string::Strip and util::Buffer, with std::string values as concrete text.  The table look-ups for methods and versions, the URL parser, the TCP server
and the dispatch of a finished request are events (hooks).  Streams of one to three pipelined requests (with and without bodies, a body that contains a blank line, a
zero-length body, padded header values, "Connection: close" last) are delivered in every two-chunk segmentation and in every three-chunk segmentation around the line
and message boundaries; the requests dispatched must be the requests written, in order, once each, with their headers and bodies, whatever the segmentation.  Malformed
streams must end in a disconnect, not in a request."""
from tbxlint.facts import AnalysisBroken
from tbxlint import minterp
from tbxlint.minterp import P, S, NPOS

H = 'tbox::http::'
IMPL = H + 'server::Server::Impl'
METHODS = {'GET': 1, 'HEAD': 2, 'PUT': 3, 'POST': 4, 'DELETE': 5, 'OPTIONS': 6, 'TRACE': 7, 'CONNECT': 8}
VERS = {'HTTP/1.0': 1, 'HTTP/1.1': 2, 'HTTP/2.0': 3}


class Bench:
    def __init__(self, prog):
        self.prog = prog
        self.requests = []
        self.disconnected = 0
        hooks = dict(minterp.VECTOR_HOOKS)
        noop = lambda it, f, st, a: None
        hooks.update({
            'StringToMethod': lambda it, f, st, a: METHODS.get(it.to_text(a[0]), 0),
            'StringToHttpVer': lambda it, f, st, a: VERS.get(it.to_text(a[0]), 0),
            'StringToUrlPath': self.h_url, 'getContext': lambda it, f, st, a: it.ref(self.conn), 'getClientAddress': noop, 'toString': noop,
            'disconnect': self.h_disconnect, 'make_shared': self.h_ctx, 'handle': self.h_handle, 'c_str': None, 'isdigit': lambda it, f, st, a: int(isinstance(a[0], int) and 48 <= a[0] <= 57),
            'ToLower': lambda it, f, st, a: S((it.to_text(a[0]) or '').lower()), 'ToUpper': lambda it, f, st, a: S((it.to_text(a[0]) or '').upper()),      # util::string helpers written with std::transform: modelled
            'strtoull': self.h_strtoull, '__errno_location': lambda it, f, st, a: P('errno', 0), 'memcpy': minterp.h_memcpy, 'memmove': minterp.h_memcpy,
        })
        del hooks['c_str']
        self.it = minterp.Interp(prog, {'str:empty': [0], 'errno': [0]}, hooks=hooks, inline=('*',), max_steps=3000000)
        self.it.string_mode = True
        self.it.globals['std::basic_string<char>::npos'] = NPOS
        it = self.it
        self.impl = {'__cls__': IMPL, '__open__': True, 'context_log_enable_': 0, 'tcp_server_': {'__cls__': None, '__open__': True}, 'conns_': {'__map__': True}, 'wp_parent_': 0}
        self.conn = it.new_record(IMPL + '::Connection')
        for k_ in ('req_index', 'res_index'):
            self.conn[k_] = 0
        self.conn['close_index'] = (1 << 31) - 1
        it._keep += [self.impl, self.conn]
        self.buff = it.new_record('tbox::util::Buffer')
        it._keep.append(self.buff)
        self.serial = 0

    def h_url(self, it, f, st, a):
        rec = it.record_of(a[1])
        if rec is not None:
            rec['__text__'] = it.to_text(a[0])
        t = it.to_text(a[0])
        return int(bool(t) and t.startswith('/'))

    def h_disconnect(self, it, f, st, a):
        self.disconnected += 1
        return 1

    def h_ctx(self, it, f, st, a):
        return ('ctx', a[-1])

    def h_handle(self, it, f, st, a):
        req = it.record_of(a[0][1]) if isinstance(a[0], tuple) else None
        if req is None:
            raise AnalysisBroken('handle() is not given the request')
        hs = {str(k_): str(v) for k_, v in req['headers'].items() if k_ != '__map__'}
        url = req['url'].get('__text__') if isinstance(req['url'], dict) else None
        self.requests.append((req['method'], url, req['http_ver'], tuple(sorted(hs.items())), str(req['body'])))

    def h_strtoull(self, it, f, st, a):
        t = it.to_text(a[0]) or ''
        i = 0
        while i < len(t) and t[i] in ' \t':
            i += 1
        j = i
        if j < len(t) and t[j] in '+-':
            j += 1
        k = j
        while k < len(t) and t[k].isdigit():
            k += 1
        val = int(t[j:k]) if k > j else 0
        end = k if k > j else 0
        if isinstance(a[1], P):
            it.store(f, st, a[1], P(a[0].r, a[0].o + end))
        if val > (1 << 64) - 1:
            it.mem['errno'][0] = 34
            val = (1 << 64) - 1
        if t[i:j] == '-' and k > j:
            val = (-val) & ((1 << 64) - 1)
        return val

    def feed(self, data):
        it = self.it
        self.serial += 1
        name = 'chunk#%d' % self.serial
        it.mem[name] = [ord(c) for c in data]
        app = it.find_method('tbox::util::Buffer', 'append', 2)
        it.call(app, [P(name, 0), len(data)], this=self.buff)
        if it.faults:
            return
        if self.disconnected:
            return          # the connection object is gone
        f = self.prog.fn1(IMPL + '::onTcpReceived')
        ct = {'__cls__': None, '__open__': True}
        it._keep.append(ct)
        it.call(f, [it.ref(ct), it.ref(self.buff)], this=self.impl)


def req(method, url, ver='HTTP/1.1', headers=(), body=''):
    # every request declares its body length: that is the class of streams the property promises segmentation independence for (without a declared length the
    # parser takes "whatever has arrived" as the body)
    hs = list(headers)
    hs.append(('Content-Length', str(len(body))))
    text = '%s %s %s\r\n' % (method, url, ver) + ''.join('%s: %s\r\n' % h for h in hs) + '\r\n' + (body or '')
    want = (METHODS[method], url, VERS[ver], tuple(sorted((k, v.strip()) for k, v in hs)), body or '')
    return text, want


def streams():
    a = req('GET', '/a')
    b = req('POST', '/b', headers=[('Host', 'x')], body='hello')
    c = req('POST', '/c', headers=[('A', 'b'), ('C', 'd e')])
    d = req('PUT', '/d', headers=[('X-Pad', '  v  ')], body='1\r\n\r\n2')
    e = req('GET', '/e', ver='HTTP/1.0', headers=[('Accept', '*/*'), ('K', 'v')])
    z = req('GET', '/z', headers=[('Connection', 'close')])
    return [[a], [b], [c], [d], [e], [a, b], [b, a], [c, d], [d, c, a], [a, e, b], [b, z], [a, a, z]]


def run_stream(prog, reqs, cuts):
    text = ''.join(t for t, _ in reqs)
    b = Bench(prog)
    prev = 0
    for cpos in list(cuts) + [len(text)]:
        if cpos > prev:
            b.feed(text[prev:cpos])
        prev = cpos
        if b.it.faults:
            break
    return b


def r14(ctx, prog):
    ctx.rule('C12.R14', 'A10 the receive path by abstract replay: streams of one to three pipelined requests (bodies, an empty body, a body containing a blank line, padded header values, '
             'HTTP/1.0, "Connection: close" last) are delivered to Server::Impl::onTcpReceived — the interpreted loop over the interpreted util::Buffer and RequestParser — in every '
             'two-chunk segmentation and every three-chunk segmentation around line and message boundaries; the requests dispatched are the requests written, in order, once each, with '
             'method, target, version, headers and body intact, and nothing stays in the receive buffer; malformed streams end in a disconnect and dispatch nothing after the bad line', floor=1)
    need = ['tbox::util::Buffer::append', IMPL + '::onTcpReceived', 'tbox::util::string::Strip', H + 'server::RequestParser::parse']
    if not all(any(g.name == n_ for g in prog.funcs.values()) for n_ in need):
        from tbxlint.facts import extract
        prog = extract('ALL')
    bad = None
    runs = 0
    for reqs in streams():
        text = ''.join(t for t, _ in reqs)
        n = len(text)
        marks = {0, n}
        pos = 0
        for t, _ in reqs:
            for i, ch in enumerate(t):
                if ch == '\n':
                    for d_ in (-2, -1, 0, 1):
                        marks.add(pos + i + 1 + d_)
            pos += len(t)
            marks.update({pos - 1, pos, pos + 1})
        marks = sorted(m for m in marks if 0 <= m <= n)
        plans = [()] + [(c,) for c in range(1, n)] + ([(c1, c2) for c1 in marks for c2 in marks if 0 < c1 < c2 < n] if ctx.tier == 'thorough' or len(reqs) == 1 else [])
        want = []
        for _, w_ in reqs:
            want.append(w_)
            if w_[2] == VERS['HTTP/1.0'] or any(k_.lower() == 'connection' and v_.lower() == 'close' for k_, v_ in w_[3]):
                break           # a request that closes the connection is the last one served: what follows it on the wire is discarded
        for cuts in plans:
            runs += 1
            b = run_stream(prog, reqs, cuts)
            why = None
            if b.it.faults:
                why = b.it.faults[0]
            elif b.disconnected:
                why = 'the connection is dropped as malformed'
            elif b.requests != want:
                if len(b.requests) != len(want):
                    why = '%d request(s) are dispatched where %d were written' % (len(b.requests), len(want))
                else:
                    k = next(i for i in range(len(want)) if b.requests[i] != want[i])
                    why = 'request %d is dispatched as %s where %s was written' % (k + 1, b.requests[k], want[k])
            else:
                left = b.buff.get('write_index_', 0) - b.buff.get('read_index_', 0)
                if left:
                    why = '%d byte(s) stay in the receive buffer' % left
            if why and bad is None:
                bad = ('%d request(s) %s delivered in chunks %s' % (len(reqs), [w[1] for w in want], [y - x for x, y in zip((0,) + tuple(cuts), tuple(cuts) + (n,))]), why)
    for name, text, ok_before in (('an unknown method', 'BREW /pot HTTP/1.1\r\n\r\n', 0), ('a request line without a version', 'GET /x\r\n\r\n', 0),
                                  ('a Content-Length that is not a number', 'POST /x HTTP/1.1\r\nContent-Length: 1x\r\n\r\nab', 0),
                                  ('a header line without a colon', 'GET /x HTTP/1.1\r\nnocolon\r\n\r\n', 0),
                                  ('a good request followed by a bad one', req('GET', '/a')[0] + 'BREW /pot HTTP/1.1\r\n\r\n', 1)):
        for cuts in [()] + [(c,) for c in range(1, len(text))]:
            runs += 1
            b = Bench(prog)
            prev = 0
            for cpos in list(cuts) + [len(text)]:
                b.feed(text[prev:cpos])
                prev = cpos
            why = None
            if b.it.faults:
                why = b.it.faults[0]
            elif not b.disconnected:
                why = 'the stream is not refused'
            elif len(b.requests) != ok_before:
                why = '%d request(s) are dispatched where %d precede the bad line' % (len(b.requests), ok_before)
            if why and bad is None:
                bad = ('%s, delivered in chunks %s' % (name, [y - x for x, y in zip((0,) + tuple(cuts), tuple(cuts) + (len(text),))]), why)
    f = prog.fn1(H + 'server::RequestParser::parse')
    ctx.ob('C12.R14', 'http|segmentations', bad is None, '%d replays: the requests written are the requests dispatched, whatever the segmentation' % runs if bad is None else
           '%s: %s' % bad, where=f.loc(f.body))
