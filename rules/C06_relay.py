"""C06 — the TCP wrappers relay, they do not filter (C06.R12/R13).  Imported by rules/C06.py.

TcpConnection is a BufferedFd behind a pointer that becomes null on disconnect, TcpServer/TcpClient are connections behind a token/pointer: bytes handed to
send() reach the peer, received bytes reach the user's callback and a close is reported once *only if* every wrapper passes the call, its arguments and its
result on.  Each hand-over is one statement (the statement-deletion sweep removed them one by one without any rule noticing).  The rules are must-call /
data-dependence facts on the typed syntax tree: on every path on which the wrapped object exists, the wrapper calls the wrapped operation with its own
parameters in order and — where there is a result — returns it."""
from tbxlint.facts import AnalysisBroken
from tbxlint import q

N = 'tbox::network::'
TC = N + 'TcpConnection'

# wrapper method -> (wrapped field suffix, wrapped method)
FORWARD = {
    'enable': 'enable', 'send': 'send', 'setReceiveCallback': 'setReceiveCallback', 'setSendCompleteCallback': 'setSendCompleteCallback',
    'bind': 'bind', 'unbind': 'unbind', 'getReceiveBuffer': 'getReceiveBuffer', 'disconnect': 'disable',
}


def _null_edge(f, blk, k, is_subject):
    """is successor k of blk the edge on which the subject (a pointer or a std::function) is null / empty?"""
    if blk.cond is None or len(blk.succ) != 2:
        return False
    cs = f.s(f.strip_casts(blk.cond))
    neg = False
    while cs is not None and cs['k'] == 'UnaryOperator' and cs.get('op') == '!':
        neg = not neg
        cs = f.s(f.strip_casts(cs['ch'][0]))
    if cs is None:
        return False

    def subj(x):
        x = f.s(f.strip_casts(x)) if not isinstance(x, dict) else x
        if x is None:
            return False
        if x['k'] in q.CALL_KINDS and x.get('fn') == 'operator bool' and 'obj' in x:
            return is_subject(f.strip_casts(x['obj']))
        return is_subject(x['i'])

    def isnull(x):
        x = f.s(f.strip_casts(x))
        return x is not None and (x['k'] in ('CXXNullPtrLiteralExpr', 'GNUNullExpr') or x.get('cv') == 0)
    if subj(cs):
        null_on = 0 if neg else 1           # `if (p)`: null on the false edge
        return k == null_on
    if cs['k'] == 'BinaryOperator' and cs.get('op') in ('==', '!='):
        l, r = cs['ch']
        if (subj(l) and isnull(r)) or (subj(r) and isnull(l)):
            null_true = (cs['op'] == '==') != neg
            return k == (0 if null_true else 1)
    if cs['k'] == 'CXXOperatorCallExpr' and cs.get('op') in ('==', '!=') and len(cs.get('args', [])) + (1 if 'obj' in cs else 0) == 2:
        ops = ([cs['obj']] if 'obj' in cs else []) + list(cs.get('args', []))
        if (subj(ops[0]) and isnull(ops[1])) or (subj(ops[1]) and isnull(ops[0])):
            null_true = (cs['op'] == '==') != neg
            return k == (0 if null_true else 1)
    return False


def _null_edges(f, is_subject):
    """edge filter that forbids the edges on which the subject is null"""
    def flt(bb, kk):
        return not _null_edge(f, f.cfg.blocks[bb], kk, is_subject)
    return flt


def _param_passthrough(f, call):
    """the call's arguments are the wrapper's own parameters, in order (a std::move / cast around one is fine)"""
    ps = [p_['d'] for p_ in f.params]
    args = call.get('args', [])
    if len(args) != len(ps):
        return False
    for a, d in zip(args, ps):
        refs = [f.stmts[x] for x in f.walk(a) if f.stmts[x]['k'] == 'DeclRefExpr' and f.stmts[x].get('dk') == 'ParmVar']
        if len(refs) != 1 or refs[0].get('d') != d:
            return False
    return True


def r12(ctx, prog):
    ctx.rule('C06.R12', 'A4 the connection forwards: every TcpConnection operation of the stream (enable, send, setReceiveCallback, setSendCompleteCallback, bind, unbind, '
             'getReceiveBuffer; disconnect -> disable) reaches the same operation of its BufferedFd on every path on which the descriptor still exists, with its own parameters '
             'in order, and returns what that returned; the constructor initialises the descriptor with the socket it was given and enables it; TcpServer::send reaches the '
             'connection the token names', floor=9)
    def subj(g):
        return lambda sid: (g.field_of(sid) or '').endswith('sp_buffered_fd_')
    for m, wm in FORWARD.items():
        for f in prog.fn(TC + '::' + m):
            calls = [c for c in f.calls() if c.get('fn') == wm and 'obj' in c and (f.field_of(c['obj']) or '').endswith('sp_buffered_fd_')]
            ok = bool(calls) and not f.cfg.exists_path(f.cfg.entry_point(), 'exit', avoid=q.pts(f, calls), edge_filter=_null_edges(f, subj(f)))
            why = '%s() can finish with the descriptor present and without calling its %s()' % (m, wm)
            if ok and wm != 'disable':
                ok = all(_param_passthrough(f, c) for c in calls)
                why = '%s() does not pass its own parameters on, in order' % m
            if ok and f.d.get('rt', f.d.get('ret', '')) not in ('void', '') and m in ('send', 'getReceiveBuffer'):
                rets = [r for r in q.returns(f) if r.get('val') is not None]
                carried = [r for r in rets if q.carries(f, r['val'], [c['i'] for c in calls])]
                ok = bool(carried)
                why = '%s() does not return what the descriptor\'s %s() returned' % (m, wm)
            ctx.ob('C06.R12', '%s|forwards-to-%s' % (f.name, wm), ok, 'reaches sp_buffered_fd_->%s() whenever the descriptor exists' % wm if ok else
                   why + ': what the user hands to the connection never reaches the buffered descriptor (bytes not sent, callback never installed, events never armed)', where=f.loc(f.body))
    ctor = [g for g in prog.methods_of(TC) if g.d.get('ctor')]
    if not ctor:
        raise AnalysisBroken('TcpConnection constructor not found')
    for g in ctor:
        ini = [c for c in g.calls() if c.get('fn') == 'initialize' and 'obj' in c and (g.field_of(c['obj']) or '').endswith('sp_buffered_fd_')]
        en = [c for c in g.calls() if c.get('fn') == 'enable' and 'obj' in c and (g.field_of(c['obj']) or '').endswith('sp_buffered_fd_')]
        fdp = [p_['d'] for p_ in g.params if 'SocketFd' in (p_.get('t') or '') or 'Fd' in (p_.get('ct') or '')]
        ok = bool(ini) and bool(en) and bool(fdp) and all(any(g.stmts[x]['k'] == 'DeclRefExpr' and g.stmts[x].get('d') in fdp for x in g.walk(c['args'][0])) for c in ini if c.get('args')) and \
            all(g.cfg.exists_path(q.pt(g, i), q.pt(g, e)) for i in ini for e in en) and not g.cfg.exists_path(g.cfg.entry_point(), 'exit', avoid=q.pts(g, en))
        ctx.ob('C06.R12', '%s|starts-descriptor' % g.name, ok, 'the buffered descriptor is initialised with the socket given and then enabled' if ok else
               'the constructor does not initialise the buffered descriptor with the socket it was given and enable it on every path: the connection never reads', where=g.loc(g.body))
    sv = prog.fn1(N + 'TcpServer::send')
    calls = [c for c in sv.calls() if c.get('fn') == 'send' and c.get('cls', '').endswith('TcpConnection')]
    ats = [c for c in sv.calls() if c.get('fn') in ('at', 'operator[]') and c.get('args') and (sv.s(sv.strip_casts(c['args'][0])) or {}).get('d') == sv.params[0]['d']]
    ok = bool(calls) and bool(ats) and all(len(c.get('args', [])) == 2 and [(sv.s(sv.strip_casts(a)) or {}).get('d') for a in c['args']] == [p_['d'] for p_ in sv.params[1:]] for c in calls) and \
        any(q.carries(sv, r['val'], [c['i'] for c in calls]) for r in q.returns(sv) if r.get('val') is not None)
    ctx.ob('C06.R12', '%s|forwards-to-connection' % sv.name, ok, 'looks the connection up under the token and returns its send(data, size)' if ok else
           'TcpServer::send does not hand (data, size) to the connection the token names and return its result', where=sv.loc(sv.body))


def r13(ctx, prog):
    ctx.rule('C06.R13', 'A4 notifications are relayed once: TcpConnection::onSocketClosed invokes the disconnected callback exactly once on every path on which one is set; TcpServer wires '
             'each new connection\'s receive / disconnected / send-complete callback to its own handler bound to that connection\'s token, and each handler invokes the user\'s '
             'callback (when set) with that token (and the buffer) — once', floor=5)
    f = prog.fn1(TC + '::onSocketClosed')
    inv = [i for i in q.invokes(f) if 'obj' in i and (f.field_of(i['obj']) or '').endswith('disconnected_cb_')]
    subj = lambda sid: (f.field_of(sid) or '').endswith('disconnected_cb_')
    once = bool(inv) and not any(f.cfg.exists_path(q.pt(f, a), q.pt(f, b)) for a in inv for b in inv)
    ok = once and not f.cfg.exists_path(f.cfg.entry_point(), 'exit', avoid=q.pts(f, inv), edge_filter=_null_edges(f, subj))
    ctx.ob('C06.R13', '%s|reports-close' % f.name, ok, 'the disconnected callback is invoked exactly once whenever it is set' if ok else
           'onSocketClosed() can finish without invoking a disconnected callback that is set (or invokes it more than once): the peer\'s close is not reported exactly once', where=f.loc(f.body))
    S = N + 'TcpServer'
    oc = prog.fn1(S + '::onTcpConnected')
    tok = [d['d'] for st in oc.stmts if st and st['k'] == 'DeclStmt' for d in st['decls'] if 'init' in d and any(c.get('fn') == 'alloc' for c in q.subtree_calls(oc, d['init']))]
    WIRES = {'setReceiveCallback': ('onTcpReceived', 'receive_cb'), 'setDisconnectedCallback': ('onTcpDisconnected', 'disconnected_cb'), 'setSendCompleteCallback': ('onTcpSendCompleted', 'send_complete_cb')}
    for setter, (handler, usercb) in WIRES.items():
        cs = [c for c in oc.calls() if c.get('fn') == setter and 'obj' in c and (oc.s(oc.strip_casts(c['obj'])) or {}).get('d') == oc.params[0]['d']]
        ok = bool(cs) and bool(tok) and not oc.cfg.exists_path(oc.cfg.entry_point(), 'exit', avoid=q.pts(oc, cs))
        if ok:
            for c in cs:
                refs = [oc.stmts[x] for a in c.get('args', []) for x in oc.walk(a) if oc.stmts[x]['k'] == 'DeclRefExpr']
                ok = ok and any(r.get('dk') == 'CXXMethod' and r.get('n') == handler for r in refs) and any(r.get('d') in tok for r in refs)
        ctx.ob('C06.R13', '%s|wires-%s' % (oc.name, handler), ok, '%s(bind(%s, this, token...)) on every path' % (setter, handler) if ok else
               'a new connection does not get %s bound to TcpServer::%s with its own token: the user\'s %s is never told about this connection\'s %s' %
               (setter, handler, usercb, {'onTcpReceived': 'data', 'onTcpDisconnected': 'close', 'onTcpSendCompleted': 'completed sends'}[handler]), where=oc.loc(oc.body))
        h = prog.fn1(S + '::' + handler)
        inv = [i for i in q.invokes(h) if 'obj' in i and (h.field_of(i['obj']) or h.path(i['obj'])).endswith(usercb)]
        subj = lambda sid, h=h: (h.field_of(sid) or h.path(sid) or '').endswith(usercb)
        okh = bool(inv) and not any(h.cfg.exists_path(q.pt(h, a), q.pt(h, b)) for a in inv for b in inv) and \
            not h.cfg.exists_path(h.cfg.entry_point(), 'exit', avoid=q.pts(h, inv), edge_filter=_null_edges(h, subj)) and \
            all([(h.s(h.strip_casts(a)) or {}).get('d') for a in i.get('args', [])] == [p_['d'] for p_ in h.params] for i in inv)
        ctx.ob('C06.R13', '%s|relays' % h.name, okh, 'invokes the user\'s %s once, with its own arguments, whenever it is set' % usercb if okh else
               '%s() does not invoke the user\'s %s exactly once with (%s) on every path on which it is set' % (handler, usercb, ', '.join(p_['n'] for p_ in h.params)), where=h.loc(h.body))


def r14(ctx, prog):
    ctx.rule('C06.R14', 'A4 the client remembers and replays: TcpClient\'s setReceiveCallback / setSendCompleteCallback / bind forward to the live connection when there is one *and* store '
             'their parameters; onTcpConnected() installs the stored callbacks, threshold and receiver on the new connection, binds its close to onTcpDisconnected and adopts it on every '
             'path; send / getReceiveBuffer forward to the live connection and return its answer; onTcpDisconnected() reports the close exactly once when a callback is set', floor=8)
    C = N + 'TcpClient'

    def subj(g):
        return lambda sid: (g.field_of(sid) or g.path(sid) or '').endswith('sp_connection')
    REMEMBER = {'setReceiveCallback': ('setReceiveCallback', ['received_cb', 'received_threshold']), 'setSendCompleteCallback': ('setSendCompleteCallback', ['send_complete_cb']),
                'bind': ('bind', ['wp_receiver'])}
    for m, (wm, fields) in REMEMBER.items():
        f = prog.fn1(C + '::' + m)
        calls = [c for c in f.calls() if c.get('fn') == wm and 'obj' in c and subj(f)(f.strip_casts(c['obj']))]
        fwd = bool(calls) and all(_param_passthrough(f, c) for c in calls) and not f.cfg.exists_path(f.cfg.entry_point(), 'exit', avoid=q.pts(f, calls), edge_filter=_null_edges(f, subj(f)))
        stored = []
        for p_, fld in zip(f.params, fields):
            ws = [(a, rhs) for a, rhs in q.assigns(f, fld) if rhs is not None and (f.s(f.strip_casts(rhs)) or {}).get('d') == p_['d']]
            stored.append(bool(ws) and not f.cfg.exists_path(f.cfg.entry_point(), 'exit', avoid=[q.pt(f, a) for a, _ in ws]))
        ok = fwd and all(stored) and len(stored) == len(fields)
        ctx.ob('C06.R14', '%s|forwards-and-remembers' % f.name, ok, 'forwards to the live connection and stores %s on every path' % ', '.join(fields) if ok else
               '%s() does not both forward its parameters to the live connection and store them (%s) on every path: %s' %
               (m, ', '.join(fields), 'the connection in use keeps the old setting' if not fwd else 'the next connection (after a reconnect) starts without it'), where=f.loc(f.body))
    for m in ('send', 'getReceiveBuffer'):
        f = prog.fn1(C + '::' + m)
        calls = [c for c in f.calls() if c.get('fn') == m and 'obj' in c and subj(f)(f.strip_casts(c['obj']))]
        ok = bool(calls) and all(_param_passthrough(f, c) for c in calls) and \
            not f.cfg.exists_path(f.cfg.entry_point(), 'exit', avoid=q.pts(f, calls), edge_filter=_null_edges(f, subj(f))) and \
            any(q.carries(f, r['val'], [c['i'] for c in calls]) for r in q.returns(f) if r.get('val') is not None)
        ctx.ob('C06.R14', '%s|forwards' % f.name, ok, 'reaches the live connection\'s %s() and returns its answer' % m if ok else
               'TcpClient::%s does not hand its parameters to the live connection and return what that returned' % m, where=f.loc(f.body))
    oc = prog.fn1(C + '::onTcpConnected')
    nc = oc.params[0]['d']
    INSTALL = {'setReceiveCallback': ['received_cb', 'received_threshold'], 'setSendCompleteCallback': ['send_complete_cb'], 'bind': ['wp_receiver']}
    for setter, fields in INSTALL.items():
        cs = [c for c in oc.calls() if c.get('fn') == setter and 'obj' in c and (oc.s(oc.strip_casts(c['obj'])) or {}).get('d') == nc]
        argok = bool(cs) and all(len(c.get('args', [])) == len(fields) and all((oc.field_of(a) or oc.path(a) or '').endswith(fl) for a, fl in zip(c['args'], fields)) for c in cs)
        flt = _null_edges(oc, lambda sid: (oc.field_of(sid) or oc.path(sid) or '').endswith('wp_receiver')) if setter == 'bind' else None
        cover = bool(cs) and not oc.cfg.exists_path(oc.cfg.entry_point(), 'exit', avoid=q.pts(oc, cs), edge_filter=flt)
        ctx.ob('C06.R14', '%s|installs-%s' % (oc.name, fields[0]), argok and cover, 'the new connection gets %s(%s)' % (setter, ', '.join(fields)) if argok and cover else
               'a new connection is not given the stored %s through %s() on every path: after a (re)connect the user\'s setting is gone' % (', '.join(fields), setter), where=oc.loc(oc.body))
    dcs = [c for c in oc.calls() if c.get('fn') == 'setDisconnectedCallback' and 'obj' in c and (oc.s(oc.strip_casts(c['obj'])) or {}).get('d') == nc]
    okd = bool(dcs) and not oc.cfg.exists_path(oc.cfg.entry_point(), 'exit', avoid=q.pts(oc, dcs)) and \
        all(any(oc.stmts[x]['k'] == 'DeclRefExpr' and oc.stmts[x].get('dk') == 'CXXMethod' and oc.stmts[x].get('n') == 'onTcpDisconnected' for a in c.get('args', []) for x in oc.walk(a)) for c in dcs)
    adopt = [a for a, rhs in q.assigns(oc, 'sp_connection') if rhs is not None and (oc.s(oc.strip_casts(rhs)) or {}).get('d') == nc]
    oka = bool(adopt) and not oc.cfg.exists_path(oc.cfg.entry_point(), 'exit', avoid=q.pts(oc, adopt))
    ctx.ob('C06.R14', '%s|binds-close-and-adopts' % oc.name, okd and oka, 'close bound to onTcpDisconnected; the connection becomes sp_connection' if okd and oka else
           'onTcpConnected() does not bind the new connection\'s close to onTcpDisconnected and adopt it as sp_connection on every path', where=oc.loc(oc.body))
    od = prog.fn1(C + '::onTcpDisconnected')
    inv = [i for i in q.invokes(od) if 'obj' in i and (od.field_of(i['obj']) or od.path(i['obj']) or '').endswith('disconnected_cb')]
    sj = lambda sid: (od.field_of(sid) or od.path(sid) or '').endswith('disconnected_cb')
    ok = bool(inv) and not any(od.cfg.exists_path(q.pt(od, a), q.pt(od, b)) for a in inv for b in inv) and \
        not od.cfg.exists_path(od.cfg.entry_point(), 'exit', avoid=q.pts(od, inv), edge_filter=_null_edges(od, sj))
    ctx.ob('C06.R14', '%s|reports-close' % od.name, ok, 'the user\'s disconnected callback is invoked exactly once whenever it is set' if ok else
           'onTcpDisconnected() does not invoke a disconnected callback that is set exactly once', where=od.loc(od.body))
