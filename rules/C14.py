"""C14 — JSON-RPC framing and request completion (DESIGN §4 C14)."""
import glob
from tbxlint.facts import extract, AnalysisBroken, MODULES
from tbxlint import harden, tmon, locks, q, exc, rd, reent
from rules import C14_wiring

NS = 'tbox::jsonrpc::'
PROTOS = ['HeaderStreamProto', 'RawStreamProto', 'PacketProto']
RPC = NS + 'Rpc'


def scope_units():
    us = []
    for pat in ('jsonrpc/*.cpp', 'jsonrpc/protos/*.cpp'):
        for p in sorted(glob.glob(MODULES + '/' + pat)):
            if not p.endswith('_test.cpp'):
                us.append(p[len(MODULES) + 1:])
    return us + ['util/json.cpp', 'util/serializer.cpp']


def prove_json_typed_get(f, st, label):
    """json::get<T>() dominated by the matching is_*() test on the same value"""
    if not label.startswith('json::get') and not label.startswith('json::operator'):
        return None
    if 'obj' not in st:
        return None
    xp = f.path(st['obj'])
    p = f.cfg.point_of(st['i'])
    for cond, k, b in f.cfg.controlling_branches(p):
        for c in q.subtree_calls(f, cond):
            if c.get('fn', '').startswith('is_') and 'obj' in c and f.path(c['obj']) == xp and q.stable(f, xp, f.cfg.point_of(cond), p, content=True):
                return 'value type tested by %s() on a dominating branch' % c['fn']
    return None


def r1(ctx, prog):
    ctx.rule('C14.R1', 'A8: framing and dispatch never throw: Json::parse only inside CatchThrow, json at()/get() only under a '
                       'contains()/is_*() test, no other uncaught may-throw call on the receive path', floor=1)
    entries = [prog.fn1(NS + p + '::onRecvData') for p in PROTOS] + [prog.fn1(NS + 'Proto::onRecvJson')]
    entries += [prog.fn1(RPC + '::' + n) for n in ('onRecvRequest', 'onRecvRespond', 'onRequestTimeout', 'onRespondTimeout')]
    eng = exc.ExcEngine(prog, follow=lambda g: g.file.startswith(MODULES + '/jsonrpc/') or g.file.startswith(MODULES + '/util/'))
    prove = exc.chain_provers(exc.prove_string_pos, rd.prove_string_pos_rd, exc.prove_index_guard, exc.prove_find_guard, prove_json_typed_get)
    findings = eng.scan(entries, prove)
    for fn, where, label, why in eng.proofs:
        ctx.ob('C14.R1', '%s|%s@%s' % (fn, label, where.split(':')[-1]), True, '%s: %s' % (label, why), where=where)
    seen = set()
    for fd in findings:
        f, st = fd['func'], fd['stmt']
        key = '%s|%s|%s' % (f.name, fd['label'], fd['path'])
        if key in seen:
            continue
        seen.add(key)
        ctx.ob('C14.R1', key, False, '%s may throw %s, not caught on the chain %s' % (fd['label'], '/'.join(fd['types']), ' -> '.join(fd['chain'][-4:])), where=f.loc(st['i']))
    # every Json::parse on the receive path sits in a CatchThrow lambda (checked explicitly: floor on the count)
    n = sum(1 for fn, where, label, why in eng.proofs if label == 'json::parse')
    if n < 3:
        raise AnalysisBroken('expected the three framings\' Json::parse calls to be seen and covered, saw %d' % n)
    ctx.stats['may_throw_sites'] = eng.sites
    ctx.ob('C14.R1', NS + 'Proto|scanned', True, '%d functions reachable from the framing/dispatch entries, %d may-throw sites' % (eng.functions, eng.sites))
    if eng.functions < 15:
        raise AnalysisBroken('receive-path call graph too small (%d functions)' % eng.functions)


def wire_locals(f):
    """locals filled from the wire: operands of Deserializer operator>> / fetch(x)"""
    out = {}
    for st in f.stmts:
        if not st or st['k'] not in q.CALL_KINDS:
            continue
        is_des = st.get('cls', '') == 'tbox::util::Deserializer' and st.get('fn') in ('fetch', 'fetchPOD')
        if st.get('op') == '>>' and st.get('args') and 'Deserializer' in (f.s(st['args'][0]).get('ct') or f.s(st['args'][0]).get('t') or ''):
            is_des = True
        if is_des:
            for a in st.get('args', []):
                x = f.s(f.strip_casts(a))
                if x and x['k'] == 'DeclRefExpr' and x.get('dk') == 'Var' and 'Deserializer' not in (x.get('t') or ''):
                    out[x['d']] = x
    return out


def r2(ctx, prog):
    ctx.rule('C14.R2', 'A9b: a length taken from the wire is never added in <=32-bit arithmetic before being compared with a size', floor=1)
    f = prog.fn1(NS + 'HeaderStreamProto::onRecvData')
    wl = wire_locals(f)
    if not wl:
        raise AnalysisBroken('HeaderStreamProto::onRecvData: no wire-extracted locals found')
    n = 0
    narrow = ('unsigned int', 'int', 'uint32_t', 'unsigned short', 'short', 'uint16_t', 'int32_t')
    for st in f.stmts:
        if st and st['k'] == 'BinaryOperator' and st.get('op') in ('<', '>', '<=', '>=', '==', '!='):
            # a comparison involving a wire local and a size
            ds = {f.stmts[x].get('d') for x in f.walk(st['i']) if f.stmts[x]['k'] == 'DeclRefExpr'}
            if not (ds & set(wl)):
                continue
            if not any(f.stmts[x]['k'] == 'DeclRefExpr' and 'size' in (f.stmts[x].get('n') or '') for x in f.walk(st['i'])):
                continue
            n += 1
            bad = []
            for x in f.walk(st['i']):
                sx = f.stmts[x]
                if sx['k'] == 'BinaryOperator' and sx.get('op') in ('+', '*', '<<') and (sx.get('ct') or sx.get('t')) in narrow:
                    if {f.stmts[y].get('d') for y in f.walk(x) if f.stmts[y]['k'] == 'DeclRefExpr'} & set(wl):
                        bad.append(sx)
            ctx.ob('C14.R2', '%s|length-test' % f.name, not bad,
                   'length comparison computed without narrow addition' if not bad else
                   'wire length is added in %s arithmetic (%s) before the comparison with the buffer size: wraps at 2^32 and the frame is accepted as complete'
                   % (bad[0].get('t'), f.loc(bad[0]['i'])), where=f.loc(st['i']))
    if n == 0:
        raise AnalysisBroken('HeaderStreamProto::onRecvData: no comparison of the wire length with the data size found')


def null_guarded(f, p, decl):
    for cond, k, b in f.cfg.controlling_branches(p):
        cs = f.s(f.strip_casts(cond))
        neg = False
        while cs and cs['k'] == 'UnaryOperator' and cs.get('op') == '!':
            neg = not neg
            cs = f.s(f.strip_casts(cs['ch'][0]))
        if cs and cs['k'] == 'DeclRefExpr' and cs.get('d') == decl:
            if (k == 0 and not neg) or (k == 1 and neg):
                return True
        if cs and cs['k'] == 'BinaryOperator' and cs.get('op') in ('==', '!='):
            l, r = f.s(f.strip_casts(cs['ch'][0])), f.s(f.strip_casts(cs['ch'][1]))
            isv = lambda x: x and x['k'] == 'DeclRefExpr' and x.get('d') == decl
            isn = lambda x: x and (x['k'] in ('CXXNullPtrLiteralExpr', 'GNUNullExpr') or x.get('cv') == 0)
            if (isv(l) and isn(r)) or (isv(r) and isn(l)):
                eq = cs['op'] == '=='
                if neg:
                    eq = not eq
                if (eq and k == 1) or (not eq and k == 0):
                    return True
    return False


WIDTH = {'unsigned char': 1, 'unsigned short': 2, 'unsigned int': 4, 'unsigned long': 8, 'char': 1, 'short': 2, 'int': 4, 'long': 8}


def size_proof(f, d, decl_stmt):
    """the fetchNoCopy(n) feeding local d is dominated by a guard  n > size - H  /  n + H > size (wide)  whose true edge leaves,
    with H = the number of bytes extracted from the same Deserializer before"""
    call = None
    for x in f.walk(d['init']):
        if f.stmts[x]['k'] in q.CALL_KINDS and f.stmts[x].get('fn') == 'fetchNoCopy':
            call = f.stmts[x]
    if call is None:
        return False
    n = f.s(f.strip_casts(call['args'][0]))
    if not (n and n['k'] == 'DeclRefExpr'):
        return False
    wl = wire_locals(f)
    if n['d'] not in wl:
        return False
    p = q.pt(f, call)
    consumed = 0
    for dd, x in wl.items():
        consumed += WIDTH.get((x.get('ct') or x.get('t') or '').replace('uint16_t', 'unsigned short').replace('uint32_t', 'unsigned int'), 0)
    for cond, k, b in f.cfg.controlling_branches(p):
        cs = f.s(f.strip_casts(cond))
        if not cs or cs['k'] != 'BinaryOperator' or cs.get('op') not in ('>', '<', '>=', '<='):
            continue
        ids = list(f.walk(cond))
        if not any(f.stmts[y].get('d') == n['d'] for y in ids if f.stmts[y]['k'] == 'DeclRefExpr'):
            continue
        if not any(f.stmts[y]['k'] == 'DeclRefExpr' and 'size' in (f.stmts[y].get('n') or '') for y in ids):
            continue
        narrow = ('unsigned int', 'int', 'unsigned short', 'short')
        if any(f.stmts[y]['k'] == 'BinaryOperator' and f.stmts[y].get('op') in ('+', '-', '*') and (f.stmts[y].get('ct') or f.stmts[y].get('t')) in narrow for y in ids):
            continue
        hs = [f.stmts[y].get('cv') for y in ids if f.stmts[y].get('cv') is not None and f.stmts[y]['k'] in ('ImplicitCastExpr', 'DeclRefExpr', 'IntegerLiteral')]
        # "n > size - H" true edge returns  <=>  we are on the false edge
        if cs['op'] in ('>', '>=') and k == 1 and consumed in hs:
            return True
    return False


def r3(ctx, prog):
    ctx.rule('C14.R3', 'A9d: the pointer returned by Deserializer::fetchNoCopy is tested for null before it is used', floor=1)
    n = 0
    for f in prog.funcs.values():
        if not f.file.startswith(MODULES + '/jsonrpc/'):
            continue
        for st in f.stmts:
            if st and st['k'] == 'DeclStmt':
                for d in st['decls']:
                    if 'init' in d and any(f.stmts[x]['k'] in q.CALL_KINDS and f.stmts[x].get('fn') == 'fetchNoCopy' for x in f.walk(d['init'])):
                        n += 1
                        uses = [u for u in f.stmts if u and u['k'] == 'DeclRefExpr' and u.get('d') == d['d']]
                        bad = []
                        for u in uses:
                            up = f.cfg.point_of(u['i'])
                            par, _ = f.up(u['i'])
                            ps = f.s(par)
                            # the test itself is not a use
                            if ps and ps['k'] in ('BinaryOperator', 'UnaryOperator', 'IfStmt') and ps.get('op') in ('==', '!=', '!', None):
                                continue
                            if up is not None and not null_guarded(f, up, d['d']):
                                bad.append(u)
                        why = 'every use of %s is under a null test' % d['n']
                        if bad and size_proof(f, d, st):
                            bad = []
                            why = ('fetchNoCopy(n) cannot fail here: n is compared with the data size minus the header size on a dominating branch '
                                   '(no narrow addition) and the header size constant equals the bytes read before')
                        ctx.ob('C14.R3', '%s|%s' % (f.name, d['n']), not bad, why if not bad else
                               'pointer %s from fetchNoCopy() is used at %s without a null test (fetchNoCopy returns nullptr when the data is short)' % (d['n'], f.loc(bad[0]['i'])),
                               where=f.loc(st['i']))
    if n == 0:
        raise AnalysisBroken('no fetchNoCopy() result variable found in the jsonrpc module')


def r4(ctx, prog):
    ctx.rule('C14.R4', 'A4: resumable framing: "need more data" returns 0 before any message is dispatched; a positive return is only reached '
                       'after the message was dispatched; negative returns only on the mismatch / parse-failure branches', floor=9)
    for pn in PROTOS:
        f = prog.fn1(NS + pn + '::onRecvData')
        disp = [st for st in f.calls() if st.get('fn') == 'onRecvJson']
        if len(disp) != 1:
            raise AnalysisBroken('%s::onRecvData: expected one onRecvJson dispatch, found %d' % (pn, len(disp)))
        dp = q.pt(f, disp[0])
        for r in q.returns(f):
            rp = q.pt(f, r)
            c = q.return_const(f, r)
            if c == 0:
                ok = not f.cfg.exists_path(dp, rp)
                ctx.ob('C14.R4', '%s|return0' % f.name, ok, '"not enough" return is not reachable after a dispatch', where=f.loc(r['i']))
            elif c is not None and c < 0:
                ok = not f.cfg.exists_path(dp, rp)
                ctx.ob('C14.R4', '%s|return-neg' % f.name, ok, 'error return %d precedes any dispatch' % c, where=f.loc(r['i']))
            else:
                ok = f.cfg.dominates(dp, rp)
                v = f.path(r['val'])
                ctx.ob('C14.R4', '%s|return-consumed' % f.name, ok and v in ('unpack.pos()', 'str_len', 'data_size'),
                       'consumed-size return (%s) is dominated by the dispatch' % v, where=f.loc(r['i']))
    f = prog.fn1(NS + 'HeaderStreamProto::onRecvData')
    fn = [st for st in f.calls() if st.get('fn') == 'fetchNoCopy']
    wl = wire_locals(f)
    ok = len(fn) == 1 and f.s(f.strip_casts(fn[0]['args'][0])).get('d') in wl
    ctx.ob('C14.R4', '%s|one-fetch' % f.name, ok, 'exactly one fetchNoCopy(content_size) between the header and the returned position', where=f.loc(f.body))


def r13(ctx, prog):
    ctx.rule('C14.R13', 'A5 framing state: what onRecvData decides depends on the bytes it is given; if a framing keeps a data member between calls, that member is brought back '
             'to its initial value on every exit that consumes bytes or reports an error (the caller then drops or shifts its buffer, which the kept state knows nothing about)', floor=3)
    for pn in PROTOS:
        f = prog.fn1(NS + pn + '::onRecvData')
        cls = NS + pn
        kept = {}
        for st in f.stmts:
            if st and st['k'] == 'MemberExpr' and st.get('mk') == 'field' and st.get('q', '').startswith(cls + '::') and locks.classify_access(f, st['i']) == 'w':
                kept.setdefault(st['q'], []).append(st)
        if not kept:
            ctx.ob('C14.R13', '%s|stateless' % f.name, True, 'keeps no data member between calls', where=f.loc(f.body))
            continue
        for fq, ws in sorted(kept.items()):
            short = fq.split('::')[-1]
            resets = [a for a, rhs in q.assigns(f, short) if (f.s(f.strip_casts(rhs)) or {}).get('cv') == 0]
            bad = []
            for r in q.returns(f):
                v = q.return_const(f, r)
                if v == 0:
                    continue
                # every path to this exit passes a reset after the last other write
                others = [q.pt(f, w) for w in ws if not any(w['i'] in set(f.walk(a['i'])) for a in resets)]
                rp = q.pt(f, r)
                if f.cfg.exists_path(f.cfg.entry_point(), rp, avoid=q.pts(f, resets)) or any(o is not None and f.cfg.exists_path(o, rp, avoid=q.pts(f, resets)) for o in others):
                    bad.append(f.loc(r['i']))
            ctx.ob('C14.R13', '%s|%s-reset-on-consume-or-error' % (f.name, short), not bad,
                   '%s is reset on every exit that consumes bytes or reports an error' % short if not bad else
                   '%s survives the exit(s) at %s: after an error or a consumed message the caller changes its buffer, and the next call decides from state that describes '
                   'the old one (valid messages are then not decoded)' % (short, ', '.join(bad[:3])), where=f.loc(ws[0]['i']))


def r5_r6(ctx, prog):
    ctx.rule('C14.R5', 'A4+A12: complete-then-erase: the completion callback is looked up by id, invoked only when found, and the entry is '
                       'erased on every path of the found branch — identically for response and timeout; request() registers callback and timeout together', floor=5)
    ctx.rule('C14.R6', 'A7: no iterator/reference into request_callback_ (an unordered_map, rehashed by request()) is used after the user callback ran', floor=2)
    shapes = []
    for n in ('onRecvRespond', 'onRequestTimeout'):
        f = prog.fn1(RPC + '::' + n)
        finds = [st for st in f.calls() if st.get('fn') == 'find' and q.obj_field_is(f, st, 'Rpc::request_callback_')]
        erases = [st for st in f.calls() if st.get('fn') == 'erase' and q.obj_field_is(f, st, 'Rpc::request_callback_')]
        invs = [st for st in q.invokes(f)]
        ctx.ob('C14.R5', '%s|lookup' % f.name, len(finds) == 1 and f.path(finds[0]['args'][0]) == 'id', 'callback looked up by the id of the event', where=f.loc(f.body))
        if not finds:
            continue
        for i in invs:
            ip = q.pt(f, i)
            g = f.cfg.controlling_branches(ip)
            found = any(any(c.get('fn') == 'end' for c in q.subtree_calls(f, cond)) for cond, k, b in g)
            ctx.ob('C14.R5', '%s|invoke-if-found' % f.name, found, 'invoke is guarded by find() != end()', where=f.loc(i['i']))
            ok = q.must_follow(f, ip, q.pts(f, erases)) or any(f.cfg.dominates(q.pt(f, e), ip) for e in erases)
            ctx.ob('C14.R5', '%s|erase-on-complete' % f.name, ok, 'the entry is erased on every path that invokes the callback', where=f.loc(i['i']))
            ctx.ob('C14.R5', '%s|once' % f.name, not f.cfg.exists_path(ip, ip), 'the invoke is not in a loop', where=f.loc(i['i']))
        shapes.append((len(finds), len(erases), len(invs)))
        # R6
        hv = reent.handle_vars(f, ['Rpc::request_callback_'])
        stale = []
        for d, fq, cls, kind, dst in hv:
            if cls.startswith(reent.INVALIDATED_BY_INSERT):
                stale += reent.stale_handle_uses(f, d['d'], dst)
        ctx.ob('C14.R6', '%s|iterator-across-callback' % f.name, not stale,
               'no handle into request_callback_ is used after the user callback' if not stale else
               'iterator into request_callback_ is used at %s after the user callback at %s ran; the callback may call request(), whose insert can rehash the unordered_map'
               % (f.loc(stale[0][1]['i']), f.loc(stale[0][0]['i'])), where=f.loc(f.body))
    ctx.ob('C14.R5', RPC + '|siblings-agree', len(set(shapes)) == 1, 'response and timeout handlers have the same shape %s' % shapes)
    rq = [f for f in prog.fn(RPC + '::request') if any(st.get('fn') == 'add' for st in f.calls())]
    if len(rq) != 1:
        raise AnalysisBroken('Rpc::request: registering overload not found')
    f = rq[0]
    reg = [st for st in f.stmts if st and st['k'] == 'CXXOperatorCallExpr' and st.get('op') == '[]' and q.obj_field_is(f, st, 'Rpc::request_callback_')]
    add = [st for st in f.calls() if st.get('fn') == 'add' and q.obj_field_is(f, st, 'Rpc::request_timeout_')]
    ok = bool(reg and add) and f.cfg.controlling_branches(q.pt(f, reg[0])) == f.cfg.controlling_branches(q.pt(f, add[0]))
    ctx.ob('C14.R5', '%s|register-both' % f.name, ok, 'callback and timeout are registered under the same condition', where=f.loc(f.body))
    ids = q.writes(f, 'Rpc::id_alloc_')
    ok = bool(ids) and all(f.cfg.dominates(q.pt(f, i), q.pt(f, reg[0])) for i in ids) if reg else False
    ctx.ob('C14.R5', '%s|fresh-id' % f.name, ok, 'a fresh id is allocated before registration', where=f.loc(f.body))


def r17(ctx, prog):
    ctx.rule('C14.R17', 'A4 request ids only grow: over the whole life of an Rpc object — cleanup() and a new initialize() included — the only write to the id counter is the '
             'increment that draws a new id; a reset makes new requests reuse the ids of requests that are still unanswered, and a late response to an old one completes a new one', floor=1)
    ws = []
    for g in prog.methods_of(RPC):
        for st in g.stmts:
            if st and st['k'] in ('UnaryOperator', 'BinaryOperator', 'CompoundAssignOperator') and (st.get('op') in ('++', '--', '=') or st.get('op', '').endswith('=') and st['op'] not in ('==', '!=', '<=', '>=')):
                if (g.field_of(st['ch'][0]) or '').endswith('::id_alloc_'):
                    ws.append((g, st))
    if not ws:
        raise AnalysisBroken('Rpc: no write of id_alloc_ found')
    bad = [(g, st) for g, st in ws if not (st['k'] == 'UnaryOperator' and st.get('op') == '++')]
    ctx.ob('C14.R17', 'Rpc|id-counter', not bad, 'id_alloc_ is only ever incremented (%d site(s))' % len(ws) if not bad else
           '%s() writes id_alloc_ other than by incrementing it (%s): ids handed out afterwards repeat ids of requests still outstanding' % (bad[0][0].short, bad[0][0].loc(bad[0][1]['i'])),
           where=bad[0][0].loc(bad[0][1]['i']) if bad else ws[0][0].loc(ws[0][1]['i']))


def r7(ctx, prog):
    ctx.rule('C14.R7', 'A9e: recursion reachable from input is bounded by an explicit depth test', floor=1)
    f = prog.fn1(NS + 'Proto::onRecvJson')
    rec = [st for st in f.calls() if st.get('usr') == f.usr]
    if not rec:
        ctx.ob('C14.R7', '%s|recursion' % f.name, True, 'no self recursion', where=f.loc(f.body))
        return
    for r in rec:
        rp = q.pt(f, r)
        # a bound: an integer parameter compared against a constant on a dominating guard and passed incremented/decremented
        ok = False
        for p_ in f.params:
            if p_['ct'] in ('int', 'unsigned int', 'unsigned long', 'size_t', 'long'):
                for cond, k, b in f.cfg.controlling_branches(rp):
                    if any(f.stmts[x].get('d') == p_['d'] for x in f.walk(cond) if f.stmts[x]['k'] == 'DeclRefExpr'):
                        ok = True
        why = 'recursive call carries a depth parameter tested on a dominating branch'
        if not ok:
            # alternative bound: the call sits in the is_array() branch and only descends into elements tested is_object();
            # an object argument never reaches the array branch again, so the depth is at most 2
            arg = f.path(r['args'][0])
            in_array = any(br in ('then', 'else') and any(c2.get('fn') == 'is_array' for c2 in q.subtree_calls(f, c)) for c, br in q.lexical_guards(f, r['i']))
            elem_obj = any(br == 'then' and any(c2.get('fn') == 'is_object' and 'obj' in c2 and f.path(c2['obj']) == arg for c2 in q.subtree_calls(f, c)) for c, br in q.lexical_guards(f, r['i']))
            first = [c for c, br in reversed(q.lexical_guards(f, r['i']))]
            top_obj = any(any(c2.get('fn') == 'is_object' and f.path(c2['obj']) == f.params[0]['n'] for c2 in q.subtree_calls(f, c)) and br == 'else' for c, br in q.lexical_guards(f, r['i']))
            if in_array and elem_obj and top_obj:
                ok, why = True, 'recursion only from the array branch into elements that are objects (which take the object branch): depth <= 2'
        ctx.ob('C14.R7', '%s|recursion' % f.name, ok, why if ok else
               'onRecvJson recurses once per nested array level of the received JSON with no depth bound', where=f.loc(r['i']))


def r8(ctx, prog):
    ctx.rule('C14.R8', 'A4: FindEndPos: the backward scan over backslashes is guarded against index underflow; results are 0 / positive / -1 on the stated branches', floor=3)
    f = prog.fn1('tbox::util::json::FindEndPos')
    loops = [st for st in f.stmts if st and st['k'] == 'ForStmt' and f.enclosing(st['i'], ('ForStmt',)) is not None]
    ok = False
    for lp in loops:
        inc = f.s(f.strip(lp.get('inc')))
        if inc and inc['k'] == 'UnaryOperator' and inc.get('op') == '--':
            cond = lp.get('cond')
            jd = f.s(f.strip_casts(inc['ch'][0])).get('d')
            # j != 0 (or j > 0) is part of the loop condition and evaluated before the subscript
            tests = [f.stmts[x] for x in f.walk(cond) if f.stmts[x]['k'] == 'BinaryOperator' and f.stmts[x].get('op') in ('!=', '>') and
                     f.s(f.strip_casts(f.stmts[x]['ch'][0])).get('d') == jd and f.s(f.strip_casts(f.stmts[x]['ch'][1])).get('cv') == 0]
            subs = [f.stmts[x] for x in f.walk(cond) if f.stmts[x]['k'] == 'ArraySubscriptExpr']
            ok = bool(tests) and all(f.cfg.dominates(q.pt(f, tests[0]), q.pt(f, s_)) for s_ in subs)
            # the scan starts at i-1 only inside a string (so i >= 1)
            g = f.cfg.controlling_branches(f.cfg.point_of(cond))
            ok = ok and any('in_string' in q.subtree_paths(f, c) and k == 0 for c, k, b in g)
    ctx.ob('C14.R8', '%s|backscan' % f.name, ok, 'backward scan tests j != 0 before subscripting and only runs inside a string', where=f.loc(f.body))
    vals = sorted(set(str(q.return_const(f, r)) if q.return_const(f, r) is not None else f.path(r['val']) for r in q.returns(f)))
    ctx.ob('C14.R8', '%s|returns' % f.name, '0' in vals and '-1' in vals and len(vals) == 3, 'return values: %s' % vals, where=f.loc(f.body))
    neg = [r for r in q.returns(f) if q.return_const(f, r) == -1]
    ok = all(any(br == 'then' and any(n_ in q.subtree_paths(f, c) for n_ in ('braces_level', 'square_level')) for c, br in q.lexical_guards(f, r['i'])) for r in neg)
    ctx.ob('C14.R8', '%s|neg-on-unbalanced' % f.name, ok and bool(neg), '-1 only when a bracket level went negative', where=f.loc(f.body))


def r14(ctx, prog):
    ctx.rule('C14.R14', 'A10 encoder/decoder agreement: a framing\'s decoder refuses input (negative return) only for reasons its own encoder\'s output cannot give: '
             'a head code different from the one the encoder writes, text that does not parse, or a length above a bound L_dec — and then the encoder refuses '
             'to write any text longer than some L_enc <= L_dec (both bounds folded from the guards\' constants)', floor=4)
    n = 0
    U32 = 1 << 32
    for P in PROTOS:
        dec, enc = prog.fn1(NS + P + '::onRecvData'), prog.fn1(NS + P + '::sendJson')
        wl = wire_locals(dec)
        # what the encoder writes: data members streamed into the frame, and the text whose size/data are sent
        def own_fields(g):
            return {x['n'] for x in g.stmts if x and x['k'] == 'MemberExpr' and x.get('mk') == 'field' and x.get('ch') and
                    (g.s(g.strip_casts(x['ch'][0])) or {}).get('k') == 'CXXThisExpr'}
        fields = own_fields(dec) | own_fields(enc)
        enc_fields = set()
        for st in enc.calls():
            if st.get('op') == '<<':
                for a in st.get('args', []):
                    pa = enc.path(a)
                    if pa in fields:
                        enc_fields.add(pa)
        sends = [st for st in enc.calls() if st.get('fn') == 'operator()' and st.get('obj') is not None and enc.path(st['obj']).endswith('send_data_cb_')]
        if not sends:
            raise AnalysisBroken('%s::sendJson: no call of send_data_cb_' % P)

        def enc_refuses(size):
            """does every send in the encoder lie behind a guard that is false for a text of `size` bytes?"""
            def leaf(st):
                if st['k'] in q.CALL_KINDS and st.get('fn') in ('size', 'length') and 'basic_string' in (st.get('cls') or ''):
                    return size
                if st['k'] == 'DeclRefExpr' and st.get('dk') == 'Var' and not st.get('gl'):
                    defs = rd.local_defs(enc, st['d'])          # a named temporary with one definition stands for its initialiser
                    if len(defs) == 1 and defs[0]['kind'] in ('init', '=') and defs[0]['rhs'] is not None:
                        return q.eval_expr(enc, defs[0]['rhs'], leaf)
                return None
            for snd in sends:
                refused = False
                for cond, k, b in q.guards_incl_flags(enc, q.pt(enc, snd)):
                    v = q.eval_expr(enc, cond, leaf)
                    if v is not None and bool(v) != (k == 0):
                        refused = True
                if not refused:
                    return False
            return True

        scanners = {}
        for c in dec.calls():
            sent = {q.return_const(g, r) for g in prog.by_usr.get(c.get('usr'), ()) if not g.parent_usr for r in q.returns(g)
                    if q.return_const(g, r) is not None and q.return_const(g, r) < 0}
            if sent:
                for st in dec.stmts:
                    if st and st['k'] == 'DeclStmt':
                        for d in st['decls']:
                            if 'init' in d and c['i'] in set(dec.walk(d['init'])):
                                scanners[d['n']] = (c.get('fn'), sent)
        for st in dec.stmts:
            if not st or st['k'] != 'ReturnStmt' or not st.get('ch'):
                continue
            rv = dec.s(dec.strip_casts(st['ch'][0]))
            val = rv.get('cv') if rv else None
            if val is None and rv and rv['k'] == 'UnaryOperator' and rv.get('op') == '-':
                val = -1
            if val is None or val >= 0:
                continue
            n += 1
            p = q.pt_or_term(dec, st)
            guards = q.guards_incl_flags(dec, p)
            reason, lenconds = None, []
            for cond, k, b in guards:
                r = q.edge_relation(dec, cond, k)
                if r and r[1] == '!=':
                    sides = (r[0], r[2])
                    wire = [x for x in sides if any(w.get('n') == x for w in wl.values())]
                    fld = [x for x in sides if x in fields]
                    if wire and fld:
                        reason = ('magic', fld[0])
                defs = q.flag_true_defs(dec, cond, k)
                if defs and all(d['rhs'] is not None and any(dec.stmts[x]['k'] in q.CALL_KINDS and dec.stmts[x].get('fn') == 'CatchThrow' for x in dec.walk(d['rhs'])) for d in defs):
                    reason = ('parse', None)
                # the error value of a scanner (a callee with a negative constant return) held in a local
                for l, o, rr in q.edge_rels(dec, cond, k):
                    if l in scanners:
                        cv = [dec.stmts[x]['cv'] for x in dec.walk(cond) if dec.stmts[x].get('cv') is not None]
                        if (0 in cv and o == '<') or (any(v in scanners[l][1] for v in cv) and o == '=='):
                            reason = ('scanner', scanners[l][0])
                ds = {dec.stmts[x].get('d') for x in dec.walk(cond) if dec.stmts[x]['k'] == 'DeclRefExpr'}
                if (ds & set(wl)) and not (r and r[1] in ('!=', '==') and any(x in fields for x in (r[0], r[2]))):
                    lenconds.append((cond, k, ds & set(wl)))
            tag = '%s::onRecvData|return %d@%s' % (P, val, dec.loc(st['i']).split(':')[-1])
            if reason and reason[0] == 'magic':
                ok = reason[1] in enc_fields
                ctx.ob('C14.R14', tag, ok, 'refused on a head code other than %s, which the encoder writes' % reason[1] if ok else
                       'the decoder refuses frames whose head differs from %s, but the encoder does not write that member' % reason[1], where=dec.loc(st['i']))
                continue
            if reason and reason[0] == 'scanner':
                ctx.ob('C14.R14', tag, True, 'refused on the error value of %s(): a closing bracket without its opener outside a string, which Json::dump() never writes '
                       '(the scan itself is C14.R8)' % reason[1], where=dec.loc(st['i']))
                continue
            if reason:
                ctx.ob('C14.R14', tag, True, 'refused on text that does not parse (the encoder writes Json::dump())', where=dec.loc(st['i']))
                continue
            if not lenconds:
                ctx.ob('C14.R14', tag, False, 'the decoder refuses input on a path that is neither a head-code mismatch, a parse failure nor a length bound: nothing shows that '
                       'frames written by %s::sendJson never take it' % P, where=dec.loc(st['i']))
                continue
            # length bound: the smallest wire length that is refused, by folding the guards with the wire local = v
            def refused_at(v):
                for cond, k, ws in lenconds:
                    def leaf(sx):
                        if sx['k'] == 'DeclRefExpr' and sx.get('d') in ws:
                            return v
                        if sx['k'] == 'DeclRefExpr' and sx.get('dk') == 'ParmVar':
                            return U32 * 4          # the buffer is as large as it needs to be: only the bound itself is of interest
                        return None
                    x = q.eval_expr(dec, cond, leaf)
                    if x is None:
                        return None
                    if bool(x) != (k == 0):
                        return False
                return True
            lo, hi = 0, U32 - 1
            top = refused_at(hi)
            if top is None or refused_at(0) is None:
                raise AnalysisBroken('%s: cannot fold the length guard of the negative return at %s' % (P, dec.loc(st['i'])))
            if not top:
                # refuses nothing at the top of the range: treat as a window test — look for any refused probe
                probes = [x for c, k, w in lenconds for y in dec.walk(c) for x in ([dec.stmts[y]['cv'] + d for d in range(-16, 17)] if dec.stmts[y].get('cv') is not None else [])]
                hit = [v for v in probes if 0 <= v < U32 and refused_at(v)]
                l_dec = min(hit) - 1 if hit else None
            else:
                while lo < hi:
                    mid = (lo + hi) // 2
                    if refused_at(mid):
                        hi = mid
                    else:
                        lo = mid + 1
                l_dec = lo - 1          # lengths 0..l_dec are accepted
            if l_dec is None:
                ctx.ob('C14.R14', tag, True, 'the length guard refuses no length in range', where=dec.loc(st['i']))
                continue
            # the encoder must refuse every text longer than l_dec (probe the window around the bound and the range top)
            leak = [v for v in sorted({l_dec + d for d in range(1, 33)} | {U32 - 1, l_dec + 1024, l_dec * 2 + 1}) if v < U32 and not enc_refuses(v)]
            ctx.ob('C14.R14', tag, not leak, 'lengths above %d are refused by the decoder and never written by the encoder' % l_dec if not leak else
                   'the decoder refuses every frame whose length field exceeds %d, but %s::sendJson still writes a text of %d bytes: a message written by the framing\'s own encoder '
                   'is rejected by its decoder (the two bounds are applied to different quantities)' % (l_dec, P, leak[0]), where=dec.loc(st['i']))
    if n < 4:
        raise AnalysisBroken('expected >= 4 refusing returns in the three decoders, saw %d' % n)


def r15(ctx, prog):
    ctx.rule('C14.R15', 'A9d no error turned into "need more data": where a decoder takes a length from a scanner that reports malformed input by a negative constant '
             '(util::json::FindEndPos: -1 on unbalanced brackets), every `return 0` (wait for more bytes) that the call can reach lies behind a guard excluding the '
             'negative result — bytes that can never become a message are refused, not waited on for ever', floor=1)
    n = 0
    for P in PROTOS:
        dec = prog.fn1(NS + P + '::onRecvData')
        for c in dec.calls():
            sent = set()
            for g in prog.by_usr.get(c.get('usr'), ()):
                if g.parent_usr:
                    continue
                for r in q.returns(g):
                    v = q.return_const(g, r)
                    if v is not None and v < 0:
                        sent.add(v)
            if not sent:
                continue
            holder = None
            for st in dec.stmts:
                if st and st['k'] == 'DeclStmt':
                    for d in st['decls']:
                        if 'init' in d and c['i'] in set(dec.walk(d['init'])):
                            holder = d['n']
            if holder is None:
                continue
            n += 1
            cp = q.pt(dec, c)
            bad = []
            for r in q.returns(dec):
                if q.return_const(dec, r) != 0:
                    continue
                rp = q.pt_or_term(dec, r)
                if not dec.cfg.exists_path(cp, rp):
                    continue
                ok = False
                for cond, k, b in q.guards_incl_flags(dec, rp):
                    for l, o, rr in q.edge_rels(dec, cond, k):
                        if l != holder:
                            continue
                        cv = [dec.stmts[x]['cv'] for x in dec.walk(cond) if dec.stmts[x].get('cv') is not None]
                        if (0 in cv and o in ('>=', '>', '==')) or (any(v in sent for v in cv) and o in ('!=', '>')):
                            ok = True
                if not ok:
                    bad.append(r)
            # exactness with the scanner's contract (0 = incomplete, > 0 = end position): "need more" exactly on 0, the text is taken only on > 0
            from tbxlint import bounds
            from tbxlint.affine import Aff
            hsym = Aff.sym('cur:' + holder)
            if not bad:
                for r in q.returns(dec):
                    if q.return_const(dec, r) != 0 or not dec.cfg.exists_path(cp, q.pt_or_term(dec, r)):
                        continue
                    facts = bounds.facts_at(dec, q.pt_or_term(dec, r))
                    exact = bounds.decide(Aff(0) - hsym, facts, set())
                    ctx.ob('C14.R15', '%s::onRecvData|need-more-exact@%s' % (P, dec.loc(r['i']).split(':')[-1]), exact, '"need more data" only when the scanner found no end (result <= 0, < 0 excluded above)' if exact else
                           '"need more data" is also answered when %s() found the end of a text (result > 0 is possible here): a complete message is held back' % c.get('fn'), where=dec.loc(r['i']))
                for u in dec.calls():
                    if u.get('fn') == 'CatchThrow' and dec.cfg.exists_path(cp, q.pt(dec, u)):
                        facts = bounds.facts_at(dec, q.pt(dec, u))
                        pos_ok = bounds.decide(hsym - Aff(1), facts, set())
                        ctx.ob('C14.R15', '%s::onRecvData|parse-on-positive' % P, pos_ok, 'the text is parsed only when the scanner result is > 0' if pos_ok else
                               'the text is parsed although %s() may have answered 0 ("no end yet"): an incomplete message is parsed as an empty text and refused — the same stream '
                               'decodes or fails depending on where the segments are cut' % c.get('fn'), where=dec.loc(u['i']))
            ctx.ob('C14.R15', '%s::onRecvData|%s' % (P, c.get('fn')), not bad, 'the scanner\'s error value never reaches `return 0`' if not bad else
                   '%s() returns %s for input that can never become a message (unbalanced brackets), and onRecvData answers 0 — "need more data" — at %s without excluding it: '
                   'the malformed bytes are never reported, the caller keeps them and waits for ever' % (c.get('fn'), sorted(sent), dec.loc(bad[0]['i'])), where=dec.loc(c['i']))
    if n < 1:
        raise AnalysisBroken('no scanner with a negative error value found in the decoders (FindEndPos body not in the program?)')


def cfg_before(f, a, b):
    """point a is not reachable from b (it lies before the extraction)"""
    return a is not None and b is not None and not f.cfg.exists_path(b, a)


def r16(ctx, prog):
    ctx.rule('C14.R16', 'A4 resumable header: the fixed-size header is taken from the buffer only when the guards that hold there give data_size >= H, H being the '
             'number of bytes the extraction consumes (sum of the widths of the extracted fields); with fewer bytes the framing answers 0 before touching them — '
             'otherwise a header split across segments is decoded from missing bytes', floor=1)
    from tbxlint import bounds
    from tbxlint.affine import Aff
    f = prog.fn1(NS + 'HeaderStreamProto::onRecvData')
    wl = wire_locals(f)
    if not wl:
        raise AnalysisBroken('HeaderStreamProto::onRecvData: no wire-extracted locals found')
    H = 0
    for dd, x in wl.items():
        w_ = WIDTH.get((x.get('ct') or x.get('t') or '').replace('uint16_t', 'unsigned short').replace('uint32_t', 'unsigned int'), 0)
        if not w_:
            raise AnalysisBroken('width of extracted field %s unknown' % x.get('n'))
        H += w_
    ext = [st for st in f.calls() if st.get('op') == '>>' and st.get('args') and 'Deserializer' in (f.s(st['args'][0]).get('ct') or f.s(st['args'][0]).get('t') or '')]
    if not ext:
        raise AnalysisBroken('HeaderStreamProto::onRecvData: header extraction not found')
    dsz = [p_ for p_ in f.params if 'size' in p_['n']]
    if not dsz:
        raise AnalysisBroken('HeaderStreamProto::onRecvData: size parameter not found')
    first = min(ext, key=lambda st: (st.get('l', 0), st.get('c', 0)))
    p = q.pt(f, first)
    facts = bounds.facts_at(f, p)
    ok = bounds.decide(Aff.sym(dsz[0]['n']) - Aff(H), facts, bounds.unsigned_syms(f))
    ctx.ob('C14.R16', '%s|header-complete' % f.name, ok, 'the %d header bytes are extracted under %s >= %d' % (H, dsz[0]['n'], H) if ok else
           'the extraction consumes %d header bytes but the guards in force only give %s: a header arriving in two segments is decoded from bytes that are not there (zero '
           'length field), and the framing returns a consumed count for an incomplete message' % (H, '; '.join('%r >= 0' % g for g in facts[:4]) or 'nothing about ' + dsz[0]['n']),
           where=f.loc(first['i']))
    # exactness of the completeness test: "need more data" is answered only when the frame is strictly incomplete (length + H > data_size) ...
    pos = bounds.unsigned_syms(f)
    wnames = {x.get('n') for x in wl.values()}
    for r in q.returns(f):
        if q.return_const(f, r) != 0:
            continue
        rp = q.pt_or_term(f, r)
        conds = [c for c, k, b in f.cfg.controlling_branches(rp) if any(f.stmts[x]['k'] == 'DeclRefExpr' and f.stmts[x].get('n') in wnames for x in f.walk(c))]
        if not conds:
            # the header-size test: need-more only when strictly fewer than H bytes are there
            if cfg_before(f, rp, q.pt(f, first)):
                facts = bounds.facts_at(f, rp)
                st_ = bounds.decide(Aff(H) - Aff.sym(dsz[0]['n']) - Aff(1), facts, pos)
                ctx.ob('C14.R16', '%s|need-more-exact@%s' % (f.name, f.loc(r['i']).split(':')[-1]), st_, '"need more data" only when %s < %d' % (dsz[0]['n'], H) if st_ else
                       '"need more data" is also answered when exactly the %d header bytes are there: a frame with an empty payload is never examined (and never refused)' % H,
                       where=f.loc(r['i']))
            continue
        facts = bounds.facts_at(f, rp)
        strict = any(bounds.decide(Aff.sym('cur:' + w) + Aff(H) - Aff.sym(dsz[0]['n']) - Aff(1), facts, pos) for w in wnames)
        ctx.ob('C14.R16', '%s|need-more-exact@%s' % (f.name, f.loc(r['i']).split(':')[-1]), strict,
               '"need more data" only when length + %d > %s' % (H, dsz[0]['n']) if strict else
               '"need more data" is also answered when length + %d == %s, i.e. for a frame that is complete: the last message of a stream is held back until unrelated bytes '
               'arrive — the decoded sequence depends on the segmentation' % (H, dsz[0]['n']), where=f.loc(r['i']))
    # ... and the payload is taken only when it is completely there
    for c in f.calls():
        if c.get('fn') == 'fetchNoCopy' and c.get('args'):
            n_ = bounds.form(f, c['args'][0], q.pt(f, c))
            facts = bounds.facts_at(f, q.pt(f, c))
            ok2 = n_ is not None and bounds.decide(Aff.sym(dsz[0]['n']) - Aff(H) - n_, facts, pos)
            ctx.ob('C14.R16', '%s|payload-complete' % f.name, ok2, 'the payload is fetched under length + %d <= %s' % (H, dsz[0]['n']) if ok2 else
                   'the payload of %s bytes is fetched without the guards giving length + %d <= %s' % (n_, H, dsz[0]['n']), where=f.loc(c['i']))


def run(ctx):
    prog = extract('ALL' if ctx.tier == 'thorough' else scope_units())
    ctx.guard(r1, ctx, prog)
    ctx.guard(r2, ctx, prog)
    ctx.guard(r3, ctx, prog)
    ctx.guard(r4, ctx, prog)
    ctx.guard(r5_r6, ctx, prog)
    ctx.guard(r7, ctx, prog)
    ctx.guard(r8, ctx, prog)
    ctx.guard(tmon.run, ctx, prog, 'C14.R9')
    ctx.guard(tmon.run_users, ctx, prog, 'C14.R12', RPC)
    ctx.guard(r13, ctx, prog)
    ctx.guard(r14, ctx, prog)
    ctx.guard(r15, ctx, prog)
    ctx.guard(r16, ctx, prog)
    ctx.guard(r17, ctx, prog)
    ctx.guard(C14_wiring.r18, ctx, prog)
    ctx.guard(harden.run_json_narrowing, ctx, prog, 'C14.R11', [prog.fn1(NS + 'Proto::onRecvJson')] + [prog.fn1(RPC + '::' + n) for n in ('onRecvRequest', 'onRecvRespond')],
              lambda g: g.file.startswith(MODULES + '/jsonrpc/') or g.file.startswith(MODULES + '/util/'), 'JSON-RPC receive path')
    ctx.guard(harden.run, ctx, prog, 'C14.R10', [prog.fn1(NS + p + '::onRecvData') for p in PROTOS] + [prog.fn1(NS + 'Proto::onRecvJson')] +
              [prog.fn1(RPC + '::' + n) for n in ('onRecvRequest', 'onRecvRespond')],
              lambda g: g.file.startswith(MODULES + '/jsonrpc/') or g.file.startswith(MODULES + '/util/'), 'JSON-RPC receive path')
    from tbxlint import progress
    ctx.guard(progress.run_files, ctx, prog, 'C14.R19', ['jsonrpc/proto.cpp', 'jsonrpc/protos/header_stream_proto.cpp', 'jsonrpc/protos/raw_stream_proto.cpp', 'jsonrpc/protos/packet_proto.cpp', 'jsonrpc/rpc.cpp', 'util/json.cpp', 'util/serializer.cpp', 'eventx/timeout_monitor_impl.hpp'], 'JSON-RPC receive path', floor=1)
    from rules import C14_replay
    ctx.guard(C14_replay.r20, ctx, prog)
    from rules import C14_classify
    ctx.guard(C14_classify.r21, ctx, prog)
    from tbxlint import divzero
    ctx.guard(divzero.rule, ctx, prog, 'C14.R22', 'A9 no division or remainder by a value that may be zero in the JSON-RPC layer: every integer /, % whose divisor is not a non-zero constant is preceded on every path by a test that the divisor is not zero (or the divisor is positive by construction): a zero that the peer can cause (a window width, a count, a length) is a SIGFPE that ends the process', ['/jsonrpc/'], 15)
    return prog
