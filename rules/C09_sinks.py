"""C09 — which sink receives which record: the registry of output functions, enable / disable and the level filters replayed (C09.R14).  Imported by rules/C09.py.

tbxlint/minterp.py interprets LogAddPrintfFunc, LogRemovePrintfFunc and Dispatch over the process-wide list of output channels, and Sink::enable, disable, setLevel (both
forms), unsetLevel, filter, HandleLog, handleLog for three sinks whose front end is a probe.  Scripts enable and disable the sinks, set and unset global and per-module
levels, and dispatch records of every level for three modules.  A reference (enabled, level <= the module's threshold if one is set, else <= the default) says which sink
must see the record — exactly once — and which must not."""
import itertools
from tbxlint.facts import AnalysisBroken
from tbxlint import minterp
from tbxlint.minterp import P, S

SINK = 'tbox::log::Sink'


class Bench:
    def __init__(self, prog, nsinks=3):
        self.prog = prog
        self.seen = []              # (sink, level, module)
        noop = lambda it, f, st, a: None
        hooks = dict(minterp.VECTOR_HOOKS)
        hooks.update({'onLogFrontEnd': self.h_front, 'onEnable': noop, 'onDisable': noop, 'lock_guard': noop, 'remove_if': self.h_remove_if})
        self.it = minterp.Interp(prog, {'str:empty': [0]}, hooks=hooks, inline=('*',), max_steps=2000000)
        it = self.it
        it.string_mode = True
        self.channels = []
        gl = self.global_names()
        for qn, nm in gl:
            if nm == '_output_channels':
                it.globals[qn] = self.channels
            elif nm == '_id_alloc':
                it.globals[qn] = 0
            elif nm == '_lock':
                it.globals[qn] = 0
        if not any(nm == '_output_channels' for qn, nm in gl):
            raise AnalysisBroken('the list of output channels is not referred to by Dispatch')
        self.sinks = []
        for i in range(nsinks):
            rec = it.new_record(SINK)
            it._keep.append(rec)
            rec['modules_level_'] = {'__map__': True}
            rec['output_id_'] = 0
            if not isinstance(rec.get('default_level_'), int):
                raise AnalysisBroken('Sink::default_level_ has no default the replay can read')
            rec['__probe__'] = i
            self.sinks.append(rec)

    def global_names(self):
        out = set()
        for nm in ('LogAddPrintfFunc', 'LogRemovePrintfFunc'):
            for g in self.prog.by_name.get(nm, ()):
                for st in g.stmts:
                    if st and st['k'] == 'DeclRefExpr' and st.get('gl') and st.get('q'):
                        out.add((st['q'], st.get('n')))
        for g in self.prog.funcs.values():
            if g.name.endswith('::Dispatch') and g.body is not None:
                for st in g.stmts:
                    if st and st['k'] == 'DeclRefExpr' and st.get('gl') and st.get('q'):
                        out.add((st['q'], st.get('n')))
        return out

    def h_front(self, it, f, st, a):
        rec = it.this if isinstance(it.this, dict) else None
        c = it.record_of(a[0])
        mod = c.get('module_id')
        self.seen.append((rec.get('__probe__'), c.get('level'), str(mod) if isinstance(mod, S) else it.to_text(mod)))

    def h_remove_if(self, it, f, st, a):
        first, last, pred = a[0], a[1], a[2]
        v = first.c
        seg = v[first.k:last.k]
        keep = [x for x in seg if not it.invoke(f, st, pred, [it.ref(x) if isinstance(x, dict) else x])]
        v[first.k:last.k] = keep + seg[len(keep):]
        return minterp.It(v, first.k + len(keep))

    def call(self, rec, name, args=(), pick=None):
        cands = [g for g in self.prog.by_name.get(SINK + '::' + name, ()) if g.body is not None and len(g.params) == len(args) and (pick is None or pick(g))]
        if len(cands) != 1:
            raise AnalysisBroken('Sink::%s/%d: %d candidate(s)' % (name, len(args), len(cands)))
        return self.it.call(cands[0], list(args), this=rec)

    def dispatch(self, level, module):
        it = self.it
        g = [x for x in self.prog.funcs.values() if x.name.endswith('::Dispatch') and x.body is not None and len(x.params) == 1]
        if len(g) != 1:
            raise AnalysisBroken('Dispatch: %d definition(s)' % len(g))
        content = {'__cls__': 'LogContent', '__open__': True, 'level': level, 'module_id': S(module), 'text_len': 0, 'text_ptr': 0, 'text_trunc': 0}
        it._keep.append(content)
        it.call(g[0], [it.ref(content)])


def run_script(prog, script):
    b = Bench(prog)
    it = b.it
    ref = [{'on': False, 'def': b.sinks[i]['default_level_'], 'mods': {}} for i in range(len(b.sinks))]
    for n, a in enumerate(script):
        when = 'step %d (%s)' % (n + 1, ' '.join(str(x) for x in a))
        k = a[0]
        if k == 'en':
            b.call(b.sinks[a[1]], 'enable')
            ref[a[1]]['on'] = True
        elif k == 'dis':
            b.call(b.sinks[a[1]], 'disable')
            ref[a[1]]['on'] = False
        elif k == 'def':
            b.call(b.sinks[a[1]], 'setLevel', [a[2]])
            ref[a[1]]['def'] = a[2]
        elif k == 'mod':
            b.call(b.sinks[a[1]], 'setLevel', [S(a[2]), a[3]])
            if a[2] == '':
                ref[a[1]]['def'] = a[3]
            else:
                ref[a[1]]['mods'][a[2]] = a[3]
        elif k == 'unset':
            b.call(b.sinks[a[1]], 'unsetLevel', [S(a[2])])
            ref[a[1]]['mods'].pop(a[2], None)
        else:
            for level in range(0, 8):
                for module in ('m', 'n', ''):
                    c0 = len(b.seen)
                    b.dispatch(level, module)
                    if it.faults:
                        return '%s: %s' % (when, it.faults[0])
                    got = b.seen[c0:]
                    for i, r in enumerate(ref):
                        want = 1 if (r['on'] and level <= r['mods'].get(module, r['def'])) else 0
                        have = sum(1 for x in got if x[0] == i)
                        if have != want:
                            return '%s: a record of level %d for module "%s" reaches sink %d %d time(s) where %d is due (sink %s, default threshold %d, module thresholds %s)' % (
                                when, level, module, i, have, want, 'enabled' if r['on'] else 'disabled', r['def'], r['mods'])
                    if any(x[1] != level or x[2] != module for x in got):
                        return '%s: a sink is handed a record whose level / module differ from what was dispatched' % when
        if it.faults:
            return '%s: %s' % (when, it.faults[0])
    return None


def r14(ctx, prog):
    depth = 5 if ctx.tier == 'thorough' else 4
    alpha = [('en', 0), ('en', 1), ('dis', 0), ('dis', 1), ('def', 0, 2), ('def', 1, 7), ('mod', 0, 'm', 6), ('mod', 0, 'm', 0), ('mod', 1, 'n', 3), ('mod', 0, '', 4), ('unset', 0, 'm'),
             ('unset', 1, 'n'), ('log',)]
    scripts = []
    for n in range(1, depth + 1):
        for s_ in itertools.product(alpha, repeat=n):
            if s_[-1] != ('log',) or not any(a[0] == 'en' for a in s_):
                continue
            scripts.append(s_)
    # a module threshold that happens to equal the default of the moment is still the module's own: it does not follow the default afterwards
    scripts.append((('en', 0), ('def', 0, 2), ('mod', 0, 'm', 2), ('log',), ('mod', 0, '', 4), ('log',), ('def', 0, 7), ('log',), ('unset', 0, 'm'), ('log',)))
    scripts.append((('en', 1), ('mod', 1, 'n', 8), ('def', 1, 7), ('log',), ('def', 1, 1), ('log',)))
    scripts.append((('en', 0), ('en', 1), ('en', 2), ('log',), ('dis', 1), ('log',), ('en', 1), ('dis', 0), ('log',), ('en', 0), ('en', 0), ('log',), ('dis', 2), ('dis', 2), ('log',)))
    ctx.rule('C09.R14', 'A10 which sink sees which record, by abstract replay: %d scripts of up to %d steps (enable / disable of three sinks, global and per-module thresholds set, reset '
             'through the empty module name and unset, then records of all eight levels for three modules dispatched) run on the syntax trees of LogAddPrintfFunc, '
             'LogRemovePrintfFunc, Dispatch and Sink::enable / disable / setLevel / unsetLevel / filter / HandleLog / handleLog: every enabled sink whose threshold for the module '
             '(its own if set, else the default) admits the level sees the record exactly once, with level and module intact, and no other sink sees it' % (len(scripts), depth), floor=1)
    if not any(g.name == SINK + '::filter' for g in prog.funcs.values()) or not any(g.name.endswith('LogAddPrintfFunc') for g in prog.funcs.values()):
        from tbxlint.facts import extract
        prog = extract('ALL')
    bad = None
    for s_ in scripts:
        why = run_script(prog, s_)
        if why is not None:
            bad = (s_, why)
            break
    f = prog.fn1(SINK + '::filter')
    ctx.ob('C09.R14', 'sinks|replay', bad is None, '%d scripts' % len(scripts) if bad is None else
           'script %s: %s' % (' '.join('%s(%s)' % (a[0], ','.join(repr(x) for x in a[1:])) for a in bad[0]), bad[1]), where=f.loc(f.body))
