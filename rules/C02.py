"""C02 — timers (DESIGN §4 C02)."""
from tbxlint.facts import extract, AnalysisBroken, MODULES
from tbxlint import locks, q, rd, own

CL = 'tbox::event::CommonLoop'
TE = 'tbox::event::TimerEventImpl'
SCOPE = ['event/common_loop_timer.cpp', 'event/timer_event_impl.cpp', 'event/common_loop.cpp', 'event/common_loop_run.cpp', 'eventx/timer_pool.cpp']
HEAP = 'timer_min_heap_'


def is_heap_field(f, sid):
    return (f.field_of(sid) or '').endswith('CommonLoop::' + HEAP)


def heap_algo(f, st):
    """'push_heap'/'pop_heap'/'make_heap' when st is that std algorithm applied to the timer heap's begin()/end()"""
    if st['k'] != 'CallExpr':
        return None
    callee = st.get('callee', '')
    for n in ('push_heap', 'pop_heap', 'make_heap', 'sort_heap'):
        if callee.startswith('std::' + n):
            args = st.get('args', [])
            if len(args) >= 2 and all(any(is_heap_field(f, f.stmts[x].get('obj', -1)) for x in f.walk(a) if f.stmts[x]['k'] in q.CALL_KINDS) for a in args[:2]):
                return n
    return None


def r1_heap_protocol(ctx, prog):
    ctx.rule('C02.R1', 'A13 heap protocol of timer_min_heap_: abstract state HEAP / TAIL_LOOSE / BROKEN tracked through every function that touches '
                       'it; HEAP required at every exit, user callback and front() read; one comparator type ordering by `expired` with >', floor=6)
    funcs = [f for f in prog.funcs.values() if prog.outermost(f).cls == CL and any(st and st['k'] == 'MemberExpr' and st.get('n') == HEAP for st in f.stmts)]
    if len(funcs) < 4:
        raise AnalysisBroken('expected >=4 CommonLoop functions touching %s, found %d' % (HEAP, len(funcs)))
    cmps = set()
    for f in funcs:
        # locals known to alias heap elements
        front_vars = set()     # initialised from heap.front()
        fresh_vars = set()     # from the object pool (not yet in the heap)
        for st in f.stmts:
            if st and st['k'] == 'DeclStmt':
                for d in st['decls']:
                    if 'init' in d:
                        for x in f.walk(d['init']):
                            sx = f.stmts[x]
                            if sx['k'] in q.CALL_KINDS and sx.get('fn') == 'front' and 'obj' in sx and is_heap_field(f, sx['obj']):
                                front_vars.add(d['d'])
                            if sx['k'] in q.CALL_KINDS and sx.get('fn') == 'alloc' and sx.get('cls', '').startswith('tbox::ObjectPool<'):
                                fresh_vars.add(d['d'])
        problems = []

        def transfer(pt, e, state):
            if e[0] != 'S':
                return state
            st = f.stmts[e[1]]
            s, tail = state
            k = st['k']
            algo = heap_algo(f, st)
            if algo:
                if len(st.get('args', [])) >= 3:
                    cmps.add(f.s(st['args'][2]).get('ct') or f.s(st['args'][2]).get('t'))
                else:
                    cmps.add('<default>')
                if algo == 'make_heap':
                    return ('HEAP', tail)
                if algo == 'push_heap':
                    return ('HEAP', tail) if s in ('TAIL_LOOSE', 'HEAP') else ('BROKEN', tail)
                if algo == 'pop_heap':
                    return ('TAIL_LOOSE', True) if s == 'HEAP' else ('BROKEN', tail)
                return ('BROKEN', tail)
            if k in q.CALL_KINDS and 'obj' in st and is_heap_field(f, st['obj']):
                fn = st.get('fn')
                if fn in ('push_back', 'emplace_back'):
                    return ('TAIL_LOOSE', False) if s == 'HEAP' else ('BROKEN', tail)
                if fn == 'pop_back':
                    return ('HEAP', tail) if s in ('TAIL_LOOSE', 'HEAP') else ('BROKEN', tail)
                if fn == 'front':
                    if s != 'HEAP':
                        problems.append(('front() read while the heap is %s' % s, st))
                    return state
                if fn in ('empty', 'size', 'begin', 'end', 'cbegin', 'cend', 'reserve', 'capacity'):
                    return state
                if fn == 'clear':
                    return ('HEAP', tail)
                return ('BROKEN', tail)
            # key writes
            if k in ('BinaryOperator', 'CompoundAssignOperator') and st.get('op', '').endswith('=') and st['op'] not in ('==', '!=', '<=', '>='):
                l = f.s(f.strip_casts(st['ch'][0]))
                if l and l['k'] == 'MemberExpr' and l.get('q', '').endswith('Timer::expired'):
                    base = f.s(f.strip_casts(l['ch'][0]))
                    bd = base.get('d') if base and base['k'] == 'DeclRefExpr' else None
                    if bd in fresh_vars:
                        return state
                    if s == 'TAIL_LOOSE' and tail and bd in front_vars:
                        return state        # key of the element sitting at the loose tail
                    return ('BROKEN', tail)
            if k == 'CXXOperatorCallExpr' and st.get('op') == '()' and st.get('cls', '').startswith('std::function<'):
                if s != 'HEAP':
                    problems.append(('user callback invoked while the heap is %s' % s, st))
            return state

        def join(a, b):
            if a == b:
                return a
            order = {'HEAP': 0, 'TAIL_LOOSE': 1, 'BROKEN': 2}
            if a[0] != b[0]:
                return ('BROKEN', False)
            return (a[0], a[1] and b[1])
        inn, before = f.cfg.forward(('HEAP', False), transfer, join)
        # problems are appended during fixpoint iteration: recompute on the final states
        problems.clear()
        for b in f.cfg.blocks.values():
            st_ = inn.get(b.id)
            if st_ is None:
                continue
            for i, e in enumerate(b.el):
                st_ = transfer((b.id, i), e, st_)
        exit_state = inn.get(f.cfg.exit, ('HEAP', False))
        uniq = {}
        for msg, st in problems:
            uniq[(msg, st['i'])] = st
        ok = exit_state[0] == 'HEAP' and not uniq
        ctx.ob('C02.R1', '%s|heap-protocol' % locks.site_name(prog, f), ok,
               'heap invariant holds at exit, at user callbacks and at front() reads' if ok else
               '; '.join(['%s at %s' % (m, f.loc(i)) for (m, i) in uniq] + (['heap is %s at function exit' % exit_state[0]] if exit_state[0] != 'HEAP' else [])),
               where=f.loc(f.body))
    ctx.ob('C02.R1', CL + '|one-comparator', len(cmps) == 1 and any('TimerCmp' in (c or '') for c in cmps), 'heap algorithms use comparator type(s): %s' % sorted(str(c) for c in cmps))
    cmpf = prog.fn1(CL + '::TimerCmp::operator()')
    # folded, not matched: the functor is interpreted on every pair of deadlines from a small grid and must say "x is due later than y" — however it is written
    from tbxlint import minterp
    it_ = minterp.Interp(prog, {}, hooks={}, inline=('*',))
    ok, wrong = True, None
    try:
        for dx in (0, 1, 5, 1 << 40):
            for dy in (0, 1, 5, 1 << 40):
                x, y = {'__cls__': CL + '::Timer', '__open__': True, 'expired': dx}, {'__cls__': CL + '::Timer', '__open__': True, 'expired': dy}
                got = it_.call(cmpf, [it_.ref(x), it_.ref(y)], this={'__cls__': CL + '::TimerCmp', '__open__': True})
                if bool(got) != (dx > dy):
                    ok, wrong = False, (dx, dy, got)
    except AnalysisBroken as e:
        ok, wrong = False, str(e)
    ctx.ob('C02.R1', '%s|min-heap-by-deadline' % cmpf.name, ok, 'TimerCmp(x, y) holds exactly when x is due later than y (min-heap on the deadline), folded over a grid of deadlines' if ok else
           'TimerCmp does not order by deadline: %s' % (wrong,), where=cmpf.loc(cmpf.body))


def pure_clock(f, e, depth=0):
    """the expression's value is a reading of the monotonic clock taken where it is evaluated (every arm of a conditional included)"""
    x = f.s(f.strip_casts(e))
    if x is None or depth > 4:
        return False
    if x['k'] == 'CallExpr' and 'GetCurrentSteadyClockMilliseconds' in x.get('callee', ''):
        return True
    if x['k'] == 'ConditionalOperator':
        return pure_clock(f, x['ch'][1], depth + 1) and pure_clock(f, x['ch'][2], depth + 1)
    return False


def clock_locals(f):
    """locals that hold nothing but a fresh clock reading: every definition is a pure clock expression"""
    out = set()
    for st in f.stmts:
        if st and st['k'] == 'DeclStmt':
            for d in st['decls']:
                if 'init' in d and pure_clock(f, d['init']):
                    defs = rd.local_defs(f, d['d'])
                    if all(x['rhs'] is not None and pure_clock(f, x['rhs']) for x in defs):
                        out.add(d['d'])
    return out


def r2(ctx, prog):
    ctx.rule('C02.R2', 'A4+A10: never before the deadline: the tests between the clock value read in this pass and the timer callback, folded with the widths of their C types '
                       'over deadlines up to 2^33 ms on either side, let the callback through exactly when now >= expired; the poll time-out is clamped at 0 and is 0 when next-tasks '
                       'are pending', floor=3)
    f = prog.fn1(CL + '::handleExpiredTimers')
    inv = q.invokes(f)
    now = clock_locals(f)
    if not inv or not now:
        raise AnalysisBroken('handleExpiredTimers: callback invoke / clock read not found')
    # the tests between the clock reading and the callback, folded with the widths of their C types: the callback is reached exactly when now >= expired,
    # for deadlines a few milliseconds and many days away on either side (a difference narrowed to 32 bits changes sign beyond 24.8 days)
    from tbxlint import minterp
    from tbxlint.minterp import P
    decl_of = {}
    for st in f.stmts:
        if st and st['k'] == 'DeclStmt':
            for d in st['decls']:
                decl_of[d['d']] = (st, d)
    front = {d['d'] for st, d in decl_of.values() if 'init' in d and any(x.get('fn') == 'front' and 'obj' in x and is_heap_field(f, x['obj']) for x in q.subtree_calls(f, d['init']))}
    NOW = 10 ** 9
    DELTAS = (-(2 ** 33), -(2 ** 32) - 5, -(2 ** 31) - 60, -(2 ** 31), -(2 ** 31) + 1, -86400000, -1000, -1, 0, 1, 1000, 86400000, 2 ** 31 - 1, 2 ** 31, 2 ** 31 + 60, 2 ** 32 - 1, 2 ** 32 + 5,
              2 ** 33)

    def holds(cond, k, n_, e_):
        it = minterp.Interp(prog, {'timer': {'expired': e_, '__cls__': None}}, hooks={})
        env = {}
        for d_ in now:
            env[d_] = n_
        for d_ in front:
            env[d_] = P('timer', 0)

        def need(e, depth=0):
            for x in f.walk(e):
                sx = f.stmts[x]
                if sx['k'] == 'DeclRefExpr' and sx.get('dk') == 'Var' and sx['d'] not in env and sx['d'] in decl_of and depth < 6:
                    dst, dd = decl_of[sx['d']]
                    if 'init' not in dd or len(rd.local_defs(f, sx['d'])) != 1:
                        raise AnalysisBroken('handleExpiredTimers: %s in the deadline test has more than one definition' % sx.get('n'))
                    need(dd['init'], depth + 1)
                    env[sx['d']] = minterp.wrap(it.ev(f, dd['init'], env), dd.get('ct') or dd.get('t'))
        need(cond)
        return it.truth(f, cond, env) == (k == 0)

    def about_deadline(cond, depth=0):
        for x in f.walk(cond):
            sx = f.stmts[x]
            if sx['k'] == 'DeclRefExpr' and sx.get('d') in now:
                return True
            if sx['k'] == 'MemberExpr' and (sx.get('q') or '').endswith('Timer::expired'):
                return True
            if sx['k'] == 'DeclRefExpr' and sx.get('dk') == 'Var' and sx['d'] in decl_of and 'init' in decl_of[sx['d']][1] and depth < 6 and about_deadline(decl_of[sx['d']][1]['init'], depth + 1):
                return True
        return False
    for i in inv:
        gs = [(c, k) for c, k, b in f.cfg.controlling_branches(q.pt(f, i)) if about_deadline(c)]
        bad = None
        for dl in DELTAS:
            e_ = NOW + dl
            reach = all(holds(c, k, NOW, e_) for c, k in gs) if gs else True
            if reach != (NOW >= e_) and (bad is None or (reach and not bad[1])):
                bad = (dl, reach)       # an early firing is the more telling witness
        ok = bool(gs) and bad is None
        ctx.ob('C02.R2', '%s|not-early' % f.name, ok, 'the callback is reached exactly when now >= expired (%d test(s) folded over %d deadlines up to 2^33 ms away)' % (len(gs), len(DELTAS)) if ok else
               ('no test of the deadline against the clock controls the callback' if not gs else
                'for a timer whose deadline is %d ms %s the tests in front of the callback %s: %s' % (abs(bad[0]), 'ahead' if bad[0] > 0 else 'past', 'let it through' if bad[1] else 'stop the pass',
                                                                                                  'the callback runs before its time' if bad[1] else 'a due timer is never fired and blocks every timer behind it')),
               where=f.loc(gs[0][0]) if gs else f.loc(i['i']))
    g = prog.fn1(CL + '::getWaitTime')
    rets = q.returns(g)
    zero_first = any(q.return_const(g, r) == 0 and any(any(c2.get('fn') == 'hasNextFunc' for c2 in q.subtree_calls(g, c)) and br == 'then' for c, br in q.lexical_guards(g, r['i'])) for r in rets)
    ctx.ob('C02.R2', '%s|zero-when-pending' % g.name, zero_first, 'returns 0 when next-tasks are pending', where=g.loc(g.body))
    clamp = [st for st in g.stmts if st and st['k'] == 'BinaryOperator' and st.get('op') == '=' and g.s(g.strip_casts(st['ch'][1])).get('cv') == 0 and
             any(g.s(g.strip_casts(c)).get('op') == '<' and br == 'then' for c, br in q.lexical_guards(g, st['i']))]
    ctx.ob('C02.R2', '%s|clamped' % g.name, bool(clamp), 'negative remaining time clamped to 0', where=g.loc(g.body))


def r3(ctx, prog):
    ctx.rule('C02.R3', 'A4 depends-on: enabling starts a fresh full interval (expired = clock-now + interval); the periodic re-arm is expired += interval '
                       '(no period skipped) before the callback; the pass re-examines the heap top after each callback', floor=3)
    a = prog.fn1(CL + '::addTimer')
    now = clock_locals(a)
    ws = [(st, rhs) for st, rhs in q.assigns(a, 'Timer::expired')]
    ok = len(ws) == 1
    if ok:
        x = a.s(a.strip_casts(ws[0][1]))
        iv = a.params[0]['n']
        sides = [a.s(a.strip_casts(c)) for c in x['ch']] if x['k'] == 'BinaryOperator' and x.get('op') == '+' else []
        ok = len(sides) == 2 and any(sd.get('d') in now or pure_clock(a, sd['i']) for sd in sides) and any(a.path(sd['i']) == iv for sd in sides)
    ctx.ob('C02.R3', '%s|fresh-interval' % a.name, ok, 'expired = now + interval with now read from the monotonic clock in addTimer', where=a.loc(a.body))
    f = prog.fn1(CL + '::handleExpiredTimers')
    ws = [st for st in f.stmts if st and st['k'] == 'CompoundAssignOperator' and (f.field_of(st['ch'][0]) or '').endswith('Timer::expired')]
    oth = [st for st, rhs in q.assigns(f, 'Timer::expired') if st['k'] != 'CompoundAssignOperator']
    ok = len(ws) == 1 and not oth and ws[0]['op'] == '+=' and (f.field_of(ws[0]['ch'][1]) or '').endswith('Timer::interval') and \
        f.path(ws[0]['ch'][0]).split('.')[0] == f.path(ws[0]['ch'][1]).split('.')[0]
    ctx.ob('C02.R3', '%s|rearm-by-interval' % f.name, ok, 're-arm is t->expired += t->interval (independent of now)', where=f.loc(ws[0]['i']) if ws else f.loc(f.body))
    inv = q.invokes(f)
    ph = [st for st in f.stmts if st and heap_algo(f, st) == 'push_heap']
    ctx.ob('C02.R3', '%s|rearm-before-callback' % f.name, bool(ws) and bool(ph) and all(f.cfg.dominates(q.pt(f, ws[0]), q.pt(f, p)) for p in ph) and
           all(not f.cfg.exists_path(q.pt(f, i), q.pt(f, p), avoid=[q.pt(f, x) for x in f.stmts if x and x['k'] in q.CALL_KINDS and x.get('fn') == 'front' and 'obj' in x and is_heap_field(f, x['obj'])]) for i in inv for p in ph),
           'deadline advanced and re-pushed before the callback of the same iteration', where=f.loc(f.body))
    fronts = [x for x in f.calls() if x.get('fn') == 'front' and 'obj' in x and is_heap_field(f, x['obj'])]
    ctx.ob('C02.R3', '%s|reexamine-top' % f.name, bool(fronts) and all(not f.cfg.exists_path(q.pt(f, i), q.pt(f, i), avoid=q.pts(f, fronts)) for i in inv),
           'between two callbacks the heap top is read again', where=f.loc(f.body))


def r4(ctx, prog):
    ctx.rule('C02.R4', 'A7+A6: disable/destroy inside callbacks is safe: the callback is copied out before the heap/pool are touched and the popped '
                       'record is not used after the callback; deleteTimer frees the token synchronously and recycles the record only in a deferred task', floor=4)
    f = prog.fn1(CL + '::handleExpiredTimers')
    inv = q.invokes(f)
    for i in inv:
        o = f.s(f.strip_casts(i['obj']))
        local = o is not None and o['k'] == 'DeclRefExpr' and o.get('dk') == 'Var'
        src_ok = False
        if local:
            for dfn in rd.local_defs(f, o['d']):
                if dfn['rhs'] is not None and any((f.field_of(x) or '').endswith('Timer::cb') for x in f.walk(dfn['rhs'])):
                    # only recycling the record invalidates it (heap algorithms move pointers, the cabinet free only retires the token)
                    mut_pts = [q.pt(f, st) for st in f.stmts if st and st['k'] in q.CALL_KINDS and st.get('fn') == 'free' and st.get('cls', '').startswith('tbox::ObjectPool<')]
                    src_ok = all(f.cfg.dominates(dfn['point'], m) for m in mut_pts if m)
        ctx.ob('C02.R4', '%s|copy-first' % f.name, local and src_ok, 'the callback object is copied to a local before the record can be recycled (pool free)', where=f.loc(i['i']))
        # uses of the timer record after the invoke
        tvars = set()
        for st in f.stmts:
            if st and st['k'] == 'DeclStmt':
                for d in st['decls']:
                    if 'init' in d and any(f.stmts[x]['k'] in q.CALL_KINDS and f.stmts[x].get('fn') == 'front' for x in f.walk(d['init'])):
                        tvars.add((d['d'], st['i']))
        bad = []
        for d, dsid in tvars:
            dp = f.cfg.point_of(dsid)
            for u in f.stmts:
                if u and u['k'] == 'DeclRefExpr' and u.get('d') == d and q.pt(f, u) and f.cfg.exists_path(q.pt(f, i), q.pt(f, u), avoid=[dp]):
                    bad.append(u)
        ctx.ob('C02.R4', '%s|no-use-after-callback' % f.name, not bad, 'the popped timer record is not touched after the user callback' if not bad else 'timer record used at %s after the callback (it may have been recycled)' % f.loc(bad[0]['i']), where=f.loc(i['i']))
    d = prog.fn1(CL + '::deleteTimer')
    cf = [st for st in d.calls() if st.get('fn') == 'free' and st.get('cls', '').startswith('tbox::cabinet::Cabinet<')]
    pf_direct = [st for st in d.calls() if st.get('fn') == 'free' and st.get('cls', '').startswith('tbox::ObjectPool<')]
    lams = own.deferred_lambdas(prog, [d])
    pf_def = []
    for ff, lam, call in lams:
        lf = prog.lambda_func(ff, lam)
        if lf and any(st.get('fn') == 'free' and st.get('cls', '').startswith('tbox::ObjectPool<') for st in lf.calls()):
            pf_def.append((lam, [own.capture_origin(d, c['d']) for c in lam.get('caps', ()) if not c.get('this')]))
    ctx.ob('C02.R4', '%s|token-freed-now' % d.name, len(cf) == 1 and all(d.cfg.dominates(q.pt(d, cf[0]), q.pt(d, st)) for st in d.stmts if st and heap_algo(d, st)),
           'the cabinet token is freed synchronously, before the heap is touched (a late disable is a no-op)', where=d.loc(d.body))
    ctx.ob('C02.R4', '%s|record-recycled-later' % d.name, not pf_direct and len(pf_def) == 1 and pf_def[0][1] == ['cabinet-free'],
           'the pooled record is released only inside a deferred task, ownership taken via timer_cabinet_.free', where=d.loc(d.body))


def r5_r6(ctx, prog):
    ctx.rule('C02.R5', 'A4: a one-shot timer event marks itself disabled (and drops its token) before its callback', floor=1)
    ctx.rule('C02.R6', 'A5: TimerEventImpl keeps is_enabled_ in step with its registration: enable registers exactly when not enabled, disable removes exactly when enabled', floor=3)
    f = prog.fn1(TE + '::onEvent')
    inv = q.invokes(f, 'cb_')
    if not inv:
        raise AnalysisBroken('TimerEventImpl::onEvent: callback invoke not found')
    clr = [a for a, rhs in q.assigns(f, 'TimerEventImpl::is_enabled_') if f.s(f.strip_casts(rhs)).get('v') is False]
    rst = [st for st in f.calls() if st.get('fn') == 'reset' and 'obj' in st and (f.field_of(st['obj']) or '').endswith('token_')]
    for i in inv:
        ok = False
        for a in clr:
            g = [c for c, k, b in f.cfg.controlling_branches(q.pt(f, a)) if any(x.endswith('mode_') for x in q.subtree_fields(f, c)) and k == 0]
            if g and f.cfg.dominates(f.cfg.point_of(g[0]), q.pt(f, i)) and not f.cfg.exists_path(q.pt(f, i), q.pt(f, a)):
                ok = True
        ctx.ob('C02.R5', '%s|oneshot-first' % f.name, ok and bool(rst), 'under mode_ == kOneshot: is_enabled_ = false and token_.reset() precede the callback', where=f.loc(i['i']))
    e = prog.fn1(TE + '::enable')
    add = q.calls(e, callee=CL + '::addTimer') + [st for st in e.calls() if st.get('fn') == 'addTimer']
    add = list({a['i']: a for a in add}.values())
    st_ = [a for a, rhs in q.assigns(e, 'TimerEventImpl::is_enabled_') if e.s(e.strip_casts(rhs)).get('v') is True]
    g_ok = False
    for a in add:
        for r in q.returns(e):
            # an early return guarded by isEnabled() dominates... the add is reached only on its false edge
            pass
        gs = e.cfg.controlling_branches(q.pt(e, a))
        g_ok = any(any(c2.get('fn') == 'isEnabled' for c2 in q.subtree_calls(e, c)) and k == 1 for c, k, b in gs)
    ctx.ob('C02.R6', '%s|register-iff-not-enabled' % e.name, len(add) == 1 and g_ok and bool(st_) and all(e.cfg.exists_path(q.pt(e, add[0]), q.pt(e, s)) for s in st_),
           'addTimer only on the not-enabled edge, then is_enabled_ = true', where=e.loc(e.body))
    tok = [a for a, rhs in q.assigns(e, 'TimerEventImpl::token_')]
    ctx.ob('C02.R6', '%s|token-kept' % e.name, bool(tok) and all(add and add[0]['i'] in set(e.walk(a['i'])) for a in tok), 'the token returned by addTimer is stored', where=e.loc(e.body))
    d = prog.fn1(TE + '::disable')
    dl = [st for st in d.calls() if st.get('fn') == 'deleteTimer']
    cl = [a for a, rhs in q.assigns(d, 'TimerEventImpl::is_enabled_') if d.s(d.strip_casts(rhs)).get('v') is False]
    g_ok = False
    for a in dl:
        gs = d.cfg.controlling_branches(q.pt(d, a))
        g_ok = any(any(c2.get('fn') == 'isEnabled' for c2 in q.subtree_calls(d, c)) and ((k == 1) == (d.s(d.strip_casts(c))['k'] == 'UnaryOperator')) for c, k, b in gs)
    ctx.ob('C02.R6', '%s|remove-iff-enabled' % d.name, len(dl) == 1 and g_ok and bool(cl) and d.path(dl[0]['args'][0]) == 'token_', 'deleteTimer(token_) only on the enabled edge, then is_enabled_ = false', where=d.loc(d.body))
    ini = prog.fn1(TE + '::initialize')
    dt = [f_ for f_ in prog.methods_of(TE) if f_.d.get('dtor')]
    def always_disables(g):
        # every path passes disable(), except paths on which the timer is known not to be enabled (there disable() would do nothing)
        ds = q.calls(g, callee=TE + '::disable')
        if not ds:
            return False
        exits = [q.pt_or_term(g, r) for r in q.returns(g)] or ['exit']
        for ep in exits:
            if ep is None or not g.cfg.exists_path(g.cfg.entry_point(), ep, avoid=q.pts(g, ds), src_inclusive=True):
                continue
            known_off = False
            if ep != 'exit':
                for cond, k, b in q.guards_incl_flags(g, ep):
                    for l, o, r in q.edge_rels(g, cond, k):
                        if (l.endswith('is_enabled_') or l.endswith('isEnabled()')) and ((o == '==' and r in ('0', 'false')) or (o == '!=' and r in ('1', 'true'))):
                            known_off = True
            if not known_off:
                return False
        if not q.returns(g) and g.cfg.exists_path(g.cfg.entry_point(), 'exit', avoid=q.pts(g, ds), src_inclusive=True):
            return False
        return True
    ok = always_disables(ini) and bool(dt) and always_disables(dt[0])
    ctx.ob('C02.R6', TE + '|disable-on-reinit-and-destroy', ok, 'every path through initialize() and through the destructor disables the timer' if ok else
           'a path through %s leaves without disable(): a timer that is still armed keeps its old deadline — it fires although it was re-initialised and not enabled, '
           'and the next enable() does not start a fresh full interval' % ('initialize()' if not always_disables(ini) else 'the destructor'), where=ini.loc(ini.body))


def r7(ctx, prog):
    ctx.rule('C02.R7', 'A4+A6: "disabled or destroyed means never invoked again": where the destruction of a TimerEvent is deferred to a later loop task, the timer is '
             'disabled synchronously first (the destructor\'s own disable only runs when the deferred task does, and the timer may be due earlier in the same pass)', floor=2)
    funcs = [f for f in prog.funcs.values() if f.file.startswith(MODULES + '/eventx/timer_pool')]
    n = 0
    for f, lam_st, call in own.deferred_lambdas(prog, funcs):
        lam = prog.lambda_func(f, lam_st)
        if lam is None:
            continue
        dels = [st for st in lam.stmts if st and st['k'] == 'CXXDeleteExpr']
        for d in dels:
            v = lam.s(lam.strip_casts(d['ch'][0]))
            if not v or 'TimerEvent' not in (v.get('t') or v.get('ct') or ''):
                continue
            n += 1
            name = v.get('n')
            cp = q.pt(f, call)

            def disabled_before(g, var, point):
                ds = [c for c in g.calls() if c.get('fn') == 'disable' and 'obj' in c and g.path(c['obj']) == var]
                return bool(ds) and not g.cfg.exists_path(g.cfg.entry_point(), point, avoid=q.pts(g, ds))
            ok = disabled_before(f, name, cp)
            why = None
            pf = f.parent_func
            if not ok and f.is_lambda and pf is not None:
                # the callback of a one-shot timer deleting that timer: a one-shot has disabled itself before its callback (C02.R5)
                for sc in pf.calls():
                    if sc.get('fn') == 'setCallback' and 'obj' in sc and any(pf.stmts[x]['k'] == 'LambdaExpr' and pf.stmts[x].get('fn') == f.usr for a in sc.get('args', ()) for x in pf.walk(a)):
                        tv = pf.path(sc['obj'])
                        ini = [c for c in pf.calls() if c.get('fn') == 'initialize' and 'obj' in c and pf.path(c['obj']) == tv and
                               any((pf.stmts[x].get('n') == 'kOneshot') for a in c.get('args', ()) for x in pf.walk(a))]
                        # and the deleted timer is the one this token names (freed from the cabinet with the captured token)
                        if ini:
                            ok, why = True, 'deleted inside the callback of the one-shot timer itself (already disabled before its callback)'
            if not ok and any(p_['n'] == name for p_ in f.params):
                # helper taking the timer as a parameter: every caller must have disabled it before the call
                idx = [p_['n'] for p_ in f.params].index(name)
                sites = [(g, c) for g in funcs for c in g.calls() if c.get('usr') == f.usr]
                ok = bool(sites) and all(disabled_before(g, g.path(c['args'][idx]), q.pt(g, c)) for g, c in sites)
            ctx.ob('C02.R7', '%s|disable-before-deferred-delete' % locks.site_name(prog, f), ok,
                   (why or '%s->disable() runs on every path before its delete is deferred' % name) if ok else
                   'the delete of %s is deferred to a later loop task without a synchronous %s->disable(): until that task runs the timer is still armed and can fire '
                   'after cancel()/cleanup() returned' % (name, name), where=f.loc(call['i']))
    if n < 2:
        raise AnalysisBroken('expected >= 2 deferred TimerEvent deletes in TimerPool (cancel, cleanup), found %d' % n)


def r8(ctx, prog):
    ctx.rule('C02.R8', 'A10 repeat-count protocol by finite simulation: the two tests of Timer::repeat in handleExpiredTimers (remove the timer / count down) are folded for '
             'repeat = 0..3 and the firing sequence is replayed — a timer added with repeat r >= 1 is invoked exactly r times and then removed, repeat 0 is never '
             'removed; TimerEventImpl::enable() passes the value with "exactly one invocation" for a one-shot and the "never removed" value for a persistent timer', floor=3)
    f = prog.fn1(CL + '::handleExpiredTimers')
    rep = lambda sx: sx['k'] == 'MemberExpr' and sx.get('n') == 'repeat'
    frees = [c for c in f.calls() if c.get('fn') == 'free' and c.get('obj') is not None and (f.field_of(c['obj']) or '').endswith('timer_cabinet_')]
    decs = [st for st in f.stmts if st and st['k'] == 'UnaryOperator' and st.get('op') == '--' and (f.field_of(st['ch'][0]) or '').endswith('Timer::repeat')]
    if not frees or not decs:
        raise AnalysisBroken('handleExpiredTimers: removal (timer_cabinet_.free) / repeat count-down not found (%d/%d)' % (len(frees), len(decs)))

    def guard_fn(stmt):
        conds = [(c, k) for c, k, b in f.cfg.controlling_branches(q.pt_or_term(f, stmt)) if any(rep(f.stmts[x]) for x in f.walk(c))]
        def holds(r):
            for c, k in conds:
                v = q.eval_expr(f, c, lambda sx, r=r: r if rep(sx) else None)
                if v is None:
                    return None
                if bool(v) != (k == 0):
                    return False
            return True
        return holds, conds
    removed, c1 = guard_fn(frees[0])
    counted, c2 = guard_fn(decs[0])
    if not c1:
        raise AnalysisBroken('handleExpiredTimers: the removal is not under a test of repeat')

    def firings(r0):
        r, n = r0, 0
        while n < 8:
            n += 1
            rm = removed(r)
            if rm is None:
                return None
            if rm:
                return n
            cd = counted(r)
            if cd is None:
                return None
            if cd:
                r -= 1
                if r < 0:
                    return -1
        return 99       # not removed within 8 firings
    res = {r: firings(r) for r in range(0, 4)}
    ok = res[0] == 99 and all(res[r] == r for r in (1, 2, 3))
    ctx.ob('C02.R8', '%s|repeat-protocol' % f.name, ok, 'repeat r >= 1: exactly r invocations then removal; repeat 0: never removed' if ok else
           'replaying the repeat tests gives invocations-before-removal %s for repeat 0..3 (99 = never removed, -1 = count wraps below 0) instead of {0: never, 1: 1, 2: 2, 3: 3}: '
           'a one-shot timer fires again, or a persistent one stops' % res, where=f.loc(c1[0][0]))
    e = prog.fn1(TE + '::enable')
    add = [st for st in e.calls() if st.get('fn') == 'addTimer']
    if not add or len(add[0].get('args', [])) < 2:
        raise AnalysisBroken('TimerEventImpl::enable: addTimer(interval, repeat, cb) not found')
    a = e.s(e.strip_casts(add[0]['args'][1]))
    while a is not None and a['k'] in ('ParenExpr', 'ImplicitCastExpr') and a.get('ch'):
        a = e.s(e.strip_casts(a['ch'][0]))
    if a is None or a['k'] != 'ConditionalOperator':
        raise AnalysisBroken('TimerEventImpl::enable: the repeat argument is not `mode == kOneshot ? a : b`')
    rel = q.edge_relation(e, a['ch'][0], 0)
    one_first = rel is not None and rel[1] == '==' and any(x.endswith('kOneshot') for x in (rel[0], rel[2]))
    per_first = rel is not None and ((rel[1] == '!=' and any(x.endswith('kOneshot') for x in (rel[0], rel[2]))) or (rel[1] == '==' and any(x.endswith('kPersist') for x in (rel[0], rel[2]))))
    va, vb = (e.s(a['ch'][1]) or {}).get('cv'), (e.s(a['ch'][2]) or {}).get('cv')
    if not (one_first or per_first) or va is None or vb is None:
        raise AnalysisBroken('TimerEventImpl::enable: cannot read the repeat values of the two modes')
    v_one, v_per = (va, vb) if one_first else (vb, va)
    f1, fp = firings(v_one) if 0 <= v_one < 8 else None, firings(v_per) if 0 <= v_per < 8 else None
    ctx.ob('C02.R8', '%s|oneshot-value' % e.name, f1 == 1, 'a one-shot timer is added with repeat %d: one invocation, then removed' % v_one if f1 == 1 else
           'a one-shot timer is added with repeat %s, which the loop invokes %s' % (v_one, 'for ever' if f1 == 99 else '%s time(s)' % f1), where=e.loc(add[0]['i']))
    ctx.ob('C02.R8', '%s|persist-value' % e.name, fp == 99, 'a persistent timer is added with repeat %d: never removed by the loop' % v_per if fp == 99 else
           'a persistent timer is added with repeat %s, which the loop removes after %s invocation(s)' % (v_per, fp), where=e.loc(add[0]['i']))


def run(ctx):
    prog = extract('ALL' if ctx.tier == 'thorough' else SCOPE)
    ctx.guard(r1_heap_protocol, ctx, prog)
    ctx.guard(r2, ctx, prog)
    ctx.guard(r3, ctx, prog)
    ctx.guard(r4, ctx, prog)
    ctx.guard(r5_r6, ctx, prog)
    ctx.guard(r7, ctx, prog)
    ctx.guard(r8, ctx, prog)
    from rules import C02_replay
    ctx.guard(C02_replay.r9, ctx, prog)
    ctx.guard(C02_replay.r10, ctx, prog)
    return prog
